#!/bin/bash
# allseeds.sh <VERIF_SEED> [parallel] — evaluates every collected seed of every property (selftest/seed_collect.sh), P properties at a time
P=${2:-5}
printf 'C%02d\n' $(seq 1 20) | VERIF_SEED=$1 xargs -P $P -I{} /verif/selftest/seed_collect.sh {}
