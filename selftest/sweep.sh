#!/bin/bash
# sweep.sh <tier> <seed>... : every check at the given seeds; prints only the summary lines + anything unusual
tier=$1; shift
for sd in "$@"; do for i in 01 02 03 04 05 06 07 08 09 10 11 12 13 14 15 16 17 18 19 20; do
  out=$(VERIF_OUT=/var/tmp/verif-sweep-out VERIF_SEED=$sd /verif/vcheck C$i $tier 2>&1); rc=$?
  echo "rc=$rc $(echo "$out" | tail -1)"
  [ $rc != 0 ] && echo "$out" | head -20
done; done
rm -rf /var/tmp/verif-sweep-out
