#!/bin/bash
# seed_collect.sh <Cxx> [tier] — evaluate the sub-agent's seeds for a property and store confirmed ones under /verif/seeded
ID="$1"; TIER="${2:-quick}"
for s in /tmp/seedwork/wt-$ID/.seed/*/ /tmp/seedwork/wt-$ID/.seed2/*/ /tmp/seedwork/wt-$ID/.seed3/*/ /tmp/seedwork/wt-$ID/.seed4/*/ /tmp/seedwork/wt-$ID/.seed5/*/ /tmp/seedwork/wt-$ID/.seed6/*/ /tmp/seedwork/wt-$ID/.seed7/*/ /tmp/seedwork/wt-$ID/.seed8/*/ /tmp/seedwork/wt-$ID/.seed9/*/; do
  [ -f "$s/patch.diff" ] || continue
  i=$(basename "$s")
  case "$s" in */.seed2/*) i=$((i+2));; */.seed3/*) i=$((i+4));; */.seed4/*) i=$((i+6));; */.seed5/*) i=$((i+8));; */.seed6/*) i=$((i+10));; */.seed7/*) i=$((i+12));; */.seed8/*) i=$((i+14));; */.seed9/*) i=$((i+16));; esac
  if [ -n "${ONLY:-}" ] && [ "$ONLY" != "$i" ]; then continue; fi
  res=$(/verif/selftest/seed_eval.sh "$s" "$ID" "$TIER" | head -1)
  echo "$res"
  ok=$(python3 - "$res" <<'PY'
import json,sys
r=json.loads(sys.argv[1])
print(int(r['applied']==0 and r['build']==0 and r['suite']==0 and r['demo_clean']==0 and r['demo_seeded']!=0))
PY
)
  if [ "$ok" = 1 ]; then
    d=/verif/seeded/$ID-$i; mkdir -p "$d"
    cp "$s/patch.diff" "$s/demo_test.go" "$s/README.md" "$d/"
    python3 - "$res" "$d" <<'PY'
import json,sys,re
r=json.loads(sys.argv[1]); d=sys.argv[2]
readme=open(d+'/README.md').read()
prev={}
try: prev=json.load(open(d+'/meta.json'))
except Exception: pass
runs=prev.get('check_runs',[])
runs=[x for x in runs if x.get('tier')!=r['tier']]+[{'tier':r['tier'],'exit':r['check_exit'],'violations':r['violations'],'signatures':r['signatures']}]
meta=dict(prev)
meta.update({'property':r['property'],'origin':'independent sub-agent given only the property text and a scratch worktree',
 'needs_to_manifest':'see README.md (written by the sub-agent)',
 'confirmed':{'patch_applies_on_clean_copy':True,'library_builds':True,'repository_suite_passes_with_patch':True,'demo_passes_without_patch':True,'demo_fails_with_patch':True},
 'what_was_run':['selftest/seed_eval.sh <seed> %s <tier> : rsync copy of /repo under /var/tmp, git apply patch.diff, go build, go test -vet=off -count=1 ./..., demo with and without the patch, ./vcheck %s <tier> with VERIF_REPO=<copy>'%(r['property'],r['property'])],
 'check_runs':runs,'detected':any(x['exit']==1 for x in runs)})
if 'change' in prev: meta['needs_to_manifest']=prev['needs_to_manifest']
json.dump(meta,open(d+'/meta.json','w'),indent=1)
PY
  else
    echo "  NOT CONFIRMED: $s"
  fi
done
