#!/bin/bash
# mut.sh <patch-or-sed-script> <id> [tier]  — copy /repo to a scratch dir, apply the
# change, run the check against the copy (VERIF_REPO), report, delete the copy.
#   patch file: *.diff / *.patch applied with `git apply`;  otherwise: a bash script run with cwd = copy
set -u
CH="$(realpath "$1")"; ID="$2"; TIER="${3:-quick}"
D=/var/tmp/verif-mut.slot; rm -rf "$D"; mkdir -p "$D"   # fixed slot: the Go build cache is keyed by path
trap 'rm -rf "$D"' EXIT
rsync -a --exclude .git /repo/ "$D/"
case "$CH" in
  *.diff|*.patch) (cd "$D" && git init -q . 2>/dev/null; git -C "$D" apply --unsafe-paths "$CH") || { echo "patch failed"; exit 3; };;
  *) (cd "$D" && bash "$CH") || { echo "script failed"; exit 3; };;
esac
if [ "${MUT_RUN_SUITE:-0}" = 1 ]; then
  (cd "$D" && GOFLAGS=-mod=mod GOPROXY=off GOSUMDB=off GOTOOLCHAIN=local go test -vet=off -count=1 ./... 2>&1 | grep -v '^ok\|no test files' | head -20; echo "suite exit=${PIPESTATUS[0]}")
fi
VERIF_OUT="$D/.verif-out" VERIF_REPO="$D" /verif/vcheck "$ID" "$TIER"
rc=$?
echo "mutant $(basename "$CH") on $ID $TIER: exit=$rc"
exit $rc
