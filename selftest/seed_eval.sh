#!/bin/bash
# seed_eval.sh <seed-dir> <property-id> [tier]
# Confirms a seeded defect (patch.diff + demo_test.go + README.md produced by an
# independent sub-agent) and runs the property's check against it:
#   1. the patch applies to a clean copy of /repo, the library builds and the
#      repository suite passes with it;
#   2. the demonstration fails with the patch and passes without it;
#   3. ./vcheck <id> <tier> against the patched copy (VERIF_REPO) must exit 1.
# Prints one line of JSON with the outcome. Scratch copies live under /var/tmp and are removed.
set -u
SEED="$(realpath "$1")"; ID="$2"; TIER="${3:-quick}"
export GOFLAGS=-mod=mod GOPROXY=off GOSUMDB=off GOTOOLCHAIN=local
# one scratch slot per property (not a random name): the Go build cache is keyed by path, and
# a fresh path per evaluation adds about half a gigabyte of cache entries each time
D=/var/tmp/verif-seed.$ID
rm -rf "$D"; mkdir -p "$D" || exit 2
trap 'rm -rf "$D"' EXIT
rsync -a --exclude .git --exclude .seed /repo/ "$D/"
# where does the demo go? first "cp .seed/N/demo_test.go <dest>" in the README, else look at its package clause
DEST=$(grep -o 'cp [^ ]*demo_test.go [^ &;`)]*' "$SEED/README.md" | head -1 | awk '{print $3}')
case "$DEST" in /*) DEST="";; esac
PKG=$(grep -m1 '^package ' "$SEED/demo_test.go" | awk '{print $2}')
if [ -z "$DEST" ]; then
  case "$PKG" in
    nas|nas_test) DEST=zz_demo_test.go;;
    *) d=$(cd "$D" && grep -rl --include=*.go "^package ${PKG%_test}\$" . | head -1 | xargs dirname); DEST="$d/zz_demo_test.go";;
  esac
fi
DEST="${DEST#./}"
PKGDIR="./$(dirname "$DEST")"
RUN=$(grep -o 'func Test[A-Za-z0-9_]*' "$SEED/demo_test.go" | sed 's/func //' | paste -sd'|')
RACE=""; grep -qi -- '-race' "$SEED/README.md" && RACE="-race"
# a demonstration that needs a 32-bit build says so in its README (GOARCH=386 go test ...)
DEMOARCH=""; grep -q 'GOARCH=386 go test' "$SEED/README.md" && { DEMOARCH=386; RACE=""; }
demo() { (cd "$D" && cp "$SEED/demo_test.go" "$DEST" && GOARCH=${DEMOARCH:-$(go env GOARCH)} go test $RACE -vet=off -count=1 -run "^($RUN)\$" "$PKGDIR" >"$D/.demo.log" 2>&1; rc=$?; rm -f "$DEST"; exit $rc); }
demo; demo_clean=$?
(cd "$D" && git init -q . >/dev/null 2>&1; git apply "$SEED/patch.diff") >"$D/.apply.log" 2>&1; applied=$?
(cd "$D" && go build ./... >/dev/null 2>&1); build=$?
(cd "$D" && go test -vet=off -count=1 ./... >"$D/.suite.log" 2>&1); suite=$?
demo; demo_seeded=$?
rm -rf "$D/.git"
out=$(VERIF_OUT="$D/.verif-out" VERIF_REPO="$D" /verif/vcheck "$ID" "$TIER" 2>&1); check=$?
nv=$(echo "$out" | grep -c '^VIOLATION')
sig=$(echo "$out" | grep -m3 'signature=' | sed 's/.*signature=//' | paste -sd';' | cut -c1-300)
printf '{"seed":"%s","property":"%s","tier":"%s","applied":%d,"build":%d,"suite":%d,"demo_clean":%d,"demo_seeded":%d,"check_exit":%d,"violations":%d,"signatures":"%s"}\n' \
  "$(basename "$(dirname "$SEED")")/$(basename "$SEED")" "$ID" "$TIER" "$applied" "$build" "$suite" "$demo_clean" "$demo_seeded" "$check" "$nv" "$(echo "$sig" | sed 's/"/\\"/g')"
if [ "${SEED_VERBOSE:-0}" = 1 ]; then echo "$out" | tail -15; tail -5 "$D/.demo.log"; fi
