#!/usr/bin/env python3
"""Authoring-time: (re)writes the change / needs_to_manifest / history fields of the third-wave seeds
(sub-agents asked for changes that a randomized, model-comparing check would not reach)."""
import json,os
S={
'C01-5':('PlainNasDecode treats the input as a still-protected PDU when the receiver\'s own SecurityHeaderType is non-plain; length guard one octet short','receiver used before (SecurityHeaderType 1..4 stored), input exactly 6 octets, 0x7e first, security header type nibble equal to the stored one'),
'C01-6':('ServiceRequest decoder cross-checks an inner plain SERVICE REQUEST in the NAS message container with a guard one octet short','IE 0x71 with declared length exactly 3 and contents exactly `7e 00 4c`'),
'C02-5':('GsmMessageEncode copies the first four octets of the caller\'s buffer into the header view after encoding','5GSM message encoded with GsmMessageEncode into a buffer that already holds data, then the same value looked at or encoded again'),
'C02-6':('SecurityModeComplete decoder: truncation guard compares Len with uint16(buffer.Len())','both optional elements present and a NAS message container of 65524..65532 octets'),
'C03-5':('PlainNasDecode memoises its last successful call keyed by the caller\'s slice header (not a copy)','same Message, same receive buffer overwritten in place with a different PDU of equal length, two consecutive PlainNasDecode calls with nothing in between'),
'C03-6':('AuthenticationResult decoder cuts the EAP message to 4 octets when it is an EAP success/failure whose own length field says 4','canonical AUTHENTICATION RESULT, EAP IE longer than 4 octets starting 03|04 xx 00 04'),
'C04-5':('Equivalent PLMNs handled in whole 3-octet entries by encoder and decoder (consistent pair)','length octet in 3..45 that is not a multiple of 3'),
'C04-6':('optional-part scan of PDUSessionEstablishmentAccept bounded to 64 elements','optional part of at least 65 elements (heavy repetition of known elements)'),
'C05-5':('PlainNasEncode routes on the recorded protocol discriminator instead of on the body that is present','PlainNasDecode(5GMM) then GsmMessageDecode(5GSM) on one Message, then PlainNasEncode (or the families swapped)'),
'C05-6':('header length check done in uint16','total PDU size 65536..65538 (5GMM) / ..65539 (5GSM) with an assigned message type'),
'C06-5':('NEA3 draws the ZUC keystream in 4096-word reads; every read repeats the discard clock','payload longer than 16384 octets'),
'C06-6':('NEA2 caches the last AES key schedule; the hit path reads the cached block after dropping the lock','two goroutines ciphering with different keys at the same time'),
'C07-5':('NIA1 skips all-zero 64-bit message blocks','an all-zero 8-octet-aligned block after at least one non-zero bit'),
'C07-6':('ZUC initialisation-mode feedback computed with % (2^31-1): a sum congruent to 0 is stored as 0 instead of 2^31-1','(key, COUNT, BEARER, DIRECTION) for which one of the 32 initialisation rounds produces a feedback congruent to 0: 2^-26 per random tuple'),
'C08-5':('trace line in NASEncrypt prints payload[:8]','library log level raised to Trace before the call and a payload with capacity below 8'),
'C08-6':('NASEncrypt returns nil for an empty payload before the parameter validation','non-nil empty payload together with an invalid bearer / direction / algorithm'),
'C09-5':('GUTI5G Get/SetTMSI5G take the start octet from the type-of-identity bits','low bits of octet 0 equal to the 5G-S-TMSI type before the accessor is called'),
'C09-6':('LastVisitedRegisteredTAI.SetTAC ignores the "deleted TAI" code','SetTAC(ff ff fe)'),
'C10-5':('GmmMessageDecode re-uses the DLNASTransport body of the previous decode into the same Message','two consecutive DL NAS TRANSPORT decodes into one Message, the first with an optional IE the second lacks'),
'C10-6':('RegistrationRequest decoder hands out pointers into a package-level table of the 16 MICO indication values','edit the MICO indication of one decoded message, then decode the same octets again'),
'C11-5':('Count split into overflow + 9-bit sqn with a deferred carry that SetOverflow does not fold','SQN 0xff, AddOne, then SetOverflow or Set before any Get / AddOne / SetSQN'),
'C11-6':('Get() memoised, validated by a 16-bit write stamp','exactly 65536 (or a multiple) writes between two Get calls on one object'),
'C12-5':('SUCI routing indicator digits 3 and 4 read in the wrong nibble order (consistent pair)','routing indicator of 3 digits, or of 4 digits with digit 3 != digit 4'),
'C12-6':('GutiToStringWithError keeps the text of the last GUAMI, keyed by octets 2-7 although the PLMN text depends on octets 1-3','two consecutive GUTIs that differ only in the first two MCC digits'),
'C13-5':('LADN encoders/decoder build the DNN rune by rune','a DNN octet >= 0x80'),
'C13-6':('S-NSSAI SD converted by a hand-written hex parser that accepts lower case only','SD text with an upper-case hex digit'),
'C14-5':('malformed-identity log back-off divides by zero on the 32769th malformed identity','32768 malformed identities pushed through the non-error wrappers in one process before the call'),
'C14-6':('DecodeUniversalTimeAndLocalTimeZone caches time.Location per offset in an unsynchronised map','two goroutines decoding offsets not yet cached at the same time (cold process)'),
'C15-5':('packet filter content length coded as a uvarint by both sides (consistent pair)','one packet filter with 128..255 octets of components'),
'C15-6':('IPv4 address component serialised with append(p.Address, p.Mask...)','Address slice with spare capacity whose following octets belong to another value'),
'C16-5':('PSI bit-mask table with the entries for PSI 13 and 14 transposed in encoder and decoder','a bitmap in which PSI 13 and PSI 14 differ, compared against the specified layout'),
'C16-6':('PCO UnMarshal trims PPP-protocol units to the PPP packet\'s own length when the rest is zero padding','unit with id C021/C023/C223/8021 whose contents look like a PPP packet followed by zero octets'),
'C17-5':('network name packer pads names of 8n-1 characters with <CR> and reports 0 spare bits','name length congruent to 7 modulo 8'),
'C17-6':('GetTimeZone remembers the zone string of the *time.Location it saw last','two consecutive calls with the same tzdata location on different sides of a DST change'),
'C18-5':('three-digit MNC digits rotated consistently in sublist encoder and decoder','MNC >= 100 with digits not all equal, judged against the TS 24.008 octets'),
'C18-6':('ManageUEPolicyCommand decoder compares the list length with uint16(buffer.Len())','list contents of 65532..65535 octets followed by the network classmark'),
'C19-5':('QoSFlowDescs.UnmarshalBinary keeps the receiver\'s backing array','decode into a variable, hand the value on, decode into the same variable again while the first value is still read'),
'C19-6':('GetTimeZone derives the DST saving from a one-entry package-level memo written without synchronisation','two goroutines converting times of zones with different savings (Lord_Howe, Troll, one-hour zones)'),
'C20-5':('FreeID rebuilds the map every 1024th release and deletes from the stale alias','the 1024th effective release on one allocator'),
'C20-6':('setOffset normalises with (x + n) % n','Allocate_inRange with a start value within valueRange of MaxInt64'),
}
FIRST=['C04-5','C05-5','C07-5','C08-6','C12-5','C14-5','C16-5','C17-5','C17-6','C18-5']
H={
'C01-5':'missed at first (every decode used a fresh Message). C01 now also decodes every input into a receiver that was used before (security header type matching the input\'s nibble, both bodies populated) and sweeps every security-header nibble x lengths 0..14',
'C01-6':'missed at first (2^-24 for random contents). Container slots now carry every prefix of every message type\'s own encoding (domain corpus: nested-prefix)',
'C02-5':'missed at first. The round trip now encodes the same value again behind data already in the buffer and compares the message with a deep snapshot (encode-modifies-message)',
'C02-6':'missed at first (lengths near 65535 were only tried alone). bigPDUs: slot lengths 65519..65535 alone and among all other optional elements, total sizes 65533..65542',
'C03-5':'missed at first. New receive-buffer oracle: one Message and one buffer overwritten in place, PlainNasDecode only, comparison decode through the family entry point',
'C03-6':'missed at first (1.2e-7 per random element). EAP slots now carry EAP packets of every code with consistent and inconsistent length fields (domain corpus: eap)',
'C04-6':'missed at first (at most ~20 optional elements per string). Strings of 33..300 (thorough ..5000) optional elements with a fresh element last',
'C05-6':'missed at first (no legal PDU of 65536+ octets in the dispatch check). bigPDUs with must-accept through both entry points',
'C06-5':'missed by quick at first (largest quick payload 8 KiB; thorough reached it). Quick now goes to 16 KiB+8 and 32 KiB',
'C06-6':'not decidable sequentially. New concurrent probe: 8 goroutines, 2..8 distinct keys, every result compared with the reference value for that worker\'s own arguments',
'C07-6':'missed at first and thought out of reach (2^-26). The reference now constructs parameters whose first initialisation round meets the zero rule (closed form in s0; about 2^15 draws per witness), verified by an event counter in the reference',
'C08-5':'missed at first (log level never raised, payload slices had spare capacity). Exact-capacity payloads and a unit that runs the laws with the library logger at Trace level',
'C09-5':'missed at first (8 priors). Priors now walk the low and high nibble of octet 0 through all values; 36 priors for array fields',
'C09-6':'missed at first (pattern values only). Array values now include the dictionary entries of the field width (typed special values + literals mined from the tree by vgen)',
'C10-5':'missed at first (fresh Message per decode). New decode-reuse histories with same-type sequences and fingerprints of the bodies handed out earlier',
'C10-6':'missed at first (only []byte fields were scribbled). Every settable scalar of the decoded message is now overwritten and the same octets decoded again',
'C11-5':'missed at first (every event was followed by Get). Blind sequences: all operation sequences up to length 4 (thorough 5) from 12 boundary states with one read at the end',
'C11-6':'missed at first. Blind runs of 1..131073 mutations (around 2^8, 2^15, 2^16, 2^17) between reads',
'C12-6':'missed at first (every identity drawn afresh). Series of identities that differ from their predecessor in one digit / nibble',
'C13-5':'missed at first (DNNs were text). DNN values now include arbitrary octets',
'C13-6':'missed at first (lower-case hex only). SD and TAC text in lower, upper and mixed case',
'C14-6':'not decidable sequentially and only with cold package state. New Fresh units (a process of their own, normal scheduling): all targets entered by 8 goroutines at once; confirmation replay repeated up to five times',
'C15-5':'missed at first (at most 4 components per filter). One filter in six now carries 128..255 octets of components',
'C15-6':'missed at first (fresh slices with exact capacity). Address / mask / MAC values are now sub-slices of one arena with spare capacity, laid out so that an address is never followed by its own mask',
'C16-6':'missed at first (random contents). Units with the protocol identifiers the tree mentions and PPP-shaped contents with zero / non-zero padding',
'C18-6':'missed at first (lists of a few hundred octets). Commands with list contents of 65523..65535 octets with and without classmark',
'C19-5':'missed at first. New handoff kind: decode, hand the value to another goroutine, decode into the same variable again (race detector + result digest)',
'C19-6':'missed at first (UTC times only). New zones kind with tzdata locations of 30-minute, one-hour and two-hour savings',
'C20-5':'missed at first (histories of 1000 operations). Histories of 8000 (thorough 30000) operations; floor: at least 1500 effective releases on one allocator',
'C20-6':'missed at first (start values inside the range). Start values up to MaxInt64; detected as a hang (negative offset never returns to the start of the scan)',
}
for k,(what,needs) in S.items():
    d='/verif/seeded/'+k
    if not os.path.isdir(d): print('missing',k); continue
    m=json.load(open(d+'/meta.json'))
    m['change']=what; m['needs_to_manifest']=needs; m['wave']=3
    if k in H: m['history']=H[k]
    elif k in FIRST:
        m.pop('history',None); m['first_pass']='detected by the checks as they stood after the second wave'
    json.dump(m,open(d+'/meta.json','w'),indent=1)
