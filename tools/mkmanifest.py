#!/usr/bin/env python3
"""Regenerates MANIFEST.json from the table below; run after adding a check."""
import json, subprocess, sys, os

HERE = os.path.dirname(os.path.dirname(os.path.abspath(__file__)))

# id -> (engine, technique, level text, level note, design ref)
CHECKS = {
 "C11": ("history", "recorded operation histories replayed offline against a 24-bit integer model; exhaustive 2^24-state increment sweep",
         "Every one of the 2^24 counter states is reached through Set and observed across AddOne (and a rotating subset across both setters and a read); sampled random operation histories are logged event by event and replayed by an offline checker. Exhaustive for single steps, sampled for sequences.",
         "Trusts the Go toolchain; states are reached through the public API only.", "5/C11"),
}

CHECKS.update({
 "C06": ("crypto", "reference-model monitor: every call compared with independent SNOW 3G / AES-CTR / ZUC models validated on published vectors",
         "Runs NASEncrypt, NEA1/2/3 and the raw keystream generators on generated parameter tuples (every bit length 0..1100/2200 and 2^k boundaries, all 64 bearer×direction values, structured and random keys/counts) and compares the first LENGTH bits with reference implementations written from the specifications. Sampled, not exhaustive: held on the tuples observed.",
         "Trusts crypto/aes as the block primitive, the reference models (validated on 43 published vectors at every run start) and the Go toolchain.", "5/C06"),
 "C07": ("crypto", "reference-model monitor: every MAC compared with independent UIA2-f9 / AES-CMAC / EIA3 models, clean and dirty tails",
         "Runs NASMacCalculate and NIA1/2/3 on generated tuples (every bit length 0..1100/2200 and 2^k boundaries, all bearer×direction values, clean and dirty tails after the message end) and compares the 32-bit MAC with reference implementations. Sampled.",
         "Same trusted base as C06; zero-length MACs are what the specifications' formulae give.", "5/C07"),
 "C08": ("crypto", "law monitor (involution, prefix, keystream independence, NULL, validation) + exhaustive alg×bearer×direction validation grid with payload snapshots",
         "Algebraic laws checked on every valid algorithm for payload lengths 0..300 and larger; the validation grid alg×bearer×direction is enumerated completely in thorough (2^24 points × 3 payload lengths × 2 functions) and for alg 0..7 × bearer 0..255 × direction 0..3 in quick; payload snapshots detect writes on error paths.",
         "Keys are passed by value; laws need no reference model.", "5/C08"),
 "C20": ("history", "recorded allocate/free histories replayed against a live-set model + hooked allocator state (H1); bounded-depth exhaustive enumeration and random histories",
         "Every operation sequence up to depth 3/4 (full alphabet, ranges 1..4) and depth 7/9 (reduced alphabet, ranges 1..3) is executed on the real allocator, each event judged against a live-set model and the hooked internal state; random 1000-step histories on ranges up to 64 on top.",
         "Hook H1 (build tag verif) reports real fields; arguments non-negative, min<=max.", "5/C20"),
})

CHECKS.update({
 "C09": ("accessor", "state monitor: full post-state of every accessor call compared with the prediction from a frozen documented-layout table; all parameter values",
         "All 742 getter/setter pairs are driven by reflection from arbitrary prior states (Iei, Len and every data octet set), with every value of the parameter type for uint8 fields and (thorough) uint16 fields; the complete post-state must equal 'prior with only the documented bits replaced'. Exhaustive in values, sampled in prior states.",
         "spec/layout.json (documented Row,sBit,len frozen from the pinned tree, normalisations listed in the file); SetLen of a Buffer-backed element is an allocator.", "5/C09"),
})

CHECKS.update({
 "C01": ("codec", "resource monitor: journalled, recover()-wrapped decode calls on hostile inputs; two-stage hang rule; ReadMemStats allocation meter on a solo shard",
         "Every message × slot × declared length (0..min(max+1,300), boundaries, 4095, 65534, 65535 in thorough) × every truncation point, byte-level mutations of plans and repository samples, random strings behind every header and 70 000-octet inputs go through the three decode entry points; panics, runtime fatals, hangs (no journal progress, then CPU-budgeted replay alone) and per-call allocation above 8 KiB + 64·len + 3·64 KiB / 256 + 4·len mallocs are violations. Held on the inputs executed.",
         "Work is observed through termination and allocation counters only; table of slots from spec/messages.json drives the enumeration.", "5/C01"),
 "C02": ("codec", "law monitor: generated well-formed messages (decoder normal form) encoded and decoded, reflect.DeepEqual with the original",
         "All 45 definitions × presence subsets (all 2^k up to k=8/12, structured patterns beyond) × {min, max, interior} lengths × content shapes, plus random plans, through three API paths; the decoded value must be deep-equal to the generated one. Sampled space, every slot at min/max/interior by construction.",
         "Normal form and bounds from spec/messages.json; well-formedness exactly as in the statement.", "5/C02"),
 "C03": ("codec", "law monitor: decode→encode→decode→encode fixed point on every accepted input; byte equality for generator-known canonical inputs",
         "Every input PlainNasDecode accepts among generated plans (reordered, duplicated, unknown identifiers, look-alikes, splices, flips) and mutated repository samples is re-encoded twice; values and bytes must be stable, and inputs flagged canonical by the generator must re-encode byte-exactly.",
         "Canonicity known by construction from the table, never inferred from the library.", "5/C03"),
 "C04": ("codec", "reference-model monitor: real decoder/encoder vs. table-driven reference codec on strings built from known identifiers (all boundary lengths, orders, duplicates, every truncation)",
         "For every message × slot × boundary length × context and every prefix of each string, accept/reject and each slot's presence, identifier, Len and value are compared with an independent table-driven decoder; emitted bytes of well-formed messages are compared with a reference encoder; live struct layout and identifier constants are compared with the table. Dynamic half of the property only.",
         "spec/messages.json is a frozen, reviewed extraction of the pinned tree's tables (TS 24.501 not available offline); the static 'all 90 generated functions / AST' half is not decided by this technique.", "5/C04"),
 "C05": ("codec", "exhaustive routing grid: all 65 536 (first octet, type) pairs at both header offsets × bodies, short inputs, encode over all 256 types per family, judged against the frozen type table",
         "Exhaustive over (first octet, message type, offset); bodies sampled (bare header, minimal valid body, random). Exactly one body pointer, the right one, header view = input header = body header octets; errors for everything unassigned, short, nil or empty; symmetric on encode.",
         "Assigned types from spec/messages.json.", "5/C05"),
 "C10": ("codec", "state monitor: input/message/buffer snapshots, address-range disjointness by reflection, bidirectional mutation probes, double-run determinism",
         "Accepted and rejected inputs through three entry points with guarded spare capacity; every []byte reachable from the decoded message is checked for overlap with the input's backing array and by flipping all octets both ways; encode checked against deep snapshots with pre-filled buffers and spare capacity.",
         "Reflection sees every exported field; unexported state does not exist in these types.", "5/C10"),
})

CHECKS.update({
 "C12": ("conv", "reference-model monitor: identity converters vs. TS-layout builders/renderers written in /verif; exhaustive PLMN and AMF-id spaces",
         "All 1.1 M (MCC, MNC) pairs and all 2^24 AMF identifiers in both directions; sampled GUTI / 5G-S-TMSI / SUCI / NAI / PEI identities through the converters, the GUTI5G/TMSI5GS accessors and the MobileIdentity5GS text getters; invalid-text families must give errors.",
         "Reference layouts from TS 24.501 9.11.3.4, TS 24.008 10.5.1.3, TS 23.003; lower-case hex text.", "5/C12"),
 "C13": ("conv", "reference-model monitor: library encoders decoded by spec decoders written in /verif; library decoders fed reference encodings",
         "S-NSSAI (all SST, sampled SD, thorough: two full 2^24 SD sweeps), rejected NSSAI, requested NSSAI with all five variants and malformed lengths, TAI lists of 1..16 over 1..3 PLMNs, service-area lists of 1..16 TACs, LADN information and indication with DNNs of 1..100 octets. Sampled.",
         "Spec decoders from TS 24.501 9.11.2.8 / 9.11.3.9 / .29 / .30 / .46 / .49; DNN opaque.", "5/C13"),
 "C14": ("conv", "totality monitor: every short byte string per target under recover() with a crash-surviving journal, memory watchdog and two-stage hang rule",
         "36 targets × every byte string of length <= 2 (thorough <= 3; text targets over a 40-symbol alphabet) plus generated inputs up to 300 octets; panics, runtime fatals, hangs and unbounded growth are violations. Exhaustive for short inputs, sampled beyond.",
         "Target list fixed in the harness; element-typed targets get decoder-shaped elements.", "5/C14"),
})

CHECKS.update({
 "C15": ("conv", "reference-model monitor: QoS rule / flow-description (de)serialiser vs. a reference written from TS 24.501 9.11.4.12/13; totality sweep of short strings",
         "Generated well-formed lists (all operations, 0..15 filters, all 18 component types, 0..63 parameters of 7 kinds) must serialise to the reference bytes and parse back equal; lists with one undefined identifier must be rejected; every byte string of <= 2 (thorough 3) octets and mutated serialisations must not panic.",
         "Reference layout in /verif; delete-rule precedence/QFI octets taken as emitted.", "5/C15"),
 "C16": ("conv", "law + reference monitor: PCO marshal/unmarshal round trip and offset-exact parse check; exhaustive PSI bitmap sweep",
         "PCO lists of 0..20 units round-trip with the 0x80 first octet; every unit of a nil-error parse is exactly what the input holds at its offset; all byte strings of <= 2 (thorough 3) octets; all 65 536 PDU session bitmaps both ways.",
         "LengthOfContents = len(Contents) in well-formed lists.", "5/C16"),
 "C17": ("conv", "reference-model monitor with exhaustive domains: timer ladders, AMBR table, zone×DST grid, time stamps, GSM 7-bit names, each decoded by independent code",
         "Every duration of both GPRS timer ranges, all 65 536×5×2 AMBR combinations, all 159×3 zone/DST combinations within ±19:45, every name length 0..64 (full and short), time stamps at second resolution on sampled days and hourly over the century in fixed and tz-database zones. Exhaustive except for time stamps and name contents.",
         "TS 24.008 / TS 24.501 / TS 23.040 / TS 23.038 decoders in /verif; tz database via time/tzdata.", "5/C17"),
})

CHECKS.update({
 "C18": ("conv", "reference-model + totality monitor: API-built UE policy messages vs. a reference serialiser with computed lengths and TS 24.008 PLMN octets; decoder sweeps of short strings",
         "Commands/rejects/completes built through the API with 0..5 sublists × 0..3 instructions × 0..3 parts are compared byte for byte with a reference serialiser and field by field after decode(encode); every (MCC, MNC) pair the setters accept is compared with PlmnIDToNas; the three decoders see every byte string of <= 2 (thorough 3) octets and mutated encodings. PLMN pairs exhaustive, messages sampled.",
         "Integer MCC/MNC: MNC < 100 is a 2-digit MNC; Result.Cause forced to 0x6F by the library.", "5/C18"),
})

CHECKS.update({
 "C19": ("race", "Go race detector (-race build) over a barrier-only concurrent workload + comparison of every concurrent result with a sequential pre-run",
         "Rounds of 2/4/16/64 goroutines run 18 kinds of library calls on private values and read-only calls on 64 shared decoded messages, with no synchronisation between the start barrier and the join; any race report with a library frame and any result that differs from the sequential run is a violation. Schedules are sampled; overlap actually observed is reported.",
         "Race detector semantics (happens-before); written-to values are never shared, as the statement allows.", "5/C19"),
})

NOT_YET = {
}

def main():
    props = [json.loads(l) for l in open(os.path.join(HERE, "properties.jsonl"))]
    ids = [p["id"] for p in props]
    hooks_commits = []
    hc = os.path.join(HERE, "MANIFEST.hooks")
    if os.path.exists(hc):
        hooks_commits = [l.split()[0] for l in open(hc) if l.strip() and not l.startswith("#")]
    m = {
        "version": 1,
        "setup_cmd": "./vcheck --setup",
        "hooks": {
            "guard": "verif",
            "enable": "go build -tags verif (every worker is built with it by ./vcheck)",
            "baseline_off_cmd": "cd /repo && go test -mod=mod -vet=off -count=1 -timeout 25m ./...",
            "source_commits": hooks_commits,
            "add_only": True,
        },
        "engines": [
            {"name": "codec", "path": "harness/internal/monitor", "serves_properties": ["C01", "C02", "C03", "C04", "C05", "C10"], "kind_free_text": "table-driven plan generator + reference codec + reflection views; oracles watch every decode/encode call"},
            {"name": "crypto", "path": "harness/internal/refcrypto", "serves_properties": ["C06", "C07", "C08"], "kind_free_text": "reference SNOW 3G / ZUC / AES-CTR / CMAC models and algebraic law monitors"},
            {"name": "accessor", "path": "harness/internal/monitor", "serves_properties": ["C09"], "kind_free_text": "state monitor: exact predicted post-state of every IE accessor from a frozen layout table"},
            {"name": "conv", "path": "harness/internal/refconv", "serves_properties": ["C12", "C13", "C14", "C15", "C16", "C17", "C18"], "kind_free_text": "spec-side reference converters + totality runner with crash-surviving journal"},
            {"name": "history", "path": "harness/internal/monitor", "serves_properties": ["C11", "C20"], "kind_free_text": "event logs checked offline against sequential models; hooked allocator state"},
            {"name": "race", "path": "harness/internal/monitor", "serves_properties": ["C19"], "kind_free_text": "Go race detector over a barrier-only concurrent workload + sequential result comparison"},
        ],
        "checks": [],
        "not_applicable": [],
        "notes": "Exit codes: 0 held on everything observed, 1 violation (VIOLATION line + replay file), 2 inconclusive (never on the unchanged tree). KNOWN_FINDINGS.json lists recorded and fixed defects. See DESIGN.md.",
    }
    for i in ids:
        if i in CHECKS:
            eng, tech, text, note, ref = CHECKS[i]
            if i not in ("C11", "C19", "C20"):
                text += " Cross-cutting (DESIGN.md 2.1a, 4.1-4.3): contents with a meaning (dictionary mined from the tree, nested messages, EAP/PPP shapes, sizes around 2^16), histories on one object (reused receivers and buffers, values copied by value, results overwritten by the caller), interleaved re-execution of earlier cases, a re-run of every eighth case at another log level (trace, debug, quieter), cold-start concurrent probes in processes of their own (the first calls of each entry point made by 16 goroutines at once), a side run of the concurrent and cold-start units under the Go race detector (DESIGN.md 2.1 item 9), and a second run of the quick tier on a 32-bit build (GOARCH=386)."
                tech += "; interleaved and log-level re-execution; cold-start concurrent probes; Go race detector over the concurrent units; second run on a 32-bit build"
            elif i in ("C11", "C20"):
                text += " Cold-start concurrent probes in processes of their own, a side run of the concurrent and cold-start units under the Go race detector (DESIGN.md 2.1 item 9), and a second run of the quick tier on a 32-bit build (GOARCH=386)."
                tech += "; cold-start concurrent probes; Go race detector over the concurrent units; second run on a 32-bit build"
            m["checks"].append({
                "property_id": i,
                "quick_cmd": f"./vcheck {i} quick",
                "thorough_cmd": f"./vcheck {i} thorough",
                "evidence_file": f"/verif/evidence/{i}.json",
                "replay_cmd_template": f"./vcheck {i} --replay {{path}}",
                "engine": eng,
                "level_claimed": {"category": "exploration", "text": text, "design_ref": "DESIGN.md section " + ref},
                "level_note": note,
                "technique": tech,
            })
        else:
            m["not_applicable"].append({"property_id": i, "reason": NOT_YET.get(i, "check not built yet in this revision of /verif (runtime monitoring applies; see DESIGN.md) — not claimed until its monitor exists and is silent on the unchanged tree")})
    json.dump(m, open(os.path.join(HERE, "MANIFEST.json"), "w"), indent=1)
    print("checks:", len(m["checks"]), "not_applicable:", len(m["not_applicable"]))

main()
