#!/usr/bin/env python3
"""Regenerates MANIFEST.json from the table below; run after adding a check."""
import json, subprocess, sys, os

HERE = os.path.dirname(os.path.dirname(os.path.abspath(__file__)))

# id -> (engine, technique, level text, level note, design ref)
CHECKS = {
 "C11": ("history", "recorded operation histories replayed offline against a 24-bit integer model; exhaustive 2^24-state increment sweep",
         "Every one of the 2^24 counter states is reached through Set and observed across AddOne (and a rotating subset across both setters and a read); sampled random operation histories are logged event by event and replayed by an offline checker. Exhaustive for single steps, sampled for sequences.",
         "Trusts the Go toolchain; states are reached through the public API only.", "5/C11"),
}

NOT_YET = {
}

def main():
    props = [json.loads(l) for l in open(os.path.join(HERE, "properties.jsonl"))]
    ids = [p["id"] for p in props]
    hooks_commits = []
    hc = os.path.join(HERE, "MANIFEST.hooks")
    if os.path.exists(hc):
        hooks_commits = [l.split()[0] for l in open(hc) if l.strip() and not l.startswith("#")]
    m = {
        "version": 1,
        "setup_cmd": "./vcheck --setup",
        "hooks": {
            "guard": "verif",
            "enable": "go build -tags verif (every worker is built with it by ./vcheck)",
            "baseline_off_cmd": "cd /repo && go test -mod=mod -vet=off -count=1 -timeout 25m ./...",
            "source_commits": hooks_commits,
            "add_only": True,
        },
        "engines": [
            {"name": "codec", "path": "harness/internal/monitor", "serves_properties": ["C01", "C02", "C03", "C04", "C05", "C10"], "kind_free_text": "table-driven plan generator + reference codec + reflection views; oracles watch every decode/encode call"},
            {"name": "crypto", "path": "harness/internal/refcrypto", "serves_properties": ["C06", "C07", "C08"], "kind_free_text": "reference SNOW 3G / ZUC / AES-CTR / CMAC models and algebraic law monitors"},
            {"name": "accessor", "path": "harness/internal/monitor", "serves_properties": ["C09"], "kind_free_text": "state monitor: exact predicted post-state of every IE accessor from a frozen layout table"},
            {"name": "conv", "path": "harness/internal/refconv", "serves_properties": ["C12", "C13", "C14", "C15", "C16", "C17", "C18"], "kind_free_text": "spec-side reference converters + totality runner with crash-surviving journal"},
            {"name": "history", "path": "harness/internal/monitor", "serves_properties": ["C11", "C20"], "kind_free_text": "event logs checked offline against sequential models; hooked allocator state"},
            {"name": "race", "path": "harness/internal/monitor", "serves_properties": ["C19"], "kind_free_text": "Go race detector over a barrier-only concurrent workload + sequential result comparison"},
        ],
        "checks": [],
        "not_applicable": [],
        "notes": "Exit codes: 0 held on everything observed, 1 violation (VIOLATION line + replay file), 2 inconclusive (never on the unchanged tree). KNOWN_FINDINGS.json lists recorded and fixed defects. See DESIGN.md.",
    }
    for i in ids:
        if i in CHECKS:
            eng, tech, text, note, ref = CHECKS[i]
            m["checks"].append({
                "property_id": i,
                "quick_cmd": f"./vcheck {i} quick",
                "thorough_cmd": f"./vcheck {i} thorough",
                "evidence_file": f"/verif/evidence/{i}.json",
                "replay_cmd_template": f"./vcheck {i} --replay {{path}}",
                "engine": eng,
                "level_claimed": {"category": "exploration", "text": text, "design_ref": "DESIGN.md section " + ref},
                "level_note": note,
                "technique": tech,
            })
        else:
            m["not_applicable"].append({"property_id": i, "reason": NOT_YET.get(i, "check not built yet in this revision of /verif (runtime monitoring applies; see DESIGN.md) — not claimed until its monitor exists and is silent on the unchanged tree")})
    json.dump(m, open(os.path.join(HERE, "MANIFEST.json"), "w"), indent=1)
    print("checks:", len(m["checks"]), "not_applicable:", len(m["not_applicable"]))

main()
