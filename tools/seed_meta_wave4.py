#!/usr/bin/env python3
"""Authoring-time: (re)writes the change / needs_to_manifest / history fields of the fourth-wave seeds
(change 1: a part of the property's scope no earlier seed touched; change 2: whatever the agent judged
hardest for a randomized, boundary-value and multi-step campaign that had caught the first six)."""
import json,os
S={
'C01-7':('RegistrationRequest decoder validates a plain inner REGISTRATION REQUEST in the NAS message container by calling itself, without a depth bound','the message nested in its own container hundreds to thousands of levels deep (13 octets per level): quadratic allocation, result unchanged'),
'C01-8':('ConfigurationUpdateCommand decoder tolerates a truncated LADN element: check after SetLen allocated, `break` leaves only the switch','a TLV-E header with a legal declared length larger than what remains, repeated: 1712 octets allocated per 3 input octets'),
'C02-7':('PDUSessionEstablishmentRequest decoder stores the SSC mode through SetSSCMode (masks with 7)','SSC mode element with value nibble 8..15'),
'C02-8':('trace helper peeks the 16-bit length with two ReadByte/UnreadByte pairs (the second UnreadByte fails)','library logger at Trace level and a PDU SESSION ESTABLISHMENT ACCEPT with an extended-length optional element'),
'C03-7':('PDUSessionModificationRequest optional loop runs while buffer.Len() > 1','the one-octet always-on element as the last octet of the message'),
'C03-8':('PlainNasEncode takes its buffer from a sync.Pool and returns a slice of it','encode A, keep the slice, encode B, then use A'),
'C04-7':('ULNASTransport decoder stores the request type through SetRequestTypeValue (masks with 7)','request type octet 0x88..0x8f'),
'C04-8':('ABBA.GetLen returns len(Buffer) when Buffer is non-nil; the generated decoder calls SetLen(GetLen())','DecodeAuthenticationRequest called twice on the same body value with ABBAs of different length'),
'C05-7':('PDUSessionModificationCommandReject decoder reads PTI before the PDU session identity','message type 0xCD with PDU session identity != PTI'),
'C05-8':('trace helper hex-dumps byteArray[:headerLen] before the header length check','library logger at Trace level and an input shorter than the header in a slice whose capacity is also shorter'),
'C06-7':('ZUC feedback summed in uint64 and folded once','a state for which low31(sum)+carry reaches 2^31 (feedback residue 1..6): about 1.3e-9 per clock'),
'C06-8':('NEA2 trace diagnostic draws the first keystream block from the stream that then ciphers the payload','library logger at Trace level'),
'C07-7':('NIA2 key schedules kept in a 1024-slot table; a recycled slot keeps its old map entry and hits are not verified','key A, then at least 1024 other distinct keys, then A again'),
'C07-8':('getWord keeps its two-word window in uint instead of uint64','a 32-bit build (GOARCH=386): << 32 yields 0 and every NIA3 MAC is wrong; amd64 is unaffected'),
'C08-7':('NEA3 octet-aligned fast path takes the last keystream word in the wrong octet order for the 1..3 tail octets','algorithm 3 through NASEncrypt with a payload length that is not a multiple of 4'),
'C08-8':('NEA2 keeps one context (schedule, counter block, keystream block) per most recent key and runs CTR on it outside the lock','two goroutines ciphering under the SAME key at the same time'),
'C09-7':('S1UENetworkCapability.GetSpare guards with len(Buffer) < 9 instead of < 8','an element of length exactly 8'),
'C09-8':('PayloadContainer.SetPayloadContainerContents keeps the caller\'s slice when the value fits the buffer exactly','the caller (or another element) writes through the slice after the setter call'),
'C10-7':('PDUSessionEstablishmentAccept decoder masks the spare bits of the PDU address in place on buffer.Next (the caller\'s input)','PDU address whose first content octet has a bit above bit 3 set'),
'C10-8':('AuthenticationResult encoder back-patches the EAP length at a uint16 buffer offset','encode into a caller-supplied buffer that already holds 65532 or more octets'),
'C11-7':('Count.Set skips SetOverflow when the overflow compares equal under mask 0x0000ff00','Set with a new overflow that differs from the stored one only in its high byte'),
'C11-8':('SQN()/Overflow() read a lazily allocated cache shared through a pointer field','read, copy the Count by value, SetSQN/SetOverflow/Set on one copy, read the other'),
'C12-7':('NAI rendering shares the MSIN helper that drops a trailing filler f','NAI-format SUCI whose last octet has low nibble 0xF'),
'C12-8':('MCC/MNC getters use a 256-entry digit table built lazily and published before it is filled','the first getter calls of the process made by several goroutines within the few microseconds of the fill'),
'C13-7':('SnssaiToModels length switch lost the case for 5','S-NSSAI element of length exactly 5'),
'C13-8':('TaiListToNas returns a slice of a sync.Pool buffer','encode A, keep it, encode B (or LadnToNas), then use A'),
'C14-7':('snssaiToModels extracts fields before it validates the length','last S-NSSAI of the list with length octet 6 or 7 and too few octets behind it'),
'C14-8':('GutiToNasWithError lower-cases the text after the byte-length check','19/20-byte text made of five digits and letters whose lower-casing shortens the encoding (Kelvin sign, dotted capital I)'),
'C15-7':('QoS flow parameter with length octet 0 is skipped before its identifier is looked up','unknown parameter identifier with length exactly 0'),
'C15-8':('QoSRules.MarshalBinary reuses the previous rule\'s encoded filter list when the PacketFilterList slice is the same, ignoring the operation','two consecutive rules sharing one PacketFilterList slice, exactly one of them a delete-filters rule'),
'C16-7':('Add*Address helpers share addressOctets(ip) = To4() or To16()','AddDNSServerIPv6Address with an IPv4-mapped address: length 16 declared, 4 octets stored'),
'C16-8':('PSIToBuf returns a package-level slice for the empty bitmap','convert the empty bitmap, write into the result, convert the empty bitmap again'),
'C17-7':('DecodeLocalTimeZone formats the sign with the hour part only','zones -00:15, -00:30, -00:45'),
'C17-8':('ModelsToSessionAMBR parses the number with base 0','zero-padded numeric part ("0100 Mbps", "0128 Mbps")'),
'C18-7':('UePolDeliverySerDecode allocates a body only when the pointer is nil','one UePolDeliverySer value decodes a command with classmark, then a command without'),
'C18-8':('UEPolicyPart.MarshalBinary returns a slice of a sync.Pool buffer','call it directly, keep the slice, marshal another part, use the first'),
'C19-7':('PlainNasEncode stores the EPD into the message\'s header before dispatching','two goroutines encoding (or one encoding, one reading) the same decoded message'),
'C19-8':('NASMacCalculate returns a slice over one package-level array for NIA0','a caller writes into the MAC it was given while another goroutine holds or obtains its own'),
'C20-7':('the offset step is a method value stored at init, bound to the object NewGenerator allocated','the allocator used through a value copy (the library\'s own by-value UpscGenerator field)'),
'C20-8':('FreeID ignores identifiers above 0xFFFF','a range reaching above 65535 and a release of such an identifier'),
}
FIRST=['C02-7','C03-7','C03-8','C04-7','C05-7','C08-7','C09-7','C10-7','C11-7','C12-7','C13-7','C13-8','C14-7','C15-7','C17-7','C19-7']
H={
'C01-7':'missed at first (the over-allocation meter saw nested messages only three levels deep, and the first container slot only). The meter now nests every message through each of its container slots down to 4 000 / 16 000 / 65 530 octets',
'C01-8':'missed at first (the long inputs were not metered with this shape). The meter now feeds, for every message, each legal element header repeated without contents (1 713 and 6 000 octets)',
'C02-8':'detected by the generic Trace-level re-run, which had been added after C05-8 and C06-8 of this wave were missed',
'C04-8':'missed at first (every decode used a fresh body). C04 now calls Decode<Msg> a second time on the same body value with another well-formed string and judges the mandatory elements and the elements the second string carries',
'C05-8':'missed at first. C05 has a Trace-level unit (short inputs in exact-capacity slices, grid slices); core re-runs every eighth enrolled case with the logger at Trace level (with-trace-logging)',
'C06-7':'missed at first (1.3e-9 per clock). The reference now constructs parameters whose first-round feedback is 0..8, p-1 or p-2 (FeedbackParams), the residues next to the wrap of the modular adder',
'C06-8':'missed at first. core re-runs every eighth enrolled case with the library logger at Trace level; a case that passed normally and fails then is reported as with-trace-logging:<signature>',
'C07-7':'missed at first (a few hundred distinct keys per process). many-keys histories: key A, 300 / 1 100 / 3 000 (thorough 70 000) other keys, A again, a sample of the earlier keys again',
'C07-8':'not observable on amd64. Every check except C19 now also runs on a GOARCH=386 build (quick tier); the demonstration is run with GOARCH=386 as its README says',
'C08-8':'missed at first (C08 had no concurrent probe; C06\'s probe used distinct keys). C08 runs the concurrent probe with one and two keys for eight workers',
'C09-8':'missed at first. The value slice passed to a slice-typed setter is overwritten after the call, before the element is read',
'C10-8':'missed at first (prefills of 0..64 octets). Encodes behind 65 530..65 541 and 131 070..131 074 octets already in the buffer',
'C11-8':'missed at first (one Count object per history). New histories on two Count values with value assignment between them, all views of both read after every step',
'C12-8':'missed at first. Eight (thorough sixteen) cold processes, each releasing 128 goroutines from a spinning barrier into the getters; Fresh shards now run alone after the others. Detected in roughly 85-95 % of runs (2 of 3 at VERIF_SEED 1-3 with six processes): the window is a few microseconds once per process',
'C14-8':'missed at first (single bytes only). Text inputs of exact byte length built from letters whose case mapping changes the encoded length, repeated to the length',
'C15-8':'missed at first (every rule had its own list). One rule in five shares the previous rule\'s filter list (the same slice) in the model and in the library value',
'C16-7':'missed at first (4-octet IPv4 and random 16-octet addresses only). 16-octet forms of IPv4 addresses for the IPv4 helpers, IPv4-mapped addresses for the IPv6 helper, and a parse of the helper-built list',
'C16-8':'missed at first. ownedTwice: call, copy, overwrite the returned slice, call again with the same arguments, compare — for PSIToBuf over all 65 536 bitmaps and for the other slice-returning encoders of C13/C15/C16',
'C17-8':'missed at first (%d renderings only). Zero-padded numeric parts (%05d … %07d)',
'C18-7':'missed at first. delivery-reuse histories: commands with and without classmark, complete and reject decoded into one UePolDeliverySer value and compared with fresh decodes',
'C18-8':'missed at first (only the list level was marshalled directly). marshalEverywhere calls MarshalBinary on every node of the built list, with ownedTwice and Ctx.Hold',
'C19-8':'missed at first (the concurrent workload never wrote into what it was given). Every kind now overwrites the slices the library returned to it after taking their digest; new kind mac0',
'C20-7':'missed at first (pointer use only). Every second random history holds the allocator by value',
'C20-8':'missed at first (ranges below 164). Ranges at 65 533, 65 535, 65 536, 2^31, 2^32, 2^62',
}
for k,(what,needs) in S.items():
    d='/verif/seeded/'+k
    if not os.path.isdir(d): print('missing',k); continue
    m=json.load(open(d+'/meta.json'))
    m['change']=what; m['needs_to_manifest']=needs; m['wave']=4
    if k in H: m['history']=H[k]; m.pop('first_pass',None)
    elif k in FIRST:
        m.pop('history',None); m['first_pass']='detected by the checks as they stood after the third wave'
    json.dump(m,open(d+'/meta.json','w'),indent=1)
