#!/usr/bin/env python3
"""record_fixed.py <findings/file.json> <commit> <what>  — append a 'fixed' entry to KNOWN_FINDINGS.json (authoring time only)."""
import json, sys, os
f, commit, what = sys.argv[1], sys.argv[2], sys.argv[3]
v = json.load(open(f))
kf = json.load(open('/verif/KNOWN_FINDINGS.json'))
for e in kf['findings']:
    if (e['property'], e['oracle'], e['target'], e['signature']) == (v['property'], v['oracle'], v['target'], v['signature']):
        print('already recorded'); sys.exit(0)
kf['findings'].append({"status": "fixed", "property": v['property'], "oracle": v['oracle'], "target": v['target'], "signature": v['signature'], "commit": commit,
                       "what": "fixed: property=%s %s; witness findings/%s" % (v['property'], what, os.path.basename(f))})
json.dump(kf, open('/verif/KNOWN_FINDINGS.json', 'w'), indent=1)
print('recorded', v['signature'])
