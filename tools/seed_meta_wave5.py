#!/usr/bin/env python3
"""Authoring-time: (re)writes the change / needs_to_manifest / history fields of the fifth-wave seeds
(same instructions as the fourth wave, with eight earlier changes per property listed as taken)."""
import json,os
S={
'C01-9':('PayloadContainer.SetLen rounds the capacity up to a power of two in uint16','declared payload container length exactly 0x8000 (make with cap 0)'),
'C01-10':('PDUSessionEstablishmentRequest decoder checks IPCP containers in the EPCO without a minimum length','EPCO whose last container has identifier 0x8021 and length 0..3 and ends exactly at the end of the IE'),
'C02-9':('family decoders allocate GmmMessage/GsmMessage only when the pointer is nil','one Message reused for two decodes of the same family with different types; or a shallow copy of the Message'),
'C02-10':('DLNASTransport encoder emits the PDU session ID element from the payload when it is absent','element 0x12 absent, payload container type 1, payload starting with a 5GSM header with PDU session identity 1..15'),
'C03-9':('ULNASTransport decoder moves the mapped SST of a 2-octet S-NSSAI to Octet[4]','S-NSSAI element of length exactly 2 with a non-zero mapped SST'),
'C03-10':('family decoders reset an existing GmmMessage/GsmMessage in place','second decode of the same family into one Message while the caller still holds the first result (value copy or exported pointer), which is then encoded'),
'C04-9':('PDUSessionEstablishmentReject optional loop runs while buffer.Len() > 1','the one-octet allowed-SSC-mode element last; or the input cut right after a TLV identifier'),
'C04-10':('early return when uint16(remaining) == 0 before the optional scan (two messages)','optional part of exactly 65536 octets (EPCO of 65533; cause + EPCO of 65531; 32768 cause elements)'),
'C05-9':('GsmMessageEncode infers "unknown type" from buffer.Len() == 0','unassigned 5GSM type encoded with GsmMessageEncode into a buffer that already holds data'),
'C05-10':('PlainNasDecode rejects what looks like a security protected PDU (octet 1 in 1..4 and 7e 00 4x at offset 7)','plain 5GMM message with octet 1 in 1..4 whose contents hold 7e 00 4x at offsets 7..9'),
'C06-9':('SNOW 3G LFSR clocking merged; the FSM feedback is skipped on the fast path where both alpha inputs are zero','an initialisation clock with the top byte of s0 and the low byte of s11 both zero (about 1 in 2000 keys)'),
'C06-10':('NEA1 pads the last partial word with append on a sub-slice of the caller\'s buffer','NEA1, length not a multiple of 32 bits, payload a prefix of a larger buffer: three octets behind it are zeroed'),
'C07-9':('shared parameter check tests len(payload) == 0 instead of nil','NASMacCalculate with algorithm 1..3 and an empty non-nil message'),
'C07-10':('NIA2 returns 4 octets of a sync.Pool buffer','hold a MAC across a later NIA2 call, or build the PDU with append(mac, msg...) and recompute'),
'C08-9':('NASMacCalculate answers NIA0 before validating bearer, direction and nil message','algorithm 0 with bearer > 31, direction > 1 or a nil message'),
'C08-10':('scratch blocks shared between NIA2 and the NEA2 path of NASEncrypt; counter block octets 8..15 not cleared','a NIA2 computation earlier in the process, then NASEncrypt with algorithm 2'),
'C09-9':('AllowedSSCMode SSC1 and SSC3 accessor pairs swapped','SSC1 != SSC3, judged against the documented bit positions'),
'C09-10':('EAPMessage.SetLen re-slices and zeroes the existing storage when it is large enough','a value copy of the element (or another holder of the old Buffer) taken before SetLen + SetEAPMessage'),
'C10-9':('ConfigurationUpdateCommand decoder supplies a missing time zone octet with buffer.WriteByte','0x46 present, 0x47 last and one octet short, input slice without spare capacity, at least 14 octets'),
'C10-10':('LADNInformation.GetLen stores len(Buffer) into Len (same value for well-formed messages)','two goroutines encoding one shared message: a write of an unchanged value, visible to the race detector only'),
'C11-9':('AddOne as an octet-wise ripple carry that stops after 16 bits','AddOne from a state whose low 16 bits are 0xffff'),
'C11-10':('setters build the value in a package-level scratch array','two goroutines calling setters on their own private Counts at the same time'),
'C12-9':('TMSI5GS.SetAMFSetID keeps only five bits of the octet that also holds the AMF pointer','AMF pointer >= 32 written before the AMF set ID'),
'C12-10':('SuciToStringWithError swaps the MSIN nibbles in the caller\'s buffer and swaps them back','two goroutines converting the same backing array at the same time'),
'C13-9':('PlmnIDToNas parses MCC/MNC as integers; three-digit MNC detected by value','three-digit MNC with a leading zero'),
'C13-10':('PartialServiceAreaListToNas flattens the areas by appending onto Areas[0].Tacs','areas whose Tacs are windows into one pool with spare capacity, out of order or with gaps'),
'C14-9':('AmfIdToNasWithError decodes into a fixed [3]byte with hex.Decode','text beginning with at least 8 hex digits'),
'C14-10':('PLMN derived from a 3GPP NAI realm assuming .mnc precedes .mcc','NAI whose realm ends in .3gppnetwork.org with .mcc before .mnc'),
'C15-9':('flow description parser reuses one QoSFlowDesc; Parameters only assigned when the count is non-zero','a description without parameters after one with parameters'),
'C15-10':('component parser bounds a truncated value by cap(b) instead of len(b)','filter length ending inside the last component\'s value, remainder parsable; result depends on spare capacity'),
'C16-9':('error cause encoder guard n == 0 || n > len(errCause)','cause list longer than a non-empty identity list'),
'C16-10':('PCO UnMarshal cuts unit contents out of one private copy with two-index slices','append of 4+ octets to the contents of a parsed unit that is not the last'),
'C17-9':('GPRSTimer2ToNas rounds to the nearest decihour','durations of 32..186 minutes whose minute count modulo 6 is 3, 4 or 5'),
'C17-10':('time stamp decoder builds the instant with time.Unix and converts only when the offset is non-zero','encoded zone UTC and a process whose local zone is not UTC'),
'C18-9':('SetUEPolicySectionManagementListContent copies into the existing buffer without re-slicing','the same list element filled a second time with shorter content'),
'C18-10':('policy part contents cut out of one private copy with two-index slices','append of 4+ octets to the contents of a decoded part that is not the last of its instruction'),
'C19-9':('SNOW 3G remembers the last initialised state; key/IV and state published in two separate atomic values','two goroutines initialising with different key/IV, one of them repeating its parameters straight afterwards'),
'C19-10':('logger.init calls SetNoLock','two goroutines in calls that log while the application installed an output that is not goroutine-safe'),
'C20-9':('Allocate_inRange breaks out at offset == max and hands that slot out unchecked','the whole window live'),
'C20-10':('Allocate short-cuts with len(usedMap) == int(valueRange)','32-bit build, width 2^32*q + r, exactly r identifiers live, scan offset on a live slot'),
}
FIRST=['C01-9','C03-9','C04-9','C04-10','C06-9','C06-10','C07-9','C07-10','C08-9','C08-10','C09-9','C11-9','C13-9','C14-9','C15-9','C17-9','C20-9']
H={
'C01-10':'missed at first (PCO tails were random). Every known container identifier with lengths 0..5 as the LAST unit of the options',
'C02-9':'missed at first (C02 used a fresh Message per round trip). C02 now runs the receiver-reuse histories too; they keep a value copy of the Message and the exported family pointers',
'C02-10':'missed at first (6e-9 per random transport). Consistent transports in the corpus: payload container type "N1 SM information" with a nested 5GSM message carrying a PDU session identity 1..15, alone and among all other optional elements',
'C03-10':'missed at first (the histories kept the body pointers only). They now keep a value copy of the Message and rx.GmmMessage / rx.GsmMessage as well',
'C05-9':'missed at first (unknown types were encoded into empty buffers). All 2x(256-assigned) unknown types are also encoded behind seven octets already in the buffer',
'C05-10':'missed at first (octet 2 of 5GMM test messages was always 0; nested messages started at the first content octet). Nested messages behind 1..3 leading octets; every canonical corpus PDU with security header type nibble 0..4 must be accepted',
'C09-10':'missed at first. SetLen of a Buffer-backed element must hand out storage outside the memory of the Buffer it replaces (address ranges)',
'C10-9':'missed at first (inputs always had 16 octets of spare capacity; truncation of the last element was random). Half of the inputs sit in slices of exactly their length; corpus kind last-element-short (every optional element last and 1..2 octets short behind all the others)',
'C10-10':'missed at first and not detectable by the functional oracles of C10 (the write stores the value that is already there). Since the sixth wave the race side run of C10 (shared-encode cold units: goroutines encoding one shared message) reports it as data-race: LADNInformation.GetLen <-> GetLen',
'C11-10':'missed at first (C11 was sequential). concurrent-private: eight workers, a Count and a model each, 2 000 000 steps; plus a cold-concurrent unit',
'C12-9':'missed at first (C12 read the accessors only). 5G-S-TMSI and 5G-GUTI are also built through the setters in all six orders, from zeroed and from all-ones fields',
'C12-10':'missed at first. shared-input: eight workers converting the same wire octets (GUTI, SUCI, PEI, PLMN, and the getter of an element holding the same slice)',
'C13-10':'missed at first (every area had a slice of its own). In every second case the areas are windows into one pool, out of order and with gaps; the pool must be unchanged',
'C14-10':'missed at first. vgen groups the string and character literals per function; every arrangement of a group\'s tokens (with and without digits in between) is fed to every helper, behind each identity type octet for the byte-typed ones',
'C15-10':'missed at first. capacityIndependent: the same octets parsed from an exact-capacity slice and from the prefix of a larger array must give the same result',
'C16-9':'missed at first (only "one cause short" was tried). Five more ways for the two lists to disagree in length',
'C16-10':'missed at first. appendProbe: append to every byte slice of the parsed value that has spare capacity; nothing else reachable may change',
'C17-10':'missed at first (the sandbox runs in UTC). Unit process-local-zone sets time.Local to +08:00, -03:30 and Europe/Berlin around the time stamp oracle',
'C18-9':'missed at first (every element was filled once). In a quarter of the cases the list element holds longer content first (optionally ending like a classmark)',
'C18-10':'missed at first. appendProbe on the decoded list and on the three decoders\' results',
'C19-9':'missed at first (every item made one call per parameter tuple). Cipher and MAC items repeat the call with the same parameters straight away; long storms (32 goroutines x 200 light items per keyed kind; thorough 2 000) raise the number of overlapping initialisations — with them it is detected at VERIF_SEED 1-4, with 50 items in one run of four',
'C19-10':'missed at first (log output was io.Discard). The rounds install a log sink that is not safe for concurrent use through the logger\'s own SetOutput',
'C20-10':'missed at first (ranges narrower than 2^32). Widths 2^32-1 .. 2^40+3 with all operations inside a window of ten identifiers, also on the 386 run',
}
for k,(what,needs) in S.items():
    d='/verif/seeded/'+k
    if not os.path.isdir(d): print('missing',k); continue
    m=json.load(open(d+'/meta.json'))
    m['change']=what; m['needs_to_manifest']=needs; m['wave']=5
    if k in H: m['history']=H[k]; m.pop('first_pass',None)
    elif k in FIRST:
        m.pop('history',None); m['first_pass']='detected by the checks as they stood after the fourth wave'
    json.dump(m,open(d+'/meta.json','w'),indent=1)
