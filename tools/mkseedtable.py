#!/usr/bin/env python3
"""Regenerates the seeded-defect table of DESIGN.md (between the SEEDED-TABLE markers) from seeded/*/meta.json."""
import json,os,re
rows=[]
tot=det=0
for k in sorted(os.listdir('/verif/seeded'), key=lambda n:(n.split('-')[0], int(n.split('-')[1]) if n.split('-')[1].isdigit() else 0)):
    p='/verif/seeded/%s/meta.json'%k
    if not os.path.exists(p): continue
    m=json.load(open(p)); tot+=1
    run=m['check_runs'][-1]
    det+= 1 if m.get('detected') else 0
    sig=run['signatures'].split(';')[0] if run['signatures'] else '(not detected)'
    if len(sig)>64: sig=sig[:64]+'…'
    note=' †' if 'history' in m else ''
    if not m.get('detected'): note=' ✗'
    rows.append('| %s%s | %s | %s | `%s` |'%(k,note,m.get('change','?'),m.get('needs_to_manifest','?'),sig))
table='<!-- SEEDED-TABLE-BEGIN -->\n%d seeded defects, %d detected by the quick tier of their property\'s check († = missed or flaky on the first pass; the check was strengthened, see `history` in the seed\'s meta.json; ✗ = not detected by its property\'s check).\n\n| seed | change | needs, to manifest | first signature reported |\n|---|---|---|---|\n'%(tot,det)+'\n'.join(rows)+'\n<!-- SEEDED-TABLE-END -->'
d=open('/verif/DESIGN.md').read()
if 'SEEDED-TABLE-BEGIN' in d:
    d=re.sub(r'<!-- SEEDED-TABLE-BEGIN -->.*<!-- SEEDED-TABLE-END -->',lambda m:table,d,flags=re.S)
else:
    i=d.index('| seed | change | needs, to manifest |')
    d=d[:i]+table+'\n'
open('/verif/DESIGN.md','w').write(d)
print(tot,det)
