#!/usr/bin/env python3
"""Authoring-time: (re)writes the change / needs_to_manifest / history fields of the ninth (mini) wave:
eight agents, one change each ("hardest for a campaign that caught the sixteen earlier ones")."""
import json,os
S={
'C02-17':('PlainNasEncode keeps a one-slot memo of the last plain encoding of seven 5GMM types, keyed by the *GmmMessage pointer and the header','encode, edit the body in place (not the header), encode the same Message again through PlainNasEncode'),
'C03-17':('GmmMessageDecode keeps the GmmMessage of a rejected PDU in a package-level spare taken with Load then Store(nil)','a rejected 5GMM PDU, then two goroutines entering GmmMessageDecode within the same few nanoseconds'),
'C05-17':('nas.Message gets an unexported scratch buffer that PlainNasEncode resets and fills','concurrent PlainNasEncode on one shared Message, or a by-value copy made after an encode'),
'C09-17':('MaximumNumberOfSupportedPacketFilters caches its 10-bit value in an unexported field','a Get or Set, then the exported Octet written directly (as the decoders do), then a Get'),
'C13-17':('LadnToModels returns DNN strings that are unsafe views of the input buffer','the input buffer reused after the call while the result is kept'),
'C15-17':('PacketFilterComponentList.UnmarshalBinary gets a one-entry parse cache whose key and value are published by two separate atomic stores','two goroutines parsing different filter contents at once, then one of them parsed again'),
'C16-17':('UnMarshal error returns go through a counter incremented with a 64-bit atomic on a misaligned field','32-bit build and an input that makes UnMarshal fail: panic'),
'C18-17':('UEPolicySectionContents.UnmarshalBinary refuses more than 1024 policy parts','one instruction holding more than 1024 policy parts (about 5 KiB)'),
}
FIRST=['C03-17','C05-17','C09-17','C15-17','C16-17']
H={
'C02-17':'missed at first (every re-encode was of an unchanged value, or of a fresh object). After the third encode the body is now edited in place — last octet of every byte slice and uint8 array flipped, no pointer replaced — and PlainNasEncode on the edited object must give the bytes and the error of a fresh deep copy of it (encode-after-edit-stale)',
'C13-17':'missed at first (the result was compared before the input was touched). The receive buffer is overwritten once LadnToModels has returned, as C04 and C18 already did for their decoders',
'C18-17':'missed at first (large lists were large in octets, built from four parts). Unit command-counts: 255..12000 policy parts in one instruction, 255..9000 instructions in one sublist, 255..9000 sublists, with walks across 2^8, 2^10, 2^12, all under the 16-bit length fields',
}
if __name__=='__main__':
    for k,(what,needs) in S.items():
        d='/verif/seeded/'+k
        if not os.path.isdir(d): print('missing',k); continue
        m=json.load(open(d+'/meta.json'))
        m['change']=what; m['needs_to_manifest']=needs; m['wave']=9
        if k in H: m['history']=H[k]; m.pop('first_pass',None)
        elif k in FIRST:
            m.pop('history',None); m['first_pass']='detected by the checks as they stood after the eighth wave'
        json.dump(m,open(d+'/meta.json','w'),indent=1)
