#!/usr/bin/env python3
"""Authoring-time: (re)writes the change / needs_to_manifest / history fields of the seventh-wave seeds
(adversarial instructions, twelve earlier changes per property listed as taken)."""
import json,os
S={
'C11-13':('Count.Set skips the writes when (overflow difference) + (sqn difference) == 0 in uint16','Set(o,s) on a state whose XOR differences add up to exactly 0x10000, e.g. Set(0xffff,0x01) on the zero value'),
'C11-14':('SQN() and Overflow() derived from Get(), which stores the masked value','two goroutines only reading SQN()/Overflow() of one quiescent Count: a store of an unchanged value, visible to the race detector only'),
'C01-13':('PDUSessionStatus.SetLen carves its buffer from an unsynchronised package-level chunk','two goroutines decoding messages with element 0x50 at the same time: slice bounds panic / mixed octets'),
'C01-14':('EAPMessage.SetLen reslices in place when the new length is not larger than Len; the accept decoder allocates the element only when nil','PDUSessionEstablishmentAccept with element 0x78 twice, the later strictly longer: slice bounds panic'),
'C02-13':('ServiceAccept decoder rejects an odd length of the reactivation result error cause','element 0x72 with odd content length 3..511'),
'C02-14':('RegistrationRequest encoder writes long elements through a helper that rejects nil contents','LADN indication present with length 0 and a nil Buffer'),
'C08-13':('ZUC keystreams of more than 256 words are written into one package-level buffer','algorithm 3, payload above 1024 octets, two such calls overlapping in different goroutines'),
'C08-14':('shared xorKeyStream steps to a 4-octet address boundary and then indexes the keystream by i>>2','algorithm 1 or 3, at least 16 octets, payload starting at an address that is not a multiple of 4'),
'C03-13':('RegistrationRequest encoder rejects a UE security capability of length 3 that the decoder accepts','element 0x2e present with content length exactly 3'),
'C03-14':('PlainNasEncode clears the low nibble of output octet 2 when the Message has a security header type recorded','Message.SecurityHeaderType 1..4 set by the caller, 5GMM message whose octet 2 has a non-zero low nibble'),
'C04-13':('ServiceRequest decoder returns after the NAS message container','container present and not the last optional element'),
'C04-14':('DLNASTransport decoder uses the caller\'s input as the payload container when it is longer than 1024 octets','container > 1024 octets and a write to the input after the decode'),
'C05-13':('NewDeregistrationAcceptUETerminatedDeregistration returns one package-level value','two decodes of type 0x48 with different octet 2, the first result looked at again afterwards'),
'C05-14':('PlainNasDecode counts rejected inputs with a misaligned 64-bit atomic','32-bit build and a first octet that is neither 0x7e nor 0x2e: panic'),
'C06-13':('ZUC S-boxes combined into a 65536-entry table whose fill loop stops before 0xffff','an S-box input with an upper or lower half of 0xffff (about one NEA3 call in 400)'),
'C06-14':('NEA2/NEA3 counter block header built through int','32-bit build, bearer 16..31, COUNT other than 0xffffffff'),
'C07-13':('ZUC shift register as a sliding window whose wrap copy is off by one','NIA3 over 1913 octets or more (keystream word 480 onwards)'),
'C07-14':('SNOW 3G remembers its last keystream and hands out the remembered slice; NEA1 trims it in place','same key, COUNT, bearer, direction 0: NEA1 over 17..19 octets directly followed by NIA1'),
'C09-13':('SetExtendedProtocolConfigurationOptionsContents resizes Buffer to its argument','argument length different from len(Buffer)'),
'C09-14':('GetNASMessageContainerContents returns a sync.Pool buffer it has already put back','a getter result kept across a second call of the same getter'),
'C10-13':('PDUSessionAuthenticationCommand decoder bounds a truncated ePCO by cap instead of len','truncated ePCO in a slice with spare capacity: same octets, different results'),
'C10-14':('AuthenticationRequest decoder pools its reader and releases it twice on the bad-AUTN path','a rejected AuthenticationRequest with AUTN length != 16, then concurrent decodes of valid ones'),
'C12-13':('GetAmfRegionID renders the octet without zero padding','5G-GUTI with AMF region ID below 0x10'),
'C12-14':('GutiToNasWithError memoises the last conversion before examining the TMSI decode error','the same text with a non-hex TMSI converted twice in a row'),
'C13-13':('LadnToModels compares the DNN length with the remaining length modulo 256','LADN contents longer than 256 octets'),
'C13-14':('PartialServiceAreaListToNas cuts the TAC list to MaxNumOfTAs / MaxNumOfTAsForNotAllowedAreas','the member belonging to the restriction type set, positive and below the number of TACs'),
'C14-13':('Get5GTMSI slices Buffer[7:11] behind the guard len < 7','identity typed 5G-GUTI with 7..10 octets of contents'),
'C14-14':('GetDNN text cache indexed by int(fnv32a) % 64','32-bit build and contents whose hash is 0x80000000 or above: negative index'),
'C15-13':('QoSRules.UnmarshalBinary reads no filters for operations 2 and 6','rule operation 2 or 6 with a non-zero filter count'),
'C15-14':('all parameters of one IE parsed into one shared array, handed out without a capacity bound','append to the parameters of a non-last parsed description'),
'C16-13':('AddIPv4LinkMTU refreshes an existing 0x0010 unit and leaves LengthOfContents','UnMarshal of a request with an empty 0x0010 unit, AddIPv4LinkMTU on the same object, Marshal'),
'C16-14':('UnMarshal reuses the unit behind the list length and keeps its Contents for zero-length units','list emptied by re-slicing to [:0] between two UnMarshal calls, a zero-length unit where one with contents was'),
'C17-13':('toBinaryCodedDecimal tens digit as (val*26)>>8','69, 79, 89, 99: years 2069..2099 and zones of 69 / 79 quarter hours'),
'C17-14':('network name elements cached per name in a sync.Map, Buffer shared','convert a name, edit the returned element, convert the same name again'),
'C18-13':('parseResult reads into a package-level [5]byte','two goroutines decoding section-management results at once'),
'C18-14':('SubResult.SetPlmnDigit returns early when the recorded MCC/MNC equal the arguments','decode an MNC 0xx coded with three digits, SetPlmnDigit with the integers GetPlmnDigit reports, encode'),
'C19-13':('bad-digit warnings of PlmnIDToNas throttled through an unsynchronised package-level counter','PLMN with a non-decimal character converted by two goroutines at once'),
'C19-14':('PeiToStringWithError swaps nibbles in the caller\'s buffer and swaps them back','one IMEI/IMEISV buffer read by two goroutines'),
'C20-13':('NewGenerator raises minValue to 0 when the range straddles zero','negative lower bound with non-negative upper bound'),
'C20-14':('valueRange computed through float64','max-min above 2^53 and not representable, scan offset carried to the last slot'),
}
FIRST=['C13-13', 'C09-13', 'C17-13', 'C17-14', 'C05-13', 'C05-14', 'C06-13', 'C06-14', 'C07-13', 'C15-13', 'C12-13', 'C12-14', 'C10-13', 'C03-13', 'C14-13', 'C14-14', 'C04-13', 'C01-13', 'C01-14', 'C02-13', 'C08-13', 'C11-13']
H={'C02-14': 'missed at first (built messages were in decoder normal form). Every round-trip case with an empty element is also encoded with nil contents; both forms must give the same bytes', 'C03-14': 'missed at first (fresh Message per case, octet 2 nibble always 0). A quarter of the fixed-point cases use a Message in which the caller recorded a security header; half of those 5GMM inputs carry a nibble of their own', 'C04-14': 'missed at first (the input copy was never touched after the decode). The receive buffer is overwritten as soon as the decoder has returned, before the fields are compared', 'C07-14': 'missed at first (C07 made MAC calls only). mixed-series: ciphering and integrity calls of all six algorithms with one key and one (COUNT, BEARER, DIRECTION), short lengths, each compared with the reference', 'C08-14': 'missed at first (all payloads started at aligned addresses). The laws oracle repeats the ciphering at offsets 1..7 of a larger array (and the MAC at two of them): same octets, same result', 'C09-14': 'missed at first. The slice a byte-string getter returned is held across the getter calls on the following states of the element; ownedTwice now also watches the first result after the second call', 'C10-14': 'missed at first (the concurrent decode probe used valid inputs only). Every worker also decodes up to eight rejected variants of its input (one octet off by one), before the workers start and every 16th time round', 'C11-14': 'missed at first (no two goroutines shared a Count). concurrent-readers: eight goroutines read SQN/Overflow of one quiescent Count; the store is reported by the race side run (data-race: Get <-> maskTo24Bits)', 'C13-14': 'missed at first (only the named members of the input structure were set). fillUnmodelled gives the members the reference does not use (MaxNumOfTAs, MaxNumOfTAsForNotAllowedAreas, AreaCode) non-zero values in half of the cases', 'C15-14': 'missed at first (appendProbe looked at byte strings only). appendProbeLists appends one element to every non-byte slice with spare capacity inside the parsed value; nothing else may change', 'C16-13': 'missed at first (helpers were only called on fresh objects). The helpers are also called on an object that first parsed a request list (mostly empty units with the helper identifiers)', 'C16-14': 'missed at first. ... and on a recycled object whose list was cut back to length 0 after an earlier parse', 'C18-13': 'missed at first (the concurrent workload had no reject path). Kind uepolicy-result in C19 and in the cold units of C18; reported as result mismatch and as data race', 'C18-14': 'missed at first (setters were only called on fresh elements). SetPlmnDigit is also called on elements that hold another PLMN, or the same integers next to the three-digit coding a decoder leaves', 'C19-13': 'missed at first (the concurrent workload used well-formed arguments). Kind bad-input: malformed PLMNs, texts, octet strings, parameters and truncated messages, each goroutine its own', 'C19-14': 'missed at first (IMEI/IMEISV were not among the shared inputs). Two PEI wires in the shared-parse kind, also read through an element that holds the shared octets', 'C20-13': 'missed at first (all lower bounds were non-negative). Negative lower bounds and ranges straddling zero', 'C20-14': 'missed at first (widest range 2^40+3). Widths 2^53+1 .. 2^62+3 with windows at the top of the range; this workload also exposed genuine defect 21 (negative start)'}
if __name__=='__main__':
    for k,(what,needs) in S.items():
        d='/verif/seeded/'+k
        if not os.path.isdir(d): print('missing',k); continue
        m=json.load(open(d+'/meta.json'))
        m['change']=what; m['needs_to_manifest']=needs; m['wave']=7
        if k in H: m['history']=H[k]; m.pop('first_pass',None)
        elif k in FIRST:
            m.pop('history',None); m['first_pass']='detected by the checks as they stood after the sixth wave'
        json.dump(m,open(d+'/meta.json','w'),indent=1)
    # patches rebased by hand after a later fix commit touched the same lines
    REBASED={'C20-6':"patch.diff is the sub-agent's change rebased by hand onto /repo after fix commit 9a7fb69 (which added the fold of a negative remainder to setOffset): the body of setOffset is replaced by the sub-agent's one-liner; the original diff against the earlier tree is patch.orig.diff; the demonstration is unchanged and was re-confirmed"}
    for k,t in REBASED.items():
        f='/verif/seeded/'+k+'/meta.json'
        m=json.load(open(f)); m['rebased']=t; json.dump(m,open(f,'w'),indent=1)
