#!/usr/bin/env python3
"""Authoring-time: (re)writes the change / needs_to_manifest / history fields of the sixth-wave seeds
(adversarial instructions, ten earlier changes per property listed as taken)."""
import json,os
S={
'C01-11':('AuthenticationResponse decoder walks the EAP-AKA attribute list and does not advance on a length octet of 0','EAP code 1/2, method 23 or 50, EAP length equal to the element length, an attribute whose length octet is 0: the decoder never returns'),
'C01-12':('PDUSessionReleaseRequest decoder counts unknown identifiers into a map that is only created at trace verbosity','library logger at debug level exactly (not trace, not info) and an unknown optional identifier in that message: nil map write'),
'C02-11':('ULNASTransport decoder moves the second octet of a 2-octet S-NSSAI to Octet[4]','S-NSSAI element of length exactly 2 with a non-zero second octet'),
'C02-12':('AuthenticationRequest decoder hands out one shared slice for the ABBA value 0000','decode ABBA 0000, change the decoded contents in place, then round-trip another message with ABBA 0000'),
'C03-11':('RegistrationAccept encoder clears the value bits of a deactivated T3512','T3512 octet 0xe1..0xff'),
'C03-12':('trace dump in the DLNASTransport encoder reads from (and so consumes) the output buffer','logger at trace level and message type DL NAS TRANSPORT'),
'C04-11':('dispatch layer rejects a non-zero upper nibble of header octet 2 for both families','5GSM PDU session identity 16..255 through Plain/GsmMessageDecode (or a 5GMM spare half octet)'),
'C04-12':('5GSM capability element object kept across occurrences','the element twice in one PDUSessionEstablishmentRequest, the second shorter; or two decodes into one body value'),
'C05-11':('GmmMessageEncode encodes the SecurityProtected5GSNASMessage body whenever it is set and the header nibble is not 0','a message that still holds that body besides the one its header names, with security header type 1..4 in the header'),
'C05-12':('PlainNasDecode skips seven octets when the receiving Message has a security header type recorded that matches octet 2','receiver with SecurityHeaderType 1..4 set by its caller and an input that starts with the same nibble'),
'C06-11':('NASEncrypt bearer bound rewritten with a named limit and >=','bearer exactly 31 through NASEncrypt'),
'C06-12':('recycled ZUC state is put back twice after a zero-length request','a request for 0 keystream words, then two goroutines using ZUC at once while the duplicate is still pooled'),
'C07-11':('GF(2^64) helper of NIA1 keeps its table of multiples in package-level variables','two goroutines inside NIA1 with different parameters'),
'C07-12':('trace dump of the MAC input cuts the middle out of the caller\'s message in place','logger at trace level, NASMacCalculate, message longer than 32 octets'),
'C08-11':('table-driven dispatch in NASMacCalculate with the bound off by one','algorithm identity exactly 4: index out of range'),
'C08-12':('NEA1 works in place on whole words and writes back the octets behind the payload','payload length not a multiple of 4 inside a larger array whose following octets change during the call (another goroutine owns them)'),
'C09-11':('ABBA.GetABBAContents sizes its result from Len','Len different from len(Buffer) (fields set directly or Len set after the contents)'),
'C09-12':('PDUSessionStatus.SetSpare copies octet by octet, forwards','argument overlapping the element\'s own Buffer, starting at a lower address'),
'C10-11':('PlainNasDecode re-slices the caller\'s slice past a security header','5GMM input longer than 7 octets with octet 2 nibble 1..4 and 0x7e at offset 7'),
'C10-12':('PDUSessionEstablishmentAccept encoder appends the session AMBR to the message\'s QoS rules slice','AuthorizedQosRules.Buffer with spare capacity (a window into a larger array)'),
'C11-11':('SetOverflow adds a 16-bit modular distance, AddOne wraps by comparison','SetOverflow/Set to a numerically lower overflow, then AddOne, with no Get in between'),
'C11-12':('AddOne no longer masks; Get folds a single carry bit lazily','two wraps through 2^24 with no Get in between (2^24 + 1 increments unread)'),
'C12-11':('GetAmfSetID loses the lowest bit','odd AMF set ID'),
'C12-12':('GUTI text parsed with strconv at the platform word size','32-bit build and AMF ID other than 000000'),
'C13-11':('per-S-NSSAI helper of the NSSAI decoder lost its invalid-length case','S-NSSAI length octet 3, 6 or 7 with all announced octets present'),
'C13-12':('SD text table filled on first use by a goroutine nobody waits for','the first SD conversions of the process made by several goroutines at once'),
'C14-11':('IMEI check-digit diagnostic indexes a Luhn table with a non-decimal digit','IMEI of 8 octets, check digit non-zero, a nibble >= 10 in a doubled position'),
'C14-12':('trace dump of the ECIES scheme output slices without a length check','logger at trace level, IMSI SUCI with non-null scheme and fewer than 40 octets of scheme output'),
'C15-11':('delete-filters list shares the packet filter header helper (direction bits emitted)','rule operation 5 whose filters carry a non-zero Direction'),
'C15-12':('default averaging window not signalled for a new GBR flow description','create operation, standardised GBR 5QI and averaging window exactly 2000'),
'C16-11':('UnMarshal remembers the configuration-protocol bits and Marshal echoes them','UnMarshal of contents whose first octet has bits 3..1 set, then Marshal of the same object'),
'C16-12':('trace dump of container contents writes into the parsed contents','logger at trace level and a unit of more than 16 octets'),
'C17-11':('AMBR unit table built lazily without synchronisation','the first ModelsToSessionAMBR calls of the process overlapping in two goroutines'),
'C17-12':('GetTimeZone takes the sign before it removes the daylight-saving hour','tzdata zone in daylight saving time less than one hour east of UTC (Azores summer, Dublin winter, Casablanca)'),
'C18-11':('reject encoder patches the sub-result length through a slice taken before the buffer grew','encoded content crossing a capacity boundary (64, 128 ...) inside the results of a sub result'),
'C18-12':('SetPlmnDigit updates the recorded MCC/MNC in place','SetPlmnDigit, copy the sublist, SetPlmnDigit on one copy, read the other'),
'C19-11':('ULNASTransport decoder uses the caller\'s input octets as the payload container when it is the last element','receive loop that reuses one buffer while a worker reads the decoded message'),
'C19-12':('NIA1 step table filled by the first caller while later callers do not wait','the first NIA1 use of the process made by several goroutines at once'),
'C20-11':('the used-map is created by the first allocation','allocator copied by value before its first allocation, both copies used'),
'C20-12':('Allocate gives up after 65536 occupied slots','range of at least 65538, 65537 live identifiers in one run with the scan offset at its start'),
}
FIRST=['C16-12','C09-11','C17-12','C13-11','C14-11','C14-12','C06-11','C02-11','C04-11','C04-12','C03-11','C03-12','C07-11','C07-12','C11-11','C15-11','C08-11','C12-11','C12-12','C18-11']
H={
'C01-11':'missed at first (EAP contents were random behind the header). Corpus kind eap-attributes: EAP-AKA / AKA\' / SIM packets with well-formed, zero-length, overlong and truncated attributes',
'C01-12':'missed at first (units ran at info or trace). The generic re-run now rotates through trace, debug and the quieter levels',
'C02-12':'missed at first. Scribble probe: every field of a decoded message is overwritten before the next round trip of the same input',
'C05-11':'missed at first (one body per message). encode-extra: every named body with one more body set (always including the security-protected container) and every security header type nibble',
'C05-12':'missed at first (fresh receivers only). Security-wrapped corpus messages decoded into receivers whose SecurityHeader was filled in by the caller',
'C06-12':'missed at first. The concurrent units now contain empty jobs (0 octets / 0 bits) before and between the others',
'C08-12':'missed at first. concurrent-neighbours: pairs of goroutines own adjacent windows of one array; detected by the owner\'s read-back and, in the race side run, as a data race with security.xorKeyStream',
'C09-12':'missed at first. Overlapping-argument probe: setters are called with windows of the element\'s own Buffer at lower and higher addresses and compared with a call on a private copy of the argument',
'C10-11':'missed at first (octet 2 of 5GMM inputs was 0). Domain messages with nibbles 1..4 and behind a complete security header; the slice header check was already there',
'C10-12':'missed at first (message fields had exact capacity). rehouse: half of the encode-pure messages have all octet strings in windows of one array with guards behind each',
'C11-12':'missed at first (longest unread run 2^20). blind-wraps: 1..4 x 2^24 + extra increments unread (thorough: 256 and 257 wraps)',
'C13-12':'missed at first (every unit warmed the converters sequentially). cold-entries in a fresh process: the very first calls of each entry point are made by 16 goroutines at once; also reported by the race side run',
'C15-12':'missed at first (parameter values were random octets). vgen lists the integer literals per source file; QoS parameter values are drawn from those of the QoS sources, 0, 1 and the maximum',
'C16-11':'missed at first. Marshal after parse: the parsed object is marshalled and compared with the reference rendering of the parsed list',
'C17-11':'missed at first. Reported by the race side run (cold-start units under the race detector) and sampled by cold-entries',
'C18-12':'missed at first. Sublists built from a template value that is copied between SetPlmnDigit calls; both copies are compared with the model',
'C19-11':'missed at first. Kind rx-handoff: a receive loop decoding from one reused buffer while workers encode and fingerprint the messages handed to them',
'C19-12':'missed at first (sequential reference run came first). Cold units under the race detector: the goroutines start before any sequential use; seven groups x 32 workers',
'C20-11':'missed at first. two-holders: a value copy taken before the first allocation, both holders allocate and release; no identifier may be live twice',
'C20-12':'missed at first (fills stopped at 65536). big-fill: runs of 65537..70000 live identifiers with the scan offset at the start of the run',
}
for k,(what,needs) in S.items():
    d='/verif/seeded/'+k
    if not os.path.isdir(d): print('missing',k); continue
    m=json.load(open(d+'/meta.json'))
    m['change']=what; m['needs_to_manifest']=needs; m['wave']=6
    if k in H: m['history']=H[k]; m.pop('first_pass',None)
    elif k in FIRST:
        m.pop('history',None); m['first_pass']='detected by the checks as they stood after the fifth wave'
    json.dump(m,open(d+'/meta.json','w'),indent=1)
