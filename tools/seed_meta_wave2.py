#!/usr/bin/env python3
"""Authoring-time: (re)writes the change / needs_to_manifest / history fields of the second-wave seeds."""
import json,os
S={
'C01-3':('PDUSessionModificationRequest decoder: the length error of IE 0x79 formats a field of the optional pointer RequestedQosRules','IE 0x79 with declared length 0..2 and no IE 0x7A before it -> nil dereference on the error path'),
'C01-4':('SecurityModeCommand decoder: UnreadByte for identifiers >= 0x80, default branch not adapted','an unknown type-1 identifier octet (0x80..0xDF, 0xF0..0xFF) after the mandatory part -> endless loop without allocation'),
'C02-3':('ULNASTransport encoder emits the old PDU session ID only if the PDU session ID is present too','old PDU session ID (0x59) present without PDU session ID (0x12): 16 of 64 presence subsets'),
'C02-4':('PlainNasDecode rejects inputs shorter than 4 octets','5GMM messages that encode to exactly 3 octets, through PlainNasDecode only'),
'C03-3':('ConfigurationUpdateCommand decoder stores the network slicing indication through typed setters with a missing shift','canonical message whose indication has DCNI != NSSCI or a spare bit set -> re-encoding differs'),
'C03-4':('PlainNasDecode returns nil when the family decoder fails with a wrapped io.EOF','input cut exactly on a field boundary after a TLV identifier -> accepted, re-encoding no longer decodes'),
'C04-3':('PDU address length check rewritten as (Len-5)%4 != 0 || Len > 13 on a uint8','declared length exactly 1 accepted'),
'C04-4':('RegistrationRequest decoder: hardening guard `buffer.Len() <= Len` before allocating the payload container','payload container as the last element of the message rejected as truncated'),
'C05-3':('family decoders keep an existing Gmm/GsmMessage container instead of replacing it','the same nas.Message value decoded into twice with different types of one family -> two bodies'),
'C05-4':('PlainNasDecode dispatch through a 0x80-entry table indexed with epd & 0x7f','first octet exactly 0xFE or 0xAE routed instead of rejected'),
'C06-3':('NEA2 block-wise keystream loop increments only the last counter octet','payload longer than 4096 octets (counter carry lost)'),
'C06-4':('NASEncrypt masks COUNT to 24 bits','COUNT >= 2^24 through NASEncrypt only; NEAx direct calls stay correct'),
'C07-3':('NIA3 keystream word count length/32 + 3 instead of ceil','message length an exact multiple of 32 bits (len % 4 == 0 through NASMacCalculate)'),
'C07-4':('NIA1 last-block copy loses its upper bound','direct NIA1 call with a buffer longer than the message and non-zero octets behind it within the last block'),
'C08-3':('NASMacCalculate returns a package-level slice for NIA0','NIA0, write into the returned MAC, NIA0 again -> non-zero MAC, shared backing array'),
'C08-4':('NASEncrypt computes the bit length in uint16','payload of 8192 octets or more with algorithm 1 or 3'),
'C09-3':('SetTextString clears spare bits according to two other fields of the element','coding scheme 0, spare-bit count > 0 set before, text whose last octet has a top bit set'),
'C09-4':('DNN.SetDNN assigns Len outside the success branch','element already holds a DNN, then SetDNN with an uncodable value -> Len 0 with the old buffer'),
'C10-3':('PlainNasEncode returns a slice of a sync.Pool buffer','encode A, keep the result, encode B -> A\'s bytes changed'),
'C10-4':('PDUSessionEstablishmentRequest decoder reads the mandatory part into a package-level scratch array','two goroutines decoding this message type with different first six octets at the same time'),
'C11-3':('SetSQN bumps the overflow part when the new SQN is more than 0x80 below the old one','SetSQN / Set with a new SQN at least 0x81 lower than the stored one'),
'C11-4':('maskTo24Bits on a value receiver (mask lost)','AddOne from 0xffffff then Get: 0x1000000, and the bit sticks through later Set calls'),
'C12-3':('AmfIdToNasWithError via len==6 + strconv.ParseInt(…,16,32)','6-character text starting with + or - accepted (also inside a GUTI)'),
'C12-4':('PlmnIDToString builds its temporary with append(nasBuf[:0], …)','the caller\'s PLMN octets are overwritten: second conversion of the same buffer differs'),
'C13-3':('TaiListToNas multi-PLMN test uses && instead of ||','PLMNs differing from the first in only one of MCC / MNC -> type 00 list with one PLMN'),
'C13-4':('RejectedNssaiToNas size guard >= 40 instead of > 40','exactly eight rejected S-NSSAIs all with SD (40 octets): the eighth is dropped'),
'C14-3':('rfc1035tofqdn writes into a fixed [100]byte with an unguarded dot store','DNN contents longer than 100 octets -> index panic'),
'C14-4':('PlmnIDToString strips the filler with TrimRight; GutiToStringWithError slices the result blindly','11-octet GUTI with octets 2 and 3 both 0xFF -> slice panic'),
'C15-3':('QoSFlowDescs.MarshalBinary returns a slice of a sync.Pool buffer','marshal A, keep the result, marshal B -> A\'s bytes changed'),
'C15-4':('parsePacketFilterList guard `pfLen > uint8(buf.Len())`','well-formed rule list with >= 256 octets remaining after a filter length octet and remaining mod 256 < filter length'),
'C16-3':('PCO Marshal returns a slice of a sync.Pool buffer','marshal A, keep the result, marshal B -> A\'s bytes changed'),
'C16-4':('PCO UnMarshal guard `LengthOfContents > uint8(numOfBytes)`','well-formed list longer than 255 octets with an unlucky remaining count'),
'C17-3':('time stamp decoder shares a semi-octet helper that masks the tens digit with 0x07','years 2080–2099 decode 80 years early'),
'C17-4':('packGsm7bit pre-sizes its buffer with n*7/8+1','name length a multiple of 8 (incl. 0): one trailing zero octet'),
'C18-3':('sublist MarshalBinary recomputes Len only when it is 0','marshal (or decode), AppendInstruction, marshal again -> stale sublist length'),
'C18-4':('parseInstruction rejects content length <= 0','instruction with zero policy parts (length field exactly 2) produced by the library\'s own encoder'),
'C19-3':('NASEncrypt NEA3 ciphers in place word-wise and extends the slice into spare capacity','payload length % 4 != 0 inside a larger arena while another goroutine uses the octets right behind it'),
'C19-4':('buildPacketFilterList returns a slice of a sync.Pool buffer that the caller copies after Put','two goroutines marshalling QoS rule sets with packet filters at overlapping times'),
'C20-3':('Allocate_inRange marks usedMap[id] instead of usedMap[offset]','minValue > 0, a successful Allocate_inRange, then a wrap of the scan offset back to that slot'),
'C20-4':('FreeID stores false instead of deleting; Allocate still tests key presence','FreeID of a live id, then Allocate scanning back to that slot after a wrap or exhaustion'),
}
H={
'C05-3':'missed at first (every decode used a fresh Message). C05 now decodes sequences of PDUs of both families into one Message value (reuse oracle) — which also exposed a genuine defect of the unchanged tree (cross-family reuse kept both bodies, fixed by c5a8475)',
'C06-3':'missed by quick at first (quick stopped at 2 048 octets; thorough reached it). Quick now includes 4 096 and 8 192-octet payloads',
'C08-3':'missed at first; C08 now overwrites the returned MAC with de.. before the second call and holds returned slices across later calls (Ctx.Hold)',
'C08-4':'missed by quick at first (largest quick payload 1 024 octets); the laws now run at 8 192, 8 200, 4 097 (quick) and 16 384, 70 000 (thorough) octets',
'C10-3':'missed by C10 at first (C02\'s batch oracle caught it); C10 now keeps the previous PlainNasEncode result and verifies it after the next encode',
'C10-4':'not decidable sequentially; C10 now runs a concurrent decode probe per message type (8 goroutines x 400 decodes of their own inputs compared with the sequential result). Sampled schedules — C19 is the property with the race detector. After the third wave re-partitioned the units it was missed again at 8 x 400 decodes; the probe now runs 16 goroutines x 2500 (thorough 8000) decodes and finds it at VERIF_SEED 1, 2 and 3',
'C12-3':'missed at first; the invalid-text families now include sign-prefixed, space-padded, 0x-prefixed and underscore-separated hex for AMF ids and for the AMF-id/TMSI/MCC/MNC parts of a GUTI',
'C12-4':'missed at first (the check converted a private copy); converters are now called twice on the same buffer and the buffer is compared with its snapshot (input-mutated)',
'C15-3':'missed at first; MarshalBinary results are now held across later calls (Ctx.Hold)',
'C16-3':'missed at first; Marshal results are now held across later calls (Ctx.Hold)',
'C18-3':'missed at first; C18 now appends an instruction through the API after the first marshal (to the built list and to the decoded list) and marshals again',
'C19-4':'detected in some runs only at first (a sync.Pool buffer changes hands between goroutines only now and then, and the QoS kind was 1/18 of a mixed round); C19 now adds single-kind storm rounds (16 goroutines x 24 items of one kind, for each of the 18 kinds), after which it was detected at VERIF_SEED 1..4',
'C19-3':'missed at first; cipher/MAC payloads of different goroutines are now adjacent regions of one arena (even regions end-aligned, odd regions start-aligned, neighbours on different goroutines), so a write one octet outside the slice races with the neighbour',
}
for k,(what,needs) in S.items():
    d='/verif/seeded/'+k
    if not os.path.isdir(d): print('missing',k); continue
    m=json.load(open(d+'/meta.json'))
    m['change']=what; m['needs_to_manifest']=needs; m['wave']=2
    if k in H: m['history']=H[k]
    json.dump(m,open(d+'/meta.json','w'),indent=1)
