#!/usr/bin/env python3
"""Authoring-time: (re)writes the change / needs_to_manifest / history fields of the eighth-wave seeds
(adversarial instructions, fourteen earlier changes per property listed as taken)."""
import json,os
S={
'C06-15':('NEA3 builds its IV in a package-level array','two goroutines inside NEA3 at the same time with different COUNT, bearer or direction'),
'C06-16':('NEA output buffers pooled; NASEncrypt returns its temporary to the pool; NEA2 returns an empty input as is','NASEncrypt with algorithm 2 on an empty non-nil payload with spare capacity (rx[:0]); a later ciphering call writes into the caller\'s memory'),
'C10-15':('GsmMessageEncode copies the first four produced octets back into the header view','5GSM message built by hand whose body carries a non-zero PDU session ID or PTI: encoding modifies the message'),
'C10-16':('5GSM type table in GsmMessageDecode filled on first use without synchronisation','the first 5GSM decodes of the process made by several goroutines at once'),
'C01-15':('unknown-type error of GmmMessageDecode names Rel-16 types from a table one entry short','5GMM input of at least 3 octets with message type 0x53: index panic'),
'C01-16':('DLNASTransport decoder walks the entries of a "multiple payloads" container for a debug line','container type 15, an entry whose last optional IE crosses the entry end but stays inside the container: slice bounds panic'),
'C02-15':('PDUSessionModificationCommand decoder takes the EPCO contents with buffer.Next','EPCO present and the input overwritten after the decode'),
'C02-16':('PlainNasDecode resets the whole Message, including the SecurityHeader its caller filled in','target Message with a non-zero SecurityHeader'),
'C03-15':('PDUSessionEstablishmentRequest decoder normalises spare values of the integrity protection maximum data rate','UL or DL rate octet in 0x02..0xfe'),
'C03-16':('SecurityModeComplete decoder takes NAS message containers of 512 octets or more with buffer.Next','container of at least 512 octets and the input overwritten before the re-encode'),
'C04-15':('RegistrationAccept decoder rejects the reactivation result error cause when no reactivation result was decoded before it','element 0x72 without 0x26, or before it on the wire'),
'C04-16':('PlainNasEncode returns the bytes of a pooled scratch buffer','an earlier result kept across a second PlainNasEncode call'),
'C05-15':('GmmMessageDecode fills the header view from GetSecurityHeaderType, which now masks the upper nibble','5GMM message whose octet 2 has a non-zero upper nibble: header view and body disagree'),
'C05-16':('5GSM type table built lazily without synchronisation','the first 5GSM decodes of the process made by several goroutines at once'),
'C07-15':('NASMacCalculate masks COUNT to 24 bits','COUNT >= 2^24 through NASMacCalculate'),
'C07-16':('NIA1 memoises P, Q, OTP keyed by key and iv[1]<<32|iv[2]','two consecutive NIA1 calls with the same key and bearer, opposite directions and COUNTs that differ exactly in bit 31'),
'C08-15':('NIA1 full-block loop bound rewritten as i < D-2 in uint64','algorithm 1 with a non-nil empty message: index panic'),
'C08-16':('NEA2 fast path for payloads up to 16 octets builds the counter block in uint','32-bit build, algorithm 2, COUNT != 0'),
'C09-15':('RequestType.SetIei takes the high nibble of an argument above 15','SetIei with a value 16..255 whose nibbles differ'),
'C09-16':('NSSAI SetLen methods carve their buffers from an unsynchronised package-level chunk','two goroutines calling SetLen on different NSSAI elements at once'),
'C11-15':('Count gets a mutex; the wrap branch of AddOne returns without unlocking','AddOne in state 0xffffff, then any further call: deadlock'),
'C11-16':('setters work through a lazily allocated scratch array kept by pointer','a by-value copy made after a setter call, the copies used by different goroutines'),
'C12-15':('peiToString trims trailing zeros instead of one padding character','15-digit IMEI whose last digit is 0'),
'C12-16':('Get5GSTMSI returns an unsafe.String over a pooled array','a returned 5G-S-TMSI text kept while another one is converted'),
'C13-15':('TAC parsed with strconv.ParseInt(tac, 16, 24)','TAC 800000..ffffff is dropped from TAI lists and service area lists'),
'C13-16':('RequestedNSSAI.SetLen keeps a larger buffer; RequestedNssaiToModels loops over len(Buffer)','the same element filled a second time with a shorter list'),
'C14-15':('DecodeLocalTimeZone looks the text up in an [80]string table','time zone octet with tens digit 7 and a non-decimal units nibble (80..85 quarters): index panic'),
'C14-16':('RequestedNssaiToModels warns about conflicting mappings and dereferences the earlier entry\'s nil HomeSnssai','a length-4 entry followed by a length-8 entry with the same SST and SD: nil dereference'),
'C15-15':('packet filter component constructors in a table indexed by id&7','unknown component types 0x09, 0x18, 0x19, 0x38 ... 0x88..0x8f are accepted'),
'C15-16':('component list MarshalBinary uses a pooled buffer that is reset on the success path only','a marshal that fails on an ill-formed component, then any other marshal'),
'C16-15':('request helpers append only when no unit with the same identifier is in the list','the same request helper twice, or after UnMarshal of a list that holds that identifier'),
'C16-16':('UnMarshal pools its reader and releases it twice on the truncated-contents path','a failed UnMarshal, then concurrent UnMarshal calls'),
'C17-15':('time stamp encoder rounds to the nearest second','time.Time with a sub-second part of 0.5 s or more'),
'C17-16':('GetTimeZone fast path for a zone named "UTC"','fixed zone named UTC with a non-zero offset'),
'C18-15':('UEPolicySectionManagementResult.UnmarshalBinary takes the contents with buf.Next','reject message decoded and the input overwritten'),
'C18-16':('AppendUEPolicyPart pins the length of the caller\'s part variable','the same part variable appended again with contents of another size'),
'C19-15':('NIA3 accumulation split over four goroutines folding into one variable','NIA3 over 4096 octets or more'),
'C19-16':('GmmMessage/GsmMessage containers pooled; a failed decode puts a partially filled container back','a decode that fails inside a per-type decoder, then a successful decode of another type of the same family'),
'C20-15':('exhausted flag set by Allocate_inRange when its scan reaches the cursor','Allocate_inRange refused while free identifiers exist elsewhere, then Allocate'),
'C20-16':('cursor wrap decided with id+1 > maxValue','allocator whose upper bound is MaxInt64'),
}
FIRST=['C01-15', 'C02-15', 'C03-15', 'C03-16', 'C04-15', 'C04-16', 'C05-15', 'C05-16', 'C06-15', 'C07-15', 'C08-15', 'C08-16', 'C09-15', 'C10-15', 'C10-16', 'C12-15', 'C13-15', 'C14-15', 'C15-15', 'C16-15', 'C19-16', 'C20-15']
H={'C01-16': 'missed at first (payload containers held nested messages or random octets). Corpus kind multi-payload: container type 15 with consistent entries, an optional IE that crosses its entry but stays inside the container, IEs and entries that overrun, wrong counts, zero lengths', 'C02-16': 'missed at first (decode targets were fresh). Half of the PlainNasDecode targets carry a SecurityHeader recorded by the caller; it must be what it was after the decode', 'C06-16': 'missed at first. The mixed series cipher an EMPTY message in place at the start of a 96-octet receive area now and then (rx[:0]); the area must stay untouched through the later calls; direct NEAx calls whose results are kept were added to the series', 'C07-16': 'missed at first (a series used one COUNT and DIRECTION). A third of the calls of a mixed series use the twin tuple (COUNT with bit 31 flipped, the other DIRECTION), which agrees with the original in the IV words built as COUNT xor DIRECTION<<31', 'C09-16': 'missed at first (the concurrent accessor workload used two fixed element types). It now calls SetLen, fills and reads back three element types picked from all Buffer-backed ones; reported as digest mismatch and as data race', 'C11-15': 'the first run did not finish within an hour: every shard blocked on the leaked lock and the confirmation replays waited ten minutes each, one after the other. A replay that sits for a minute without using the processor is now judged on its goroutine dump (blocked-forever:<library frame>), and the confirmations run side by side', 'C11-16': "missed at first (private counters were fresh zero values). In half of the concurrent-private cases the workers' counters are value copies of one counter that was already set, incremented and read", 'C12-16': 'missed at first (texts were compared when returned). The identity series keeps every text the library returned and re-reads all of them after each step', 'C13-16': 'missed at first (every element was filled once). In half of the nssai-decode cases the element held a longer well-formed list before', 'C14-16': "missed at first (entries of a list were independent). Lists in which an entry repeats the SST and SD of an earlier entry in another variant, in C13's lists and among C14's structured inputs", 'C15-16': 'missed at first (only well-formed lists were marshalled). A quarter of the rule cases are preceded by a marshal the library has to refuse (21-bit flow label, three-octet address, 13-bit VLAN id)', 'C16-16': 'missed at first. Kind bad-input (which makes UnMarshal fail on truncated contents) added to the cold units and the race side run of C16', 'C17-15': 'missed at first (instants had whole seconds). The hourly instants carry nanoseconds, half of them above 0.5 s', 'C17-16': 'missed at first (all fixed zones were called "fixed"). Fixed zones are labelled UTC, GMT, "", Local, CST, Z ... in rotation', 'C18-15': 'missed at first. The input handed to a decoder is overwritten as soon as the decoder has returned (thenScribble) in C16 and C18', 'C18-16': 'missed at first (a fresh part value per append). In template mode one part variable is refilled for every part of an instruction', 'C19-15': 'missed at first (MAC messages up to 1600 octets). One MAC item in twelve uses a message of 4096..9000 octets', 'C20-16': 'missed at first. Ranges that end at MaxInt64 (four identifiers, 64, and almost all positive ones)'}
if __name__=='__main__':
    for k,(what,needs) in S.items():
        d='/verif/seeded/'+k
        if not os.path.isdir(d): print('missing',k); continue
        m=json.load(open(d+'/meta.json'))
        m['change']=what; m['needs_to_manifest']=needs; m['wave']=8
        if k in H: m['history']=H[k]; m.pop('first_pass',None)
        elif k in FIRST:
            m.pop('history',None); m['first_pass']='detected by the checks as they stood after the seventh wave'
        json.dump(m,open(d+'/meta.json','w'),indent=1)
