#!/usr/bin/env python3
"""One-off, authoring-time: copy the published implementers' test sets that the
repository's test files quote (UEA2/UIA2, 128-EEA2/EIA2, EEA3/EIA3, SNOW 3G and
ZUC keystream sets) into spec/kat/*.json. Never run by a check."""
import re, json, sys
def parse(path):
    src = open(path).read()
    out = {}
    for m in re.finditer(r'func (Test\w+)\(t \*testing\.T\) \{(.*?)\n\}\n', src, re.S):
        fn, body = m.group(1), m.group(2)
        cases = []
        # split at "name:" occurrences
        parts = re.split(r'\n\s*\{\s*\n\s*name:', body)
        for p in parts[1:]:
            p = 'name:' + p
            case = {}
            for f in re.finditer(r'(\w+):\s*(\[\d*\](?:byte|uint32)\{[^}]*\}|0x[0-9a-fA-F]+|\d+|"[^"]*")', p):
                k, v = f.group(1), f.group(2)
                if k in case: continue
                if v.startswith('"'): case[k] = v.strip('"')
                elif v.startswith('['):
                    is32 = 'uint32' in v.split('{')[0]
                    nums = re.findall(r'0x[0-9a-fA-F]+|\b\d+\b', v.split('{',1)[1])
                    vals = [int(n, 0) for n in nums]
                    if is32: case[k] = vals
                    else: case[k] = ''.join('%02x' % n for n in vals)
                else: case[k] = int(v, 0)
            cases.append(case)
        out[fn] = cases
    return out
allk = {}
for p in ['security/security_test.go', 'security/snow3g/snow3g_test.go', 'security/zuc/zuc_test.go']:
    allk.update(parse('/repo/' + p))
for k, v in allk.items():
    print(k, len(v), sorted(v[0].keys()) if v else None)
json.dump(allk, open('/verif/spec/kat/security_kat.json', 'w'), indent=0)
