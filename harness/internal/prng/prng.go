// Package prng is a small xoshiro256** generator. The stream depends only on
// the seed, never on the Go release, so case lists are reproducible.
package prng

type Rand struct{ s [4]uint64 }

func splitmix(x *uint64) uint64 {
	*x += 0x9e3779b97f4a7c15
	z := *x
	z = (z ^ (z >> 30)) * 0xbf58476d1ce4e5b9
	z = (z ^ (z >> 27)) * 0x94d049bb133111eb
	return z ^ (z >> 31)
}

// New seeds a generator from a 64-bit seed.
func New(seed uint64) *Rand {
	r := &Rand{}
	x := seed
	for i := range r.s {
		r.s[i] = splitmix(&x)
	}
	return r
}

// HashString is FNV-1a, used to derive per-unit seeds.
func HashString(s string) uint64 {
	h := uint64(0xcbf29ce484222325)
	for i := 0; i < len(s); i++ {
		h ^= uint64(s[i])
		h *= 0x100000001b3
	}
	return h
}

func rotl(x uint64, k uint) uint64 { return (x << k) | (x >> (64 - k)) }

func (r *Rand) Uint64() uint64 {
	s := &r.s
	res := rotl(s[1]*5, 7) * 9
	t := s[1] << 17
	s[2] ^= s[0]
	s[3] ^= s[1]
	s[1] ^= s[2]
	s[0] ^= s[3]
	s[2] ^= t
	s[3] = rotl(s[3], 45)
	return res
}

func (r *Rand) Uint32() uint32 { return uint32(r.Uint64() >> 32) }

// Intn returns a value in [0,n). n must be > 0.
func (r *Rand) Intn(n int) int {
	if n <= 0 {
		return 0
	}
	return int(r.Uint64() % uint64(n))
}

// Range returns a value in [lo,hi].
func (r *Rand) Range(lo, hi int) int {
	if hi <= lo {
		return lo
	}
	return lo + r.Intn(hi-lo+1)
}

func (r *Rand) Bool() bool { return r.Uint64()&1 == 1 }

// Chance returns true with probability num/den.
func (r *Rand) Chance(num, den int) bool { return r.Intn(den) < num }

func (r *Rand) Byte() byte { return byte(r.Uint64() >> 56) }

func (r *Rand) Fill(b []byte) {
	i := 0
	for ; i+8 <= len(b); i += 8 {
		v := r.Uint64()
		b[i] = byte(v)
		b[i+1] = byte(v >> 8)
		b[i+2] = byte(v >> 16)
		b[i+3] = byte(v >> 24)
		b[i+4] = byte(v >> 32)
		b[i+5] = byte(v >> 40)
		b[i+6] = byte(v >> 48)
		b[i+7] = byte(v >> 56)
	}
	if i < len(b) {
		v := r.Uint64()
		for ; i < len(b); i++ {
			b[i] = byte(v)
			v >>= 8
		}
	}
}

func (r *Rand) Bytes(n int) []byte {
	b := make([]byte, n)
	r.Fill(b)
	return b
}

// Pattern returns n bytes of one of several content shapes:
// 0 zeros, 1 ones, 2 counting, 3 random, 4 single repeated random byte.
func (r *Rand) Pattern(kind, n int) []byte {
	b := make([]byte, n)
	switch kind % 5 {
	case 0:
	case 1:
		for i := range b {
			b[i] = 0xff
		}
	case 2:
		for i := range b {
			b[i] = byte(i + 1)
		}
	case 3:
		r.Fill(b)
	case 4:
		v := r.Byte()
		for i := range b {
			b[i] = v
		}
	}
	return b
}

// Pick returns a random element index weighted uniformly.
func (r *Rand) Perm(n int) []int {
	p := make([]int, n)
	for i := range p {
		p[i] = i
	}
	for i := n - 1; i > 0; i-- {
		j := r.Intn(i + 1)
		p[i], p[j] = p[j], p[i]
	}
	return p
}
