// Package refconv holds spec-side reference encoders/decoders for the
// conversions of nasConvert, nasType (QoS) and uePolicyContainer, written from
// TS 24.501 / TS 24.008 / TS 23.003. It imports nothing from the library.
package refconv

import (
	"encoding/hex"
	"fmt"
	"strings"
)

func d(c byte) byte { return c - '0' }

// PlmnWire is TS 24.008 10.5.1.3: octet1 = MCC digit2|MCC digit1, octet2 = MNC
// digit3|MCC digit3 (MNC digit3 = 1111 for a 2-digit MNC), octet3 = MNC digit2|MNC digit1.
func PlmnWire(mcc, mnc string) [3]byte {
	m3 := byte(0xf)
	if len(mnc) == 3 {
		m3 = d(mnc[2])
	}
	return [3]byte{d(mcc[1])<<4 | d(mcc[0]), m3<<4 | d(mcc[2]), d(mnc[1])<<4 | d(mnc[0])}
}

// PlmnText renders three PLMN octets as MCC and MNC digit strings.
func PlmnText(o []byte) (mcc, mnc string) {
	mcc = string([]byte{'0' + o[0]&0xf, '0' + o[0]>>4, '0' + o[1]&0xf})
	mnc = string([]byte{'0' + o[2]&0xf, '0' + o[2]>>4})
	if o[1]>>4 != 0xf {
		mnc += string([]byte{'0' + o[1]>>4})
	}
	return
}

// AmfIDHex: AMF identifier = region(8) || set(10) || pointer(6) as 6 hex digits.
func AmfIDHex(region uint8, set uint16, pointer uint8) string {
	v := uint32(region)<<16 | uint32(set&0x3ff)<<6 | uint32(pointer&0x3f)
	return fmt.Sprintf("%06x", v)
}

func AmfIDSplit(v uint32) (region uint8, set uint16, pointer uint8) {
	return uint8(v >> 16), uint16(v>>6) & 0x3ff, uint8(v) & 0x3f
}

// GutiWire is the 11-octet 5G-GUTI mobile identity contents (TS 24.501 9.11.3.4).
func GutiWire(mcc, mnc string, amf uint32, tmsi uint32) []byte {
	p := PlmnWire(mcc, mnc)
	return []byte{0xf2, p[0], p[1], p[2], byte(amf >> 16), byte(amf >> 8), byte(amf),
		byte(tmsi >> 24), byte(tmsi >> 16), byte(tmsi >> 8), byte(tmsi)}
}

// GutiText is the text form used by free5GC: MCC MNC AMF-id(6 hex) TMSI(8 hex).
func GutiText(mcc, mnc string, amf uint32, tmsi uint32) string {
	return fmt.Sprintf("%s%s%06x%08x", mcc, mnc, amf, tmsi)
}

// STmsiWire is the 7-octet 5G-S-TMSI contents: type, set/pointer (16 bits), TMSI.
func STmsiWire(set uint16, pointer uint8, tmsi uint32) []byte {
	sp := (set&0x3ff)<<6 | uint16(pointer&0x3f)
	return []byte{0xf4, byte(sp >> 8), byte(sp), byte(tmsi >> 24), byte(tmsi >> 16), byte(tmsi >> 8), byte(tmsi)}
}

// bcdLowFirst packs digits two per octet, first digit in the low nibble, 0xF filler.
func bcdLowFirst(digits string) []byte {
	var out []byte
	for i := 0; i < len(digits); i += 2 {
		lo := d(digits[i])
		hi := byte(0xf)
		if i+1 < len(digits) {
			hi = d(digits[i+1])
		}
		out = append(out, hi<<4|lo)
	}
	return out
}

// SuciWire builds SUCI contents in IMSI format.
// rid: 1..4 digit routing indicator; scheme 0 → output is MSIN digits, else raw octets.
func SuciWire(mcc, mnc, rid string, scheme, hnKey uint8, msin string, raw []byte) []byte {
	p := PlmnWire(mcc, mnc)
	r := bcdLowFirst(rid)
	for len(r) < 2 {
		r = append(r, 0xff)
	}
	out := []byte{0x01, p[0], p[1], p[2], r[0], r[1], scheme & 0x0f, hnKey}
	if scheme == 0 {
		out = append(out, bcdLowFirst(msin)...)
	} else {
		out = append(out, raw...)
	}
	return out
}

// SuciText is "suci-0-<mcc>-<mnc>-<rid>-<scheme>-<hnkey>-<output>".
func SuciText(mcc, mnc, rid string, scheme, hnKey uint8, msin string, raw []byte) string {
	out := msin
	if scheme != 0 {
		out = hex.EncodeToString(raw)
	}
	return strings.Join([]string{"suci", "0", mcc, mnc, rid, fmt.Sprintf("%x", scheme), fmt.Sprintf("%d", hnKey), out}, "-")
}

// NaiWire: SUPI format NAI (1) in bits 7..5, type SUCI; the NAI follows.
func NaiWire(nai []byte) []byte { return append([]byte{0x11}, nai...) }

// PeiWire builds IMEI (15 digits) / IMEISV (16 digits) contents.
func PeiWire(digits string, imeisv bool) []byte {
	typ := byte(3)
	if imeisv {
		typ = 5
	}
	odd := byte(len(digits) % 2)
	out := []byte{d(digits[0])<<4 | odd<<3 | typ}
	rest := digits[1:]
	out = append(out, bcdLowFirst(rest)...)
	return out
}

func PeiText(digits string, imeisv bool) string {
	if imeisv {
		return "imeisv-" + digits
	}
	return "imei-" + digits
}
