package refconv

import (
	"errors"
	"fmt"
)

// Snssai is one S-NSSAI as TS 24.501 9.11.2.8 carries it.
type Snssai struct {
	SST          uint8
	HasSD        bool
	SD           [3]byte
	HasMappedSST bool
	MappedSST    uint8
	HasMappedSD  bool
	MappedSD     [3]byte
}

// SnssaiContents renders length + value of an S-NSSAI.
func SnssaiContents(s Snssai) []byte {
	v := []byte{s.SST}
	if s.HasSD {
		v = append(v, s.SD[:]...)
	}
	if s.HasMappedSST {
		v = append(v, s.MappedSST)
	}
	if s.HasMappedSD {
		v = append(v, s.MappedSD[:]...)
	}
	return append([]byte{byte(len(v))}, v...)
}

// ParseSnssaiValue decodes the value part (after the length octet).
func ParseSnssaiValue(v []byte) (Snssai, error) {
	var s Snssai
	switch len(v) {
	case 1:
		s.SST = v[0]
	case 2:
		s.SST, s.HasMappedSST, s.MappedSST = v[0], true, v[1]
	case 4:
		s.SST, s.HasSD = v[0], true
		copy(s.SD[:], v[1:4])
	case 5:
		s.SST, s.HasSD, s.HasMappedSST, s.MappedSST = v[0], true, true, v[4]
		copy(s.SD[:], v[1:4])
	case 8:
		s.SST, s.HasSD, s.HasMappedSST, s.MappedSST, s.HasMappedSD = v[0], true, true, v[4], true
		copy(s.SD[:], v[1:4])
		copy(s.MappedSD[:], v[5:8])
	default:
		return s, fmt.Errorf("S-NSSAI length %d is not one of 1,2,4,5,8", len(v))
	}
	return s, nil
}

// ParseNssai decodes a sequence of (length, S-NSSAI value) entries.
func ParseNssai(b []byte) ([]Snssai, error) {
	var out []Snssai
	for i := 0; i < len(b); {
		l := int(b[i])
		if i+1+l > len(b) {
			return nil, errors.New("S-NSSAI runs past the end")
		}
		s, err := ParseSnssaiValue(b[i+1 : i+1+l])
		if err != nil {
			return nil, err
		}
		out = append(out, s)
		i += 1 + l
	}
	return out, nil
}

// Rejected is one entry of the rejected NSSAI (9.11.3.46).
type Rejected struct {
	SST   uint8
	HasSD bool
	SD    [3]byte
	Cause uint8
}

func ParseRejectedNssai(b []byte) ([]Rejected, error) {
	var out []Rejected
	for i := 0; i < len(b); {
		l, cause := int(b[i]>>4), b[i]&0xf
		if l != 1 && l != 4 {
			return nil, fmt.Errorf("rejected S-NSSAI length %d", l)
		}
		if i+1+l > len(b) {
			return nil, errors.New("rejected S-NSSAI runs past the end")
		}
		r := Rejected{SST: b[i+1], Cause: cause}
		if l == 4 {
			r.HasSD = true
			copy(r.SD[:], b[i+2:i+5])
		}
		out = append(out, r)
		i += 1 + l
	}
	return out, nil
}

// Tai is one tracking area identity.
type Tai struct {
	MCC, MNC string
	TAC      [3]byte
}

// ParseTaiList decodes the contents of a 5GS tracking area identity list
// (9.11.3.9), partial list types 00, 01 and 10.
func ParseTaiList(b []byte) ([]Tai, error) {
	var out []Tai
	for i := 0; i < len(b); {
		typ := b[i] >> 5 & 3
		n := int(b[i]&0x1f) + 1
		i++
		need := func(k int) bool { return i+k <= len(b) }
		switch typ {
		case 0:
			if !need(3 + 3*n) {
				return nil, errors.New("partial list type 00 truncated")
			}
			mcc, mnc := PlmnText(b[i : i+3])
			i += 3
			for j := 0; j < n; j++ {
				t := Tai{MCC: mcc, MNC: mnc}
				copy(t.TAC[:], b[i:i+3])
				out = append(out, t)
				i += 3
			}
		case 1:
			if !need(6) {
				return nil, errors.New("partial list type 01 truncated")
			}
			mcc, mnc := PlmnText(b[i : i+3])
			first := uint32(b[i+3])<<16 | uint32(b[i+4])<<8 | uint32(b[i+5])
			i += 6
			for j := 0; j < n; j++ {
				v := first + uint32(j)
				out = append(out, Tai{MCC: mcc, MNC: mnc, TAC: [3]byte{byte(v >> 16), byte(v >> 8), byte(v)}})
			}
		case 2:
			if !need(6 * n) {
				return nil, errors.New("partial list type 10 truncated")
			}
			for j := 0; j < n; j++ {
				mcc, mnc := PlmnText(b[i : i+3])
				t := Tai{MCC: mcc, MNC: mnc}
				copy(t.TAC[:], b[i+3:i+6])
				out = append(out, t)
				i += 6
			}
		default:
			return nil, errors.New("reserved partial list type")
		}
	}
	return out, nil
}

// ServiceArea is one decoded partial service area list of type 00.
type ServiceArea struct {
	Allowed  bool // allowed type bit = 0 means "TAIs in the list are in the allowed area"
	MCC, MNC string
	TACs     [][3]byte
}

// ParseServiceAreaList decodes one partial service area list of type 00 (9.11.3.49).
func ParseServiceAreaList(b []byte) (*ServiceArea, error) {
	if len(b) < 1 {
		return nil, errors.New("empty")
	}
	if b[0]>>5&3 != 0 {
		return nil, errors.New("not type 00")
	}
	n := int(b[0]&0x1f) + 1
	if len(b) != 1+3+3*n {
		return nil, fmt.Errorf("header announces %d elements, contents hold %d octets", n, len(b))
	}
	sa := &ServiceArea{Allowed: b[0]&0x80 == 0}
	sa.MCC, sa.MNC = PlmnText(b[1:4])
	for j := 0; j < n; j++ {
		var t [3]byte
		copy(t[:], b[4+3*j:7+3*j])
		sa.TACs = append(sa.TACs, t)
	}
	return sa, nil
}

// Ladn is one entry of the LADN information element (9.11.3.30).
type Ladn struct {
	DNN  []byte
	TAIs []Tai
}

func ParseLadnInformation(b []byte) ([]Ladn, error) {
	var out []Ladn
	for i := 0; i < len(b); {
		dl := int(b[i])
		if i+1+dl+1 > len(b) {
			return nil, errors.New("LADN DNN truncated")
		}
		l := Ladn{DNN: append([]byte(nil), b[i+1:i+1+dl]...)}
		i += 1 + dl
		tl := int(b[i])
		if i+1+tl > len(b) {
			return nil, errors.New("LADN TAI list truncated")
		}
		t, err := ParseTaiList(b[i+1 : i+1+tl])
		if err != nil {
			return nil, err
		}
		l.TAIs = t
		i += 1 + tl
		out = append(out, l)
	}
	return out, nil
}

// LadnIndication renders a list of DNNs as (length, value) entries (9.11.3.29).
func LadnIndication(dnns [][]byte) []byte {
	var out []byte
	for _, d := range dnns {
		out = append(out, byte(len(d)))
		out = append(out, d...)
	}
	return out
}
