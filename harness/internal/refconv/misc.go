package refconv

// GPRS timer 3, TS 24.008 10.5.7.4a: unit in bits 8..6, value in bits 5..1.
// Returns seconds; ok=false for "deactivated".
func Timer3Decode(o byte) (sec int, ok bool) {
	v := int(o & 0x1f)
	switch o >> 5 {
	case 0:
		return v * 600, true
	case 1:
		return v * 3600, true
	case 2:
		return v * 36000, true
	case 3:
		return v * 2, true
	case 4:
		return v * 30, true
	case 5:
		return v * 60, true
	case 6:
		return v * 320 * 3600, true
	}
	return 0, false
}

// Timer3Representable: t = v × unit for some v in 0..31 and a unit of the table
// (320 h is outside the range 0..1 116 000 s considered).
func Timer3Representable(t int) bool {
	for _, u := range []int{2, 30, 60, 600, 3600, 36000} {
		if t%u == 0 && t/u <= 31 {
			return true
		}
	}
	return false
}

// GPRS timer 2 (GPRS timer), TS 24.008 10.5.7.3/10.5.7.4: 000 = 2 s, 001 = 1 min, 010 = decihours.
func Timer2Decode(o byte) (sec int, ok bool) {
	v := int(o & 0x1f)
	switch o >> 5 {
	case 0:
		return v * 2, true
	case 1:
		return v * 60, true
	case 2:
		return v * 360, true
	case 7:
		return 0, false
	}
	return v * 60, true // other values: multiples of 1 minute
}

func Timer2Representable(t int) bool {
	for _, u := range []int{2, 60, 360} {
		if t%u == 0 && t/u <= 31 {
			return true
		}
	}
	return false
}

// AmbrUnitCode is TS 24.501 Table 9.11.4.14.1 for the five units of the property.
func AmbrUnitCode(unit string) byte {
	switch unit {
	case "Kbps":
		return 1
	case "Mbps":
		return 6
	case "Gbps":
		return 11
	case "Tbps":
		return 16
	case "Pbps":
		return 21
	}
	return 0
}

// TimeZoneDecode interprets a time zone octet (TS 24.008 10.5.3.8 / TS 23.040
// 9.2.3.11): quarter-hours in semi-octet BCD, bit 3 of the octet's low nibble is the sign.
func TimeZoneDecode(o byte) (seconds int) {
	q := int(o&0x07)*10 + int(o>>4)
	s := q * 15 * 60
	if o&0x08 != 0 {
		s = -s
	}
	return s
}

// SemiOctet is a two-digit number in TS 23.040 semi-octet representation.
func SemiOctet(v int) byte { return byte(v%10)<<4 | byte(v/10) }

func SemiOctetDecode(o byte) int { return int(o&0x0f)*10 + int(o>>4) }

// Gsm7Unpack unpacks n septets (TS 23.038 6.1.2.1: first character in the low
// bits of the first octet).
func Gsm7Unpack(b []byte, n int) []byte {
	out := make([]byte, 0, n)
	for i := 0; i < n; i++ {
		bit := 7 * i
		var v uint16
		if bit/8 < len(b) {
			v = uint16(b[bit/8]) >> uint(bit%8)
		}
		if bit%8 > 1 && bit/8+1 < len(b) {
			v |= uint16(b[bit/8+1]) << uint(8-bit%8)
		}
		out = append(out, byte(v&0x7f))
	}
	return out
}

// Gsm7Pack is the converse (used to cross-check the unpacker).
func Gsm7Pack(s []byte) []byte {
	out := make([]byte, (7*len(s)+7)/8)
	for i, ch := range s {
		bit := 7 * i
		v := uint16(ch&0x7f) << uint(bit%8)
		out[bit/8] |= byte(v)
		if v>>8 != 0 {
			out[bit/8+1] |= byte(v >> 8)
		}
	}
	return out
}
