package refconv

import (
	"bytes"
	"testing"
)

func TestGsm7(t *testing.T) {
	// TS 23.038 example: "hellohello" packs to E8329BFD4697D9EC37
	want := []byte{0xE8, 0x32, 0x9B, 0xFD, 0x46, 0x97, 0xD9, 0xEC, 0x37}
	if got := Gsm7Pack([]byte("hellohello")); !bytes.Equal(got, want) {
		t.Fatalf("%x", got)
	}
	if got := Gsm7Unpack(want, 10); string(got) != "hellohello" {
		t.Fatalf("%q", got)
	}
	for n := 0; n < 70; n++ {
		s := make([]byte, n)
		for i := range s {
			s[i] = byte(32 + (i*7)%90)
		}
		if got := Gsm7Unpack(Gsm7Pack(s), n); !bytes.Equal(got, s) {
			t.Fatalf("n=%d", n)
		}
	}
}
