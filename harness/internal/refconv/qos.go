package refconv

import (
	"errors"
	"fmt"
)

// QoS rules, TS 24.501 9.11.4.13.

type QComp struct {
	Type byte
	Val  []byte
}

type QFilter struct {
	ID, Dir byte
	Comps   []QComp
}

type QRule struct {
	ID      byte
	Op      byte
	DQR     bool
	Filters []QFilter // for operation 5 only the IDs are meaningful
	Prec    byte
	Seg     bool
	QFI     byte
}

// CompSize gives the value size of a packet filter component type; ok=false for
// types outside the 18 the library supports.
func CompSize(t byte) (int, bool) {
	switch t {
	case 0x01:
		return 0, true
	case 0x10, 0x11:
		return 8, true
	case 0x30, 0x85, 0x86:
		return 1, true
	case 0x40, 0x50, 0x70, 0x83, 0x84, 0x87:
		return 2, true
	case 0x41, 0x51, 0x60:
		return 4, true
	case 0x80:
		return 3, true
	case 0x81, 0x82:
		return 6, true
	}
	return 0, false
}

var CompTypes = []byte{0x01, 0x10, 0x11, 0x30, 0x40, 0x41, 0x50, 0x51, 0x60, 0x70, 0x80, 0x81, 0x82, 0x83, 0x84, 0x85, 0x86, 0x87}

func b2b(b bool) byte {
	if b {
		return 1
	}
	return 0
}

func SerializeRules(rules []QRule) []byte {
	var out []byte
	for _, r := range rules {
		body := []byte{r.Op<<5 | b2b(r.DQR)<<4 | byte(len(r.Filters))&0x0f}
		for _, f := range r.Filters {
			if r.Op == 5 {
				body = append(body, f.ID&0x0f)
				continue
			}
			var cb []byte
			for _, c := range f.Comps {
				cb = append(cb, c.Type)
				cb = append(cb, c.Val...)
			}
			body = append(body, f.Dir<<4|f.ID&0x0f, byte(len(cb)))
			body = append(body, cb...)
		}
		body = append(body, r.Prec, b2b(r.Seg)<<6|r.QFI&0x3f)
		out = append(out, r.ID, byte(len(body)>>8), byte(len(body)))
		out = append(out, body...)
	}
	return out
}

// ParseRules is the reference parser. It follows the layout the library emits
// (precedence and QFI octets always present).
func ParseRules(b []byte) ([]QRule, error) {
	var out []QRule
	for i := 0; i < len(b); {
		if i+3 > len(b) {
			return nil, errors.New("rule header truncated")
		}
		r := QRule{ID: b[i]}
		n := int(b[i+1])<<8 | int(b[i+2])
		i += 3
		if i+n > len(b) || n < 1 {
			return nil, errors.New("rule body truncated")
		}
		body := b[i : i+n]
		i += n
		h := body[0]
		r.Op, r.DQR = h>>5, h&0x10 != 0
		nf := int(h & 0x0f)
		p := 1
		for j := 0; j < nf; j++ {
			if r.Op == 5 {
				if p+1 > len(body) {
					return nil, errors.New("filter id list truncated")
				}
				r.Filters = append(r.Filters, QFilter{ID: body[p] & 0x0f})
				p++
				continue
			}
			if p+2 > len(body) {
				return nil, errors.New("filter header truncated")
			}
			f := QFilter{Dir: body[p] >> 4 & 3, ID: body[p] & 0x0f}
			fl := int(body[p+1])
			p += 2
			if p+fl > len(body) {
				return nil, errors.New("filter contents truncated")
			}
			cb := body[p : p+fl]
			p += fl
			for q := 0; q < len(cb); {
				sz, ok := CompSize(cb[q])
				if !ok {
					return nil, fmt.Errorf("unknown component type %#02x", cb[q])
				}
				if q+1+sz > len(cb) {
					return nil, errors.New("component truncated")
				}
				f.Comps = append(f.Comps, QComp{Type: cb[q], Val: append([]byte(nil), cb[q+1:q+1+sz]...)})
				q += 1 + sz
			}
			r.Filters = append(r.Filters, f)
		}
		if p+2 > len(body) {
			return nil, errors.New("precedence/QFI truncated")
		}
		r.Prec, r.Seg, r.QFI = body[p], body[p+1]&0x40 != 0, body[p+1]&0x3f
		out = append(out, r)
	}
	return out, nil
}

// QoS flow descriptions, TS 24.501 9.11.4.12.

type QParam struct {
	ID  byte
	Val []byte
}

type QDesc struct {
	QFI, Op byte
	Params  []QParam
}

// ParamSize gives the value size of a flow parameter; ok=false for unknown ids.
func ParamSize(id byte) (int, bool) {
	switch id {
	case 1, 7:
		return 1, true
	case 2, 3, 4, 5:
		return 3, true
	case 6:
		return 2, true
	}
	return 0, false
}

func SerializeDescs(ds []QDesc) []byte {
	var out []byte
	for _, d := range ds {
		e := byte(0)
		if len(d.Params) > 0 {
			e = 1
		}
		out = append(out, d.QFI, d.Op<<5, e<<6|byte(len(d.Params))&0x3f)
		for _, p := range d.Params {
			out = append(out, p.ID, byte(len(p.Val)))
			out = append(out, p.Val...)
		}
	}
	return out
}
