package refcodec

import (
	"sort"

	"verifharness/internal/prng"
)

// Content produces n value octets of a given shape. Shape 5 = octets that look
// like identifiers of the same message (to provoke mis-synchronisation).
func Content(r *prng.Rand, m *Msg, shape, n int) []byte {
	if shape%6 == 5 {
		var ids []byte
		for _, sl := range m.Slots {
			if !sl.Mandatory {
				if sl.Format == "TV1" {
					ids = append(ids, byte(sl.IEI)<<4|r.Byte()&0xf)
				} else {
					ids = append(ids, byte(sl.IEI))
				}
			}
		}
		b := make([]byte, n)
		if len(ids) == 0 {
			r.Fill(b)
			return b
		}
		for i := range b {
			b[i] = ids[r.Intn(len(ids))]
		}
		return b
	}
	return r.Pattern(shape%6, n)
}

// BoundaryLens lists the declared lengths worth trying for a slot.
func BoundaryLens(sl *Slot) []int {
	if sl.LenSize() == 0 {
		return []int{sl.Max}
	}
	set := map[int]bool{}
	add := func(n int) {
		if n >= 0 && n <= sl.TypeMax() {
			set[n] = true
		}
	}
	for _, n := range []int{0, 1, sl.Min - 1, sl.Min, sl.Min + 1, (sl.Min + sl.Max) / 2, sl.Max - 1, sl.Max, sl.Max + 1, sl.TypeMax()} {
		add(n)
	}
	for _, a := range sl.Allowed {
		add(a - 1)
		add(a)
		add(a + 1)
	}
	var out []int
	for n := range set {
		out = append(out, n)
	}
	sort.Ints(out)
	return out
}

// InRangeLen draws a legal declared length; big maxima are biased to small values.
func InRangeLen(r *prng.Rand, sl *Slot) int {
	if sl.LenSize() == 0 {
		return sl.Max
	}
	if len(sl.Allowed) > 0 {
		return sl.Allowed[r.Intn(len(sl.Allowed))]
	}
	switch r.Intn(8) {
	case 0:
		return sl.Min
	case 1:
		return sl.Max
	case 2:
		if sl.Max-sl.Min > 1 {
			return sl.Min + 1 + r.Intn(sl.Max-sl.Min-1)
		}
	}
	hi := sl.Max
	if hi > sl.Min+40 {
		hi = sl.Min + 40
	}
	return r.Range(sl.Min, hi)
}

// headerOctet gives the value a header slot must carry, if it is one.
func (m *Msg) headerOctet(si int, r *prng.Rand) (byte, bool) {
	if si == 0 {
		return m.EPD(), true
	}
	if m.MsgType == nil { // security protected envelope
		if si == 1 {
			return byte(1 + r.Intn(4)), true
		}
		return 0, false
	}
	if m.Family == "GMM" {
		switch si {
		case 1:
			return 0, true
		case 2:
			return byte(*m.MsgType), true
		}
	} else {
		switch si {
		case 1, 2:
			return r.Byte(), true
		case 3:
			return byte(*m.MsgType), true
		}
	}
	return 0, false
}

// NewPlan lays out the mandatory part with legal lengths and a valid header.
func NewPlan(m *Msg, r *prng.Rand, shape int) *Plan {
	p := &Plan{Def: m}
	for si := 0; si < m.nMand; si++ {
		sl := &m.Slots[si]
		e := Elem{Slot: si}
		if h, ok := m.headerOctet(si, r); ok {
			e.Val = []byte{h}
		} else {
			n := InRangeLen(r, sl)
			e.Decl = n
			e.Val = Content(r, m, shape, n)
		}
		p.Mand = append(p.Mand, e)
	}
	return p
}

// MinimalBody returns the shortest valid encoding of the message.
func MinimalBody(m *Msg, r *prng.Rand) []byte {
	p := &Plan{Def: m}
	for si := 0; si < m.nMand; si++ {
		sl := &m.Slots[si]
		e := Elem{Slot: si}
		if h, ok := m.headerOctet(si, r); ok {
			e.Val = []byte{h}
		} else {
			n := sl.Min
			if len(sl.Allowed) > 0 {
				n = sl.Allowed[0]
			}
			e.Decl = n
			e.Val = make([]byte, n)
		}
		p.Mand = append(p.Mand, e)
	}
	return p.Bytes()
}

// OptElem builds an optional element with the table identifier.
func OptElem(m *Msg, si int, decl int, val []byte, r *prng.Rand) Elem {
	sl := &m.Slots[si]
	e := Elem{Slot: si, Decl: decl, Val: val}
	if sl.Format == "TV1" {
		e.T = byte(sl.IEI)<<4 | r.Byte()&0x0f
		e.Val = []byte{e.T}
	} else {
		e.T = byte(sl.IEI)
	}
	return e
}

// LegalOpt builds a well-formed optional element.
func LegalOpt(m *Msg, si int, r *prng.Rand, shape int) Elem {
	sl := &m.Slots[si]
	n := InRangeLen(r, sl)
	return OptElem(m, si, n, Content(r, m, shape, n), r)
}

// OptSlots lists the indices of the optional slots.
func (m *Msg) OptSlots() []int {
	var o []int
	for i := m.nMand; i < len(m.Slots); i++ {
		o = append(o, i)
	}
	return o
}

// RandomPlan draws a well-formed plan with a presence pattern chosen by mode:
// 0 none, 1 all, 2 single, 3 adjacent pair, 4 later-without-earlier, 5 random
// subset, 6 reversed order, 7 duplicates, 8 interleaved duplicates.
func RandomPlan(m *Msg, r *prng.Rand, mode, shape int) *Plan {
	p := NewPlan(m, r, shape)
	opts := m.OptSlots()
	if len(opts) == 0 {
		return p
	}
	add := func(si int) { p.Opt = append(p.Opt, LegalOpt(m, si, r, shape)) }
	switch mode % 9 {
	case 0:
	case 1:
		for _, si := range opts {
			add(si)
		}
	case 2:
		add(opts[r.Intn(len(opts))])
	case 3:
		i := r.Intn(len(opts))
		add(opts[i])
		if i+1 < len(opts) {
			add(opts[i+1])
		}
	case 4:
		i := r.Intn(len(opts))
		for j := i; j < len(opts); j++ {
			if j == i || r.Bool() {
				add(opts[j])
			}
		}
	case 5:
		for _, si := range opts {
			if r.Bool() {
				add(si)
			}
		}
	case 6:
		for j := len(opts) - 1; j >= 0; j-- {
			if r.Chance(2, 3) {
				add(opts[j])
			}
		}
	case 7:
		si := opts[r.Intn(len(opts))]
		for k := r.Range(2, 3); k > 0; k-- {
			add(si)
		}
		for _, sj := range opts {
			if sj > si && r.Chance(1, 3) {
				add(sj)
			}
		}
	case 8:
		a, b := opts[r.Intn(len(opts))], opts[r.Intn(len(opts))]
		add(a)
		add(b)
		add(a)
		if r.Bool() {
			add(b)
		}
	}
	return p
}
