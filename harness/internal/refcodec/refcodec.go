// Package refcodec is a table-driven reference encoder/decoder for 5GS NAS
// messages. It knows nothing of the library under test: it interprets the frozen
// tables in spec/messages.json with the TS 24.007 framing rules (V, LV, LV-E,
// T½V, TV, TLV, TLV-E).
package refcodec

import (
	"encoding/json"
	"fmt"
	"os"
	"sort"
)

type Slot struct {
	Name      string `json:"name"`
	Mandatory bool   `json:"mandatory"`
	Format    string `json:"format"` // V LV LV-E TV1 TV TLV TLV-E
	IEI       int    `json:"iei"`
	Min       int    `json:"min"`
	Max       int    `json:"max"`
	Allowed   []int  `json:"allowed"`
	Store     string `json:"store"` // octet | array | buffer | empty
	Array     int    `json:"array"`
}

type Msg struct {
	Name    string `json:"name"`
	Family  string `json:"family"` // GMM | GSM
	Section string `json:"section"`
	MsgType *int   `json:"msg_type"`
	Slots   []Slot `json:"slots"`

	optByIEI map[int]int
	nMand    int
}

type Spec struct {
	Messages []*Msg `json:"messages"`
	byName   map[string]*Msg
}

func Load(verifDir string) (*Spec, error) {
	d, err := os.ReadFile(verifDir + "/spec/messages.json")
	if err != nil {
		return nil, err
	}
	var s Spec
	if err := json.Unmarshal(d, &s); err != nil {
		return nil, err
	}
	s.byName = map[string]*Msg{}
	for _, m := range s.Messages {
		m.optByIEI = map[int]int{}
		for i, sl := range m.Slots {
			if sl.Mandatory {
				if i != m.nMand {
					return nil, fmt.Errorf("%s: mandatory slot after optional", m.Name)
				}
				m.nMand++
			} else {
				m.optByIEI[sl.IEI] = i
			}
		}
		s.byName[m.Name] = m
	}
	sort.Slice(s.Messages, func(i, j int) bool { return s.Messages[i].Name < s.Messages[j].Name })
	return &s, nil
}

func (s *Spec) Msg(name string) *Msg { return s.byName[name] }

func (m *Msg) NMand() int { return m.nMand }

// HeaderLen is the number of header octets nas.Message keeps a copy of.
func (m *Msg) HeaderLen() int {
	if m.Family == "GSM" {
		return 4
	}
	return 3
}

func (m *Msg) EPD() byte {
	if m.Family == "GSM" {
		return 0x2e
	}
	return 0x7e
}

// LenSize is the size of the length indicator of a slot's format.
func (sl *Slot) LenSize() int {
	switch sl.Format {
	case "LV", "TLV":
		return 1
	case "LV-E", "TLV-E":
		return 2
	}
	return 0
}

// TypeMax is the largest length expressible in the length indicator.
func (sl *Slot) TypeMax() int {
	if sl.LenSize() == 2 {
		return 65535
	}
	return 255
}

// LenOK says whether a declared length is within the slot's bounds.
func (sl *Slot) LenOK(n int) bool {
	if len(sl.Allowed) > 0 {
		for _, a := range sl.Allowed {
			if a == n {
				return true
			}
		}
		return false
	}
	return n >= sl.Min && n <= sl.Max
}

// Elem is one element of a wire plan.
type Elem struct {
	Slot int    // index into Msg.Slots
	T    byte   // identifier octet as written (TV1: identifier nibble | value nibble)
	Decl int    // declared length for LV/TLV formats
	Val  []byte // value octets that follow
}

// Plan is a message laid out element by element.
type Plan struct {
	Def   *Msg
	Mand  []Elem // one per mandatory slot, in table order
	Opt   []Elem // optional elements in wire order
	Extra []byte // raw trailing octets
}

func appendElem(out []byte, sl *Slot, e *Elem) []byte {
	if !sl.Mandatory {
		out = append(out, e.T)
	}
	switch sl.LenSize() {
	case 1:
		out = append(out, byte(e.Decl))
	case 2:
		out = append(out, byte(e.Decl>>8), byte(e.Decl))
	}
	if sl.Format != "TV1" {
		out = append(out, e.Val...)
	}
	return out
}

// Bytes renders the plan.
func (p *Plan) Bytes() []byte {
	var out []byte
	for i := range p.Mand {
		out = appendElem(out, &p.Def.Slots[p.Mand[i].Slot], &p.Mand[i])
	}
	for i := range p.Opt {
		out = appendElem(out, &p.Def.Slots[p.Opt[i].Slot], &p.Opt[i])
	}
	return append(out, p.Extra...)
}

// WellFormed: every declared length equals the content length and is in bounds,
// identifiers are the table's, nothing trails.
func (p *Plan) WellFormed() bool {
	if len(p.Extra) != 0 || len(p.Mand) != p.Def.nMand {
		return false
	}
	chk := func(e *Elem) bool {
		sl := &p.Def.Slots[e.Slot]
		switch sl.Format {
		case "V", "TV":
			return len(e.Val) == sl.Max
		case "TV1":
			return true
		}
		return e.Decl == len(e.Val) && sl.LenOK(e.Decl)
	}
	for i := range p.Mand {
		if !chk(&p.Mand[i]) {
			return false
		}
	}
	for i := range p.Opt {
		if !chk(&p.Opt[i]) {
			return false
		}
	}
	return true
}

// Canonical: well-formed, each optional at most once, in table order.
func (p *Plan) Canonical() bool {
	if !p.WellFormed() {
		return false
	}
	last := -1
	for i := range p.Opt {
		if p.Opt[i].Slot <= last {
			return false
		}
		last = p.Opt[i].Slot
	}
	return true
}

// Field is what a decoder recovers for one slot.
type Field struct {
	Present bool
	T       byte
	Len     int
	Val     []byte
	Skip    bool // set by a caller that does not want this slot's value judged
}

type Result struct {
	OK     bool
	Reason string // reject class: "truncated:<where>" | "length:<slot>"
	Slot   int    // slot at which the reject happened
	Fields []Field
	// UnknownIDs counts identifier octets that match no optional slot of the
	// message; HalfOctetLookalike counts octets 0x00..0x0F that matched a
	// type-1 slot by nibble value. Either makes the string "not built from
	// known identifiers".
	UnknownIDs         int
	HalfOctetLookalike int
	Consumed           int
}

// Decode is the reference decoder for one message definition.
func Decode(m *Msg, b []byte) *Result {
	r := &Result{Fields: make([]Field, len(m.Slots))}
	pos := 0
	need := func(n int) bool { return pos+n <= len(b) }
	readBody := func(si int, f *Field) bool {
		sl := &m.Slots[si]
		switch sl.Format {
		case "V", "TV":
			if !need(sl.Max) {
				r.Reason, r.Slot = "truncated:value", si
				return false
			}
			f.Val = b[pos : pos+sl.Max]
			f.Len = sl.Max
			pos += sl.Max
			return true
		case "TV1":
			f.Val = []byte{f.T}
			f.Len = 1
			return true
		}
		ls := sl.LenSize()
		if !need(ls) {
			r.Reason, r.Slot = "truncated:length", si
			return false
		}
		n := int(b[pos])
		if ls == 2 {
			n = n<<8 | int(b[pos+1])
		}
		pos += ls
		if !sl.LenOK(n) {
			r.Reason, r.Slot = "length", si
			return false
		}
		if !need(n) {
			r.Reason, r.Slot = "truncated:value", si
			return false
		}
		f.Len = n
		f.Val = b[pos : pos+n]
		pos += n
		return true
	}
	for si := 0; si < m.nMand; si++ {
		f := &r.Fields[si]
		f.Present = true
		if !readBody(si, f) {
			r.Consumed = pos
			return r
		}
	}
	for pos < len(b) {
		t := b[pos]
		pos++
		key := int(t)
		if t >= 0x80 {
			key = int(t >> 4)
		}
		si, ok := m.optByIEI[key]
		if !ok {
			r.UnknownIDs++
			continue
		}
		if t < 0x80 && m.Slots[si].Format == "TV1" {
			r.HalfOctetLookalike++
		}
		f := Field{Present: true, T: t}
		if !readBody(si, &f) {
			r.Consumed = pos
			return r
		}
		r.Fields[si] = f // last duplicate wins
	}
	r.OK = true
	r.Consumed = pos
	return r
}

// Encode renders fields in canonical order: mandatory slots in table order,
// then every present optional in table order with the table's identifier.
func Encode(m *Msg, fields []Field) []byte {
	var out []byte
	for si := range m.Slots {
		sl := &m.Slots[si]
		f := &fields[si]
		if !sl.Mandatory && !f.Present {
			continue
		}
		e := Elem{Slot: si, Decl: f.Len, Val: f.Val}
		switch sl.Format {
		case "TV1":
			e.T = byte(sl.IEI)<<4 | f.Val[0]&0x0f
		default:
			e.T = byte(sl.IEI)
		}
		out = appendElem(out, sl, &e)
	}
	return out
}
