package monitor

import (
	"fmt"
	"time"
	_ "time/tzdata" // embedded tz database: zones with DST without depending on the host

	"github.com/free5gc/nas/nasConvert"
	"github.com/free5gc/openapi/models"

	"verifharness/internal/core"
	"verifharness/internal/refconv"
)

// C17 — timers, bit rates, time zones, time stamps and network names.

// oracle "timer3": I=[lo, hi)
func c17Timer3(c *core.Ctx, k *core.Case) {
	for t := int(k.I[0]); t < int(k.I[1]); t++ {
		o := nasConvert.GPRSTimer3ToNas(t)
		d, ok := refconv.Timer3Decode(o)
		kk := &core.Case{Oracle: "timer3", Target: "nasConvert.GPRSTimer3ToNas", I: []int64{int64(t), int64(t) + 1}}
		if !ok {
			c.Fail(kk, "timer3-deactivated", fmt.Sprintf("GPRSTimer3ToNas(%d) = %#02x, which means 'deactivated'", t, o))
			continue
		}
		if d > t {
			c.Fail(kk, "timer3-longer-than-requested", fmt.Sprintf("GPRSTimer3ToNas(%d) = %#02x, which decodes to %d s", t, o, d))
		}
		if t%499 == 0 || refconv.Timer3Representable(t) {
			c.NonTrivial(core.HashU64(33, uint64(t)))
		}
		if refconv.Timer3Representable(t) {
			c.Count("timer3_representable", 1)
			if d != t {
				c.Fail(kk, "timer3-representable-not-exact", fmt.Sprintf("GPRSTimer3ToNas(%d) = %#02x, which decodes to %d s although %d s is representable", t, o, d, t))
			}
		}
	}
	c.Eval(k.I[1] - k.I[0])
	c.Count("timer3_values", k.I[1]-k.I[0])
}

// oracle "timer2": I=[lo, hi)
func c17Timer2(c *core.Ctx, k *core.Case) {
	for t := int(k.I[0]); t < int(k.I[1]); t++ {
		o := nasConvert.GPRSTimer2ToNas(t)
		d, ok := refconv.Timer2Decode(o)
		kk := &core.Case{Oracle: "timer2", Target: "nasConvert.GPRSTimer2ToNas", I: []int64{int64(t), int64(t) + 1}}
		if !ok {
			c.Fail(kk, "timer2-deactivated", fmt.Sprintf("GPRSTimer2ToNas(%d) = %#02x, which means 'deactivated'", t, o))
			continue
		}
		if d > t {
			c.Fail(kk, "timer2-longer-than-requested", fmt.Sprintf("GPRSTimer2ToNas(%d) = %#02x, which decodes to %d s", t, o, d))
		}
		if t%7 == 0 || refconv.Timer2Representable(t) {
			c.NonTrivial(core.HashU64(22, uint64(t)))
		}
		if refconv.Timer2Representable(t) {
			c.Count("timer2_representable", 1)
			if d != t {
				c.Fail(kk, "timer2-representable-not-exact", fmt.Sprintf("GPRSTimer2ToNas(%d) = %#02x, which decodes to %d s although %d s is representable", t, o, d, t))
			}
		}
	}
	c.Eval(k.I[1] - k.I[0])
	c.Count("timer2_values", k.I[1]-k.I[0])
}

var ambrUnits = []string{"Kbps", "Mbps", "Gbps", "Tbps", "Pbps"}

// oracle "ambr": I=[lo, hi) of the 16-bit value; all 5 units, both directions
func c17Ambr(c *core.Ctx, k *core.Case) {
	var n int64
	for v := int(k.I[0]); v < int(k.I[1]); v++ {
		if v%61 == 0 {
			c.NonTrivial(core.HashU64(44, uint64(v)))
		}
		for ui, unit := range ambrUnits {
			// the other direction carries a different value and unit, so a swap would show
			ov, ou := (v*31+7)&0xffff, ambrUnits[(ui+2)%5]
			for dir := 0; dir < 2; dir++ {
				// the numeric part is a decimal digit string; zero padding is legal (TS 29.571 BitRate: ^\d+...)
				a := &models.Ambr{Uplink: fmt.Sprintf([]string{"%d %s", "%05d %s", "%d %s", "%07d %s"}[(v+dir)&3], v, unit), Downlink: fmt.Sprintf([]string{"%d %s", "%d %s", "%06d %s"}[(v+ui)%3], ov, ou)}
				if dir == 1 {
					a.Uplink, a.Downlink = a.Downlink, a.Uplink
				}
				e := nasConvert.ModelsToSessionAMBR(a)
				n++
				// 9.11.4.14: unit DL, value DL (2), unit UL, value UL (2)
				var gotUnit byte
				var gotVal, othVal int
				var othUnit byte
				if dir == 0 { // value under test is the uplink
					gotUnit, gotVal = e.Octet[3], int(e.Octet[4])<<8|int(e.Octet[5])
					othUnit, othVal = e.Octet[0], int(e.Octet[1])<<8|int(e.Octet[2])
				} else {
					gotUnit, gotVal = e.Octet[0], int(e.Octet[1])<<8|int(e.Octet[2])
					othUnit, othVal = e.Octet[3], int(e.Octet[4])<<8|int(e.Octet[5])
				}
				if gotUnit != refconv.AmbrUnitCode(unit) || gotVal != v || othUnit != refconv.AmbrUnitCode(ou) || othVal != ov {
					kk := &core.Case{Oracle: "ambr", Target: "nasConvert.ModelsToSessionAMBR", I: []int64{int64(v), int64(v) + 1}}
					sig := "ambr-value"
					if gotUnit != refconv.AmbrUnitCode(unit) || othUnit != refconv.AmbrUnitCode(ou) {
						sig = "ambr-unit"
					}
					c.Fail(kk, sig, fmt.Sprintf("ModelsToSessionAMBR(uplink %q, downlink %q) = %x; want value %d unit code %d in the %s half", a.Uplink, a.Downlink, e.Octet, v, refconv.AmbrUnitCode(unit), []string{"uplink", "downlink"}[dir]))
				}
			}
		}
	}
	c.Eval(n)
	c.Count("ambr_values", k.I[1]-k.I[0])
}

func fmtZone(sec int) string {
	s := "+"
	if sec < 0 {
		s, sec = "-", -sec
	}
	return fmt.Sprintf("%s%02d:%02d", s, sec/3600, sec%3600/60)
}

// oracle "zones": all 159 quarter-hour zones × DST {none,+1,+2}
func c17Zones(c *core.Ctx, k *core.Case) {
	var n int64
	for q := -79; q <= 79; q++ {
		for dst := 0; dst <= 2; dst++ {
			zone := q * 900
			text := fmtZone(zone)
			if q == 0 && dst == 0 {
				// both spellings of zero
				for _, t0 := range []string{"+00:00", "-00:00"} {
					e := nasConvert.EncodeLocalTimeZoneToNas(t0)
					if refconv.TimeZoneDecode(e.Octet) != 0 {
						c.Fail(&core.Case{Oracle: "zone-one", Target: "nasConvert.EncodeLocalTimeZoneToNas", S: []string{t0}}, "zone:"+t0, fmt.Sprintf("%q encodes as %#02x = %d s", t0, e.Octet, refconv.TimeZoneDecode(e.Octet)))
					}
				}
			}
			if dst > 0 {
				text += fmt.Sprintf("+%d", dst)
			}
			sum := zone + dst*3600
			if sum > 79*900 || sum < -79*900 {
				continue
			}
			n++
			c.NonTrivial(core.HashU64(55, uint64((q+100)*4+dst)))
			c17ZoneOne(c, &core.Case{Oracle: "zone-one", Target: "nasConvert.EncodeLocalTimeZoneToNas", S: []string{text}, I: []int64{int64(sum)}})
		}
	}
	c.Eval(n)
	c.Count("zone_combinations", n)
}

// oracle "zone-one": S=[text] I=[expected total offset in seconds]
func c17ZoneOne(c *core.Ctx, k *core.Case) {
	text := k.S[0]
	if len(k.I) == 0 {
		return
	}
	sum := int(k.I[0])
	e := nasConvert.EncodeLocalTimeZoneToNas(text)
	got := refconv.TimeZoneDecode(e.Octet)
	if got != sum {
		c.Fail(k, "zone:"+text, fmt.Sprintf("EncodeLocalTimeZoneToNas(%q) = %#02x, which is %s; zone plus daylight saving is %s", text, e.Octet, fmtZone(got), fmtZone(sum)))
		return
	}
	if d := nasConvert.DecodeLocalTimeZone(e); d != fmtZone(sum) && !(sum == 0 && (d == "+00:00" || d == "-00:00")) {
		c.Fail(k, "zone-decode:"+text, fmt.Sprintf("DecodeLocalTimeZone(%#02x) = %q, want %q", e.Octet, d, fmtZone(sum)))
	}
	// daylight saving element
	de := nasConvert.EncodeDaylightSavingTimeToNas(text)
	want := ""
	wantV := uint8(0)
	if len(text) > 6 {
		want = text[6:]
		wantV = text[7] - '0'
	}
	if de.Getvalue() != wantV || de.GetLen() != 1 || nasConvert.DecodeDaylightSavingTime(de) != want {
		c.Fail(k, "dst:"+want, fmt.Sprintf("EncodeDaylightSavingTimeToNas(%q) = Len %d value %d, decodes to %q; want %q", text, de.GetLen(), de.Getvalue(), nasConvert.DecodeDaylightSavingTime(de), want))
	}
}

var c17Locations = []string{"UTC", "America/New_York", "Europe/London", "Europe/Berlin", "Australia/Lord_Howe", "Atlantic/Azores", "Asia/Kolkata", "Pacific/Chatham", "America/St_Johns", "Pacific/Kiritimati", "Asia/Kathmandu", "America/Sao_Paulo", "Pacific/Marquesas", "Australia/Adelaide", "Antarctica/Troll"}

func c17Loc(i int) *time.Location {
	n := len(c17Locations)
	if i%(n+8) >= n {
		// fixed zones on the quarter-hour grid
		q := []int{-48, -38, -14, -1, 1, 22, 51, 56}[i%(n+8)-n]
		// the NAME of a zone carries no information for the coding: any label, also one
		// that usually goes with another offset
		name := []string{"fixed", "UTC", "GMT", "", "Local", "CST", "Z", "NameIsNotImportant"}[i/(n+8)%8]
		return time.FixedZone(name, q*900)
	}
	l, err := time.LoadLocation(c17Locations[i%(n+8)])
	if err != nil {
		return time.UTC
	}
	return l
}

// c17Stamp judges one instant.
func c17Stamp(c *core.Ctx, k *core.Case, t time.Time) {
	if y := t.Year(); y < 2000 || y > 2099 {
		return // the element carries two digits of the local year
	}
	e := nasConvert.EncodeUniversalTimeAndLocalTimeZoneToNas(t)
	_, off := t.Zone()
	// reference reading of the seven octets
	f := []int{t.Year() % 100, int(t.Month()), t.Day(), t.Hour(), t.Minute(), t.Second()}
	for i, v := range f {
		if refconv.SemiOctetDecode(e.Octet[i]) != v || e.Octet[i] != refconv.SemiOctet(v) {
			c.Fail(k, fmt.Sprintf("timestamp-field-%d", i), fmt.Sprintf("instant %s: octet %d = %#02x, semi-octet BCD of %d is %#02x", t.Format(time.RFC3339), i, e.Octet[i], v, refconv.SemiOctet(v)))
			return
		}
	}
	if off%900 == 0 && refconv.TimeZoneDecode(e.Octet[6]) != off {
		c.Fail(k, "timestamp-zone", fmt.Sprintf("instant %s: zone octet %#02x = %s, offset is %s", t.Format(time.RFC3339), e.Octet[6], fmtZone(refconv.TimeZoneDecode(e.Octet[6])), fmtZone(off)))
		return
	}
	d := nasConvert.DecodeUniversalTimeAndLocalTimeZone(e)
	_, doff := d.Zone()
	if !d.Equal(t.Truncate(time.Second)) || (off%900 == 0 && doff != off) {
		c.Fail(k, "timestamp-roundtrip", fmt.Sprintf("instant %s decodes to %s (octets %x)", t.Format(time.RFC3339), d.Format(time.RFC3339), e.Octet))
	}
}

// oracle "stamps-day": I=[unix start of a UTC day, location index] — every second of that day
func c17StampsDay(c *core.Ctx, k *core.Case) {
	loc := c17Loc(int(k.I[1]))
	for s := int64(0); s < 86400; s++ {
		c17Stamp(c, k, time.Unix(k.I[0]+s, 0).In(loc))
	}
	c.Eval(86400)
	c.Count("stamp_instants", 86400)
}

// oracle "stamps-hourly": I=[year, location index] — one instant per hour of that year (odd second offsets)
func c17StampsHourly(c *core.Ctx, k *core.Case) {
	if len(k.I) > 2 && k.I[2] > 0 {
		// the zone of the PROCESS (TZ / /etc/localtime, i.e. time.Local) is a fact of the host the
		// library runs on; what a time stamp decodes to must not depend on it
		old := time.Local
		switch k.I[2] {
		case 1:
			time.Local = time.FixedZone("host+08", 8*3600)
		case 2:
			time.Local = time.FixedZone("host-0330", -(3*3600 + 1800))
		default:
			if l, err := time.LoadLocation("Europe/Berlin"); err == nil {
				time.Local = l
			}
		}
		defer func() { time.Local = old }()
		c.Cover("process_zone", fmt.Sprint(k.I[2]))
	}
	loc := c17Loc(int(k.I[1]))
	start := time.Date(int(k.I[0]), 1, 1, 0, 0, 0, 0, time.UTC).Unix()
	end := time.Date(int(k.I[0])+1, 1, 1, 0, 0, 0, 0, time.UTC).Unix()
	var n int64
	for s := start; s < end; s += 3600 {
		// instants between the seconds: the element carries whole seconds, the rest is dropped
		c17Stamp(c, k, time.Unix(s+(s/3600*37)%3600, (s/3600*7919%1000)*1000000+999).In(loc))
		n++
	}
	c.Eval(n)
	c.Count("stamp_instants", n)
}

const gsm7Plain = "ABCDEFGHIJKLMNOPQRSTUVWXYZabcdefghijklmnopqrstuvwxyz0123456789 !\"#%&'()*+,-./:;<=>?"

// oracle "name": S=[name] I=[short(0/1)]
func c17Name(c *core.Ctx, k *core.Case) {
	name := k.S[0]
	n := len(name)
	var ln int
	var buf []byte
	var ext, cs, ci, spare uint8
	if k.I[0] == 0 {
		e := nasConvert.FullNetworkNameToNas(name)
		ln, buf, ext, cs, ci, spare = int(e.GetLen()), e.Buffer, e.GetExt(), e.GetCodingScheme(), e.GetAddCI(), e.GetNumberOfSpareBitsInLastOctet()
	} else {
		e := nasConvert.ShortNetworkNameToNas(name)
		ln, buf, ext, cs, ci, spare = int(e.GetLen()), e.Buffer, e.GetExt(), e.GetCodingScheme(), e.GetAddCI(), e.GetNumberOfSpareBitsInLastOctet()
	}
	c.Eval(1)
	if _, owned := ownedTwice(func() []byte {
		if k.I[0] == 0 {
			return nasConvert.FullNetworkNameToNas(name).Buffer
		}
		return nasConvert.ShortNetworkNameToNas(name).Buffer
	}); owned != "" {
		c.Fail(k, "result-not-owned:NetworkNameToNas", owned)
	}
	c.Hold(k, "nasConvert.NetworkNameToNas", buf)
	which := []string{"Full", "Short"}[k.I[0]]
	wantText := (7*n + 7) / 8
	wantSpare := (8 - 7*n%8) % 8
	if len(buf) != 1+wantText || ln != len(buf) {
		c.Fail(k, fmt.Sprintf("name-length:%s", which), fmt.Sprintf("%sNetworkNameToNas(%q): Len %d, buffer %x; %d characters pack into %d octets (+1 header)", which, name, ln, buf, n, wantText))
		return
	}
	if ext != 1 || cs != 0 || ci != 0 {
		c.Fail(k, fmt.Sprintf("name-header:%s", which), fmt.Sprintf("ext %d coding scheme %d add CI %d", ext, cs, ci))
	}
	if int(spare) != wantSpare {
		c.Fail(k, fmt.Sprintf("name-spare-bits:%s", which), fmt.Sprintf("%d characters: spare bits %d, want %d", n, spare, wantSpare))
	}
	if got := refconv.Gsm7Unpack(buf[1:], n); string(got) != name {
		c.Fail(k, fmt.Sprintf("name-text:%s", which), fmt.Sprintf("%sNetworkNameToNas(%q): text string %x unpacks (GSM 7-bit) to %q", which, name, buf[1:], got))
	}
}

func init() {
	p := &core.Property{
		ID:         "C17",
		Interleave: []string{"zone-one", "name"},
		Rule:       "GPRS timer 3: every t in 0..1 116 000 s; GPRS timer 2: every t in 0..11 160 s (decode <= t always, = t when representable); session AMBR: all 65 536 values × 5 units × 2 directions with a different value/unit in the other direction; time zones: all 159 quarter-hour zones × DST {none,+1,+2} whose sum stays within ±19:45, plus the DST element; time stamps: every second of sampled days and one instant per hour over 2000–2099 in fixed and tz-database zones (local year 2000–2099), octets compared with semi-octet BCD and decode(encode) = same instant and offset; network names: every length 0..64 over characters whose GSM-7 code equals their ASCII code, full and short. Non-trivial = every enumerated value (each is compared with an independent decoder); distinct by value.",
		Assumptions: []string{
			"TS 24.008 GPRS timer 2/3 tables, TS 24.501 Table 9.11.4.14.1 unit codes, TS 23.040 semi-octet and time-zone coding, TS 23.038 7-bit packing — all written in /verif",
			"the time stamp element carries the local calendar time plus zone (as the library emits and reads it); only local years 2000–2099 are in the domain",
			"tz database embedded through time/tzdata",
		},
		Oracles: map[string]func(*core.Ctx, *core.Case){"cold-entries": coldEntries, "cold-concurrent": coldConcurrent, "timer3": c17Timer3, "timer2": c17Timer2, "ambr": c17Ambr, "zones": c17Zones, "zone-one": c17ZoneOne, "stamps-day": c17StampsDay, "stamps-hourly": c17StampsHourly, "name": c17Name},
		Exhaustive: func(tier string) (bool, string) {
			return true, "both timer ranges, all AMBR value×unit×direction combinations, all zone×DST combinations, all name lengths 0..64; time stamps sampled (thorough: hourly over the whole century)"
		},
		Floors: func(tier string, cov map[string]map[string]int64, cnt map[string]int64) []string {
			var f []string
			if cnt["timer3_values"] != 1116001 || cnt["timer2_values"] != 11161 {
				f = append(f, fmt.Sprintf("timer ranges incomplete: %d / %d", cnt["timer3_values"], cnt["timer2_values"]))
			}
			if cnt["timer3_representable"] < 150 || cnt["timer2_representable"] < 60 {
				f = append(f, "too few representable durations seen")
			}
			if cnt["ambr_values"] != 65536 {
				f = append(f, fmt.Sprintf("%d of 65536 AMBR values", cnt["ambr_values"]))
			}
			if cnt["zone_combinations"] < 455 {
				f = append(f, fmt.Sprintf("%d zone combinations", cnt["zone_combinations"]))
			}
			if cnt["stamp_instants"] == 0 {
				f = append(f, "no time stamps")
			}
			for n := 0; n <= 64; n++ {
				if cov["name_len"][fmt.Sprint(n)] == 0 {
					f = append(f, fmt.Sprintf("no name of %d characters", n))
				}
			}
			return f
		},
	}
	p.Units = func(tier string) []core.Unit {
		var us []core.Unit
		for lo := 0; lo <= 1116000; lo += 40000 {
			lo := lo
			hi := lo + 40000
			if hi > 1116001 {
				hi = 1116001
			}
			us = append(us, core.Unit{Name: fmt.Sprintf("timer3-%07d", lo), Weight: 10, Run: func(c *core.Ctx) {
				c.Do(&core.Case{Oracle: "timer3", Target: "nasConvert.GPRSTimer3ToNas", I: []int64{int64(lo), int64(hi)}})
				c.NonTrivial(core.HashU64(3, uint64(lo)))
			}})
		}
		us = append(us, core.Unit{Name: "timer2", Weight: 5, Run: func(c *core.Ctx) {
			c.Do(&core.Case{Oracle: "timer2", Target: "nasConvert.GPRSTimer2ToNas", I: []int64{0, 11161}})
			c.NonTrivial(core.HashU64(2, 0))
		}})
		for lo := 0; lo < 65536; lo += 2048 {
			lo := lo
			us = append(us, core.Unit{Name: fmt.Sprintf("ambr-%05d", lo), Weight: 40, Run: func(c *core.Ctx) {
				c.Do(&core.Case{Oracle: "ambr", Target: "nasConvert.ModelsToSessionAMBR", I: []int64{int64(lo), int64(lo + 2048)}})
				c.NonTrivial(core.HashU64(4, uint64(lo)))
				c.Sample(map[string]interface{}{"oracle": "ambr", "values": []int{lo, lo + 2047}, "units": ambrUnits, "directions": 2})
			}})
		}
		us = append(us, core.Unit{Name: "zones", Weight: 5, Run: func(c *core.Ctx) {
			c.Do(&core.Case{Oracle: "zones", Target: "nasConvert.EncodeLocalTimeZoneToNas"})
			c.NonTrivial(core.HashU64(5, 0))
		}})
		nDays := 64
		if tier != "thorough" {
			nDays = 16
		}
		for d := 0; d < nDays; d++ {
			d := d
			us = append(us, core.Unit{Name: fmt.Sprintf("stamps-day-%02d", d), Weight: 40, Run: func(c *core.Ctx) {
				// days spread over the century, including its edges and DST switch dates
				day := []int64{946684800, 4102358400, 1710032400 - 1710032400%86400, 1698541200 - 1698541200%86400, 951782400, 1078012800}[d%6]
				if d >= 6 {
					day = 946684800 + int64(c.R.Intn(36524))*86400
				}
				k := &core.Case{Oracle: "stamps-day", Target: "nasConvert.EncodeUniversalTimeAndLocalTimeZoneToNas", I: []int64{day, int64(d)}}
				c.Do(k)
				c.NonTrivial(k.Hash())
				c.Sample(k.Brief())
			}})
		}
		for y := 2000; y <= 2099; y++ {
			y := y
			if tier != "thorough" && y%5 != 0 {
				continue
			}
			us = append(us, core.Unit{Name: fmt.Sprintf("stamps-hourly-%d", y), Weight: 10, Run: func(c *core.Ctx) {
				for li := 0; li < c.Pick(3, 22); li++ {
					k := &core.Case{Oracle: "stamps-hourly", Target: "nasConvert.EncodeUniversalTimeAndLocalTimeZoneToNas", I: []int64{int64(y), int64(y + li*7)}}
					c.Do(k)
					c.NonTrivial(k.Hash())
				}
			}})
		}
		us = append(us, core.Unit{Name: "process-local-zone", Weight: 20, Run: func(c *core.Ctx) {
			for z := int64(1); z <= 3; z++ {
				for _, y := range []int64{2000, 2023, 2099} {
					for _, li := range []int64{0, 1, 3, 4, 14} { // UTC first: the encoded zone octet is then 0
						k := &core.Case{Oracle: "stamps-hourly", Target: "nasConvert.DecodeUniversalTimeAndLocalTimeZone", I: []int64{y, li, z}}
						c.Do(k)
						c.NonTrivial(k.Hash())
					}
				}
			}
		}})
		us = append(us, core.Unit{Name: "names", Weight: 10, Run: func(c *core.Ctx) {
			for n := 0; n <= 64; n++ {
				for rep := 0; rep < c.Pick(6, 200); rep++ {
					b := make([]byte, n)
					for i := range b {
						switch rep {
						case 0:
							b[i] = gsm7Plain[i%len(gsm7Plain)]
						case 1:
							b[i] = 'z'
						default:
							b[i] = gsm7Plain[c.R.Intn(len(gsm7Plain))]
						}
					}
					k := &core.Case{Oracle: "name", Target: "nasConvert.FullNetworkNameToNas", S: []string{string(b)}, I: []int64{int64(rep % 2)}}
					if rep%2 == 1 {
						k.Target = "nasConvert.ShortNetworkNameToNas"
					}
					c.Do(k)
					c.Cover("name_len", fmt.Sprint(n))
					c.NonTrivial(k.Hash())
				}
			}
		}})
		us = append(us, coldUnits(tier, "nasConvert", "misc", "zones")...)
		us = append(us, coldEntryUnits(tier, "nasConvert", "misc")...)
		return us
	}
	core.Register(p)
}
