package monitor

import (
	"bytes"
	"fmt"
	"reflect"

	"github.com/free5gc/nas"

	"verifharness/internal/core"
	"verifharness/internal/prng"
	"verifharness/internal/refcodec"
)

// Receiver / buffer reuse histories (C03 "receive-buffer", C10 "decode-reuse").
//
// What a receive loop does: ONE nas.Message and ONE buffer, PDU after PDU. The
// per-PDU oracles of C03/C10 use a fresh Message and a fresh slice for every
// input, so state that survives in the receiver, memoisation keyed by the
// caller's slice, and bodies recycled between decodes are invisible to them.
// Here a sequence of PDUs goes through one Message; after every decode the
// reused receiver must equal a fresh decode of the same octets, re-encode to
// the same octets as the fresh one, and the bodies handed out by earlier
// decodes must not have changed.
//
// I = [seed, n, mode (bit 0: one receive buffer overwritten in place, bit 1: PlainNasDecode only)], S = [message name]
func reuseSequence(c *core.Ctx, k *core.Case, exact bool) {
	sp := mustSpec(c)
	if sp == nil {
		return
	}
	def := sp.Msg(k.S[0])
	if def == nil || def.MsgType == nil {
		return
	}
	r := prng.New(uint64(k.I[0]))
	all := dispatchable(sp)
	rx := nas.NewMessage()
	buf := make([]byte, 0, 1<<12)
	var pl *refcodec.Plan
	var seq []string
	type held struct {
		obj  interface{}
		fp   uint64
		step int
		name string
	}
	var earlier []held
	for i := 0; i < int(k.I[1]); i++ {
		d := def
		switch x := r.Intn(10); {
		case pl != nil && x < 4:
			// same structure and length as the previous PDU, fresh element contents
			hl := pl.Def.HeaderLen()
			for j := range pl.Mand {
				if pl.Mand[j].Slot >= hl && pl.Def.Slots[pl.Mand[j].Slot].LenSize() > 0 {
					pl.Mand[j].Val = r.Bytes(len(pl.Mand[j].Val))
				}
			}
			for j := range pl.Opt {
				if pl.Def.Slots[pl.Opt[j].Slot].Format != "TV1" {
					pl.Opt[j].Val = r.Bytes(len(pl.Opt[j].Val))
				}
			}
			d = pl.Def
		case x < 8:
			pl = refcodec.RandomPlan(def, r, []int{0, 1, 2, 4, 5, 5, 5}[r.Intn(7)], r.Intn(5))
		default:
			d = all[r.Intn(len(all))]
			pl = refcodec.RandomPlan(d, r, r.Intn(6), r.Intn(5))
		}
		b := pl.Bytes()
		canon := pl.Canonical()
		seq = append(seq, fmt.Sprintf("%s/%d", d.Name, len(b)))
		var in []byte
		if k.I[2]&1 == 1 && len(b) <= cap(buf) {
			buf = buf[:len(b)]
			copy(buf, b) // the receive buffer is overwritten in place
			in = buf
		} else {
			in = cloneB(b)
		}
		ep := r.Intn(2)
		if k.I[2]&2 != 0 {
			ep = 0
		}
		var err error
		switch {
		case ep == 0:
			err = rx.PlainNasDecode(&in)
		case d.Family == "GSM":
			err = rx.GsmMessageDecode(&in)
		default:
			err = rx.GmmMessageDecode(&in)
		}
		c.Eval(1)
		// the comparison decode goes through the family entry point, so that
		// nothing but the receiver under test passes through PlainNasDecode
		fresh := nas.NewMessage()
		in2 := cloneB(b)
		var ferr error
		if d.Family == "GSM" {
			ferr = fresh.GsmMessageDecode(&in2)
		} else {
			ferr = fresh.GmmMessageDecode(&in2)
		}
		if (err == nil) != (ferr == nil) {
			c.Fail(k, "reuse-changes-verdict:"+d.Name, fmt.Sprintf("step %d of %v: a reused Message gives err=%v, a fresh one err=%v (PDU %s)", i, seq, err, ferr, hx(b)))
			return
		}
		for _, e := range earlier {
			if fingerprint(reflect.ValueOf(e.obj)) != e.fp {
				c.Fail(k, "earlier-decoded-value-changed:"+e.name, fmt.Sprintf("the %s body handed out by step %d changed while step %d decoded into the same Message (sequence %v)", e.name, e.step, i, seq))
				return
			}
		}
		if err != nil {
			continue
		}
		if !reflect.DeepEqual(rx, fresh) {
			_, _, o1 := bodyPointers(rx)
			_, _, o2 := bodyPointers(fresh)
			where := "?"
			if o1 != nil && o2 != nil && reflect.TypeOf(o1) == reflect.TypeOf(o2) {
				where = firstDiff(d, o1, o2)
			}
			c.Fail(k, "reused-message-differs-from-fresh:"+d.Name, fmt.Sprintf("step %d of %v: decoding %s into the reused Message differs from a fresh decode at %s", i, seq, hx(b), where))
			return
		}
		out, eerr := rx.PlainNasEncode()
		fout, ferr2 := fresh.PlainNasEncode()
		if (eerr == nil) != (ferr2 == nil) || !bytes.Equal(out, fout) {
			c.Fail(k, "reused-message-encodes-differently:"+d.Name, fmt.Sprintf("step %d of %v: re-encoding gives %s (err %v), from a fresh decode %s (err %v)", i, seq, hx(out), eerr, hx(fout), ferr2))
			return
		}
		if exact && canon && eerr == nil && !bytes.Equal(out, b) {
			c.Fail(k, "canonical-not-byte-exact:"+d.Name, fmt.Sprintf("step %d of %v: canonical input %s re-encodes as %s", i, seq, hx(b), hx(out)))
			return
		}
		if _, _, obj := bodyPointers(rx); obj != nil {
			// what a caller keeps of a result: the body, the family container it hangs in
			// (exported pointers rx.GmmMessage / rx.GsmMessage), or a value copy of the Message
			kept := *rx
			earlier = append(earlier, held{&kept, fingerprint(reflect.ValueOf(&kept)), i, d.Name + " (value copy of the Message)"})
			if rx.GmmMessage != nil {
				earlier = append(earlier, held{rx.GmmMessage, fingerprint(reflect.ValueOf(rx.GmmMessage)), i, d.Name + " (GmmMessage pointer)"})
			}
			if rx.GsmMessage != nil {
				earlier = append(earlier, held{rx.GsmMessage, fingerprint(reflect.ValueOf(rx.GsmMessage)), i, d.Name + " (GsmMessage pointer)"})
			}
			earlier = append(earlier, held{obj, fingerprint(reflect.ValueOf(obj)), i, d.Name})
			for len(earlier) > 9 {
				earlier = earlier[1:]
			}
		}
		c.Cover("reuse_message", d.Name)
	}
	c.Count("reuse_sequences", 1)
	if k.I[2]&1 == 1 {
		c.Count("reuse_same_buffer", 1)
	}
}

func c03ReceiveBuffer(c *core.Ctx, k *core.Case) { reuseSequence(c, k, true) }
func c10DecodeReuse(c *core.Ctx, k *core.Case)   { reuseSequence(c, k, false) }

// reuseUnits: one unit per dispatchable message.
func reuseUnits(sp *refcodec.Spec, oracle string, quick, thorough int) []core.Unit {
	var us []core.Unit
	for _, def := range dispatchable(sp) {
		def := def
		us = append(us, core.Unit{Name: "reuse-" + def.Name, Weight: 10, Run: func(c *core.Ctx) {
			for i := 0; i < c.Pick(quick, thorough); i++ {
				k := &core.Case{Oracle: oracle, Target: "nas.Message", S: []string{def.Name}, I: []int64{int64(c.R.Uint64() >> 1), int64(c.R.Range(2, 10)), int64(i % 4)}}
				c.Do(k)
				c.NonTrivial(k.Hash())
			}
		}})
	}
	return us
}
