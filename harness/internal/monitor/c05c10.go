package monitor

import (
	"bytes"
	"fmt"
	"reflect"
	"sync"
	"unsafe"

	nas "github.com/free5gc/nas"

	"verifharness/internal/core"
	"verifharness/internal/prng"
	"verifharness/internal/refcodec"
)

// C05 — dispatch on discriminator and message type is exact.
// C10 — decode and encode are pure.

type c05Table struct {
	gmm, gsm map[int]*refcodec.Msg
}

func c05Types(sp *refcodec.Spec) *c05Table {
	t := &c05Table{gmm: map[int]*refcodec.Msg{}, gsm: map[int]*refcodec.Msg{}}
	for _, d := range dispatchable(sp) {
		if d.Family == "GSM" {
			t.gsm[*d.MsgType] = d
		} else {
			t.gmm[*d.MsgType] = d
		}
	}
	return t
}

// c05Judge checks one decode outcome against the frozen type table.
// mustAccept: the input is header + a minimal valid body of the named type.
func c05Judge(c *core.Ctx, k *core.Case, ep int, b []byte, t *c05Table, mustAccept bool, preset ...uint8) {
	m, err := decode3(cloneB(b), ep)
	if len(preset) > 0 && preset[0] > 0 {
		// the receiver carries the security header its caller recorded for this PDU
		m = nas.NewMessage()
		m.SecurityHeader = nas.SecurityHeader{ProtocolDiscriminator: 0x7e, SecurityHeaderType: preset[0] & 7, MessageAuthenticationCode: 0x01020304, SequenceNumber: preset[0]}
		in := cloneB(b)
		switch ep {
		case epPlain:
			err = m.PlainNasDecode(&in)
		case epGmm:
			err = m.GmmMessageDecode(&in)
		case epGsm:
			err = m.GsmMessageDecode(&in)
		}
		c.Count("decodes_into_receiver_with_recorded_security_header", 1)
	}
	var def *refcodec.Msg
	fam := ""
	switch {
	case ep == epGmm || (ep == epPlain && len(b) > 0 && b[0] == 0x7e):
		fam = "GMM"
		if len(b) >= 3 {
			def = t.gmm[int(b[2])]
		}
	case ep == epGsm || (ep == epPlain && len(b) > 0 && b[0] == 0x2e):
		fam = "GSM"
		if len(b) >= 4 {
			def = t.gsm[int(b[3])]
		}
	}
	hl := 3
	if fam == "GSM" {
		hl = 4
	}
	switch {
	case fam == "":
		if err == nil {
			c.Fail(k, "bad-discriminator-accepted", fmt.Sprintf("%s accepted first octet %#02x (input %s)", epNames[ep], b[0], hx(b)))
		}
		return
	case len(b) < hl:
		if err == nil {
			c.Fail(k, "short-header-accepted:"+epNames[ep], fmt.Sprintf("%s accepted %d octets (input %x)", epNames[ep], len(b), b))
		}
		return
	case def == nil:
		if err == nil {
			c.Fail(k, "unknown-type-accepted:"+fam, fmt.Sprintf("%s accepted unassigned %s message type %d (input %s)", epNames[ep], fam, b[hl-1], hx(b)))
		}
		return
	}
	if err != nil {
		if mustAccept {
			c.Fail(k, "valid-message-rejected:"+def.Name, fmt.Sprintf("%s rejected a minimal valid %s: %v (input %s)", epNames[ep], def.Name, err, hx(b)))
		}
		return
	}
	names, hdr, obj := bodyPointers(m)
	if len(names) != 1 || names[0] != def.Name {
		c.Fail(k, "wrong-body:"+def.Name, fmt.Sprintf("%s on type %d populated %v, expected exactly [%s] (input %s)", epNames[ep], b[hl-1], names, def.Name, hx(b)))
		return
	}
	if (fam == "GMM") != (m.GmmMessage != nil) || (fam == "GSM") != (m.GsmMessage != nil) {
		c.Fail(k, "wrong-family:"+def.Name, fmt.Sprintf("family pointers gmm=%v gsm=%v for %s input", m.GmmMessage != nil, m.GsmMessage != nil, fam))
		return
	}
	// header view == input header == the body's own header octets
	var own []byte
	ov := reflect.ValueOf(obj).Elem()
	for i := 0; i < hl; i++ {
		e := readElem(ov.Field(i))
		own = append(own, e.data...)
	}
	if !bytes.Equal(hdr, b[:hl]) || !bytes.Equal(own[:hl], b[:hl]) {
		c.Fail(k, "header-view:"+def.Name, fmt.Sprintf("input header %x, header view %x, body header octets %x", b[:hl], hdr, own))
	}
	c.Cover("decoded_type", def.Name)
}

// oracle "grid": I=[b0Lo, b0Hi] — every (first octet, type) pair at both header offsets
func c05Grid(c *core.Ctx, k *core.Case) {
	if len(k.I) > 2 && k.I[2]&2 == 2 && c.Scratch["verbose"] == nil { // library logging at Trace level
		c.Scratch["verbose"] = true
		defer delete(c.Scratch, "verbose")
		withVerboseLogging(func() { c05Grid(c, k) })
		return
	}
	sp := mustSpec(c)
	if sp == nil {
		return
	}
	t := c05Types(sp)
	r := prng.New(uint64(k.I[0])*7919 + 17)
	var n int64
	for b0 := int(k.I[0]); b0 < int(k.I[1]); b0++ {
		for mt := 0; mt < 256; mt++ {
			for _, off := range []int{2, 3} {
				hdr := make([]byte, off+1)
				hdr[0] = byte(b0)
				if off == 3 {
					hdr[1], hdr[2] = r.Byte(), r.Byte()
				}
				hdr[off] = byte(mt)
				var inputs [][]byte
				var must []bool
				inputs, must = append(inputs, hdr), append(must, false)
				var def *refcodec.Msg
				if off == 2 {
					def = t.gmm[mt]
				} else {
					def = t.gsm[mt]
				}
				if def != nil {
					body := refcodec.MinimalBody(def, r)
					copy(body, hdr)
					inputs, must = append(inputs, body), append(must, true)
				}
				nr := 4
				if b0 == 0x7e || b0 == 0x2e {
					nr = 16
				}
				for i := 0; i < nr; i++ {
					inputs, must = append(inputs, append(cloneB(hdr), r.Bytes(r.Intn(24))...)), append(must, false)
				}
				for i, in := range inputs {
					for ep := 0; ep < 3; ep++ {
						// a body is "must accept" only through an entry point that routes it to its own family
						ma := must[i] && ((ep == epPlain && in[0] == def.EPD()) || (ep == epGmm && off == 2) || (ep == epGsm && off == 3))
						kk := &core.Case{Oracle: "one", Target: "nas.Message." + epNames[ep], B: [][]byte{in}, I: []int64{int64(ep), b2i(ma)}}
						c.J.Write(kk)
						c05Judge(c, kk, ep, in, t, ma)
						n++
					}
				}
			}
		}
	}
	c.Eval(n)
	if len(k.I) > 2 && k.I[2]&2 == 2 {
		c.Count("grid_pairs_trace_level", (k.I[1]-k.I[0])*256)
	} else {
		c.Count("grid_pairs", (k.I[1]-k.I[0])*256)
	}
}

func b2i(b bool) int64 {
	if b {
		return 1
	}
	return 0
}

// oracle "one": B=[input] I=[entry, mustAccept, (security header type recorded in the receiver)]
func c05One(c *core.Ctx, k *core.Case) {
	sp := mustSpec(c)
	if sp == nil {
		return
	}
	c.Eval(1)
	if len(k.I) > 2 {
		c05Judge(c, k, int(k.I[0]), k.B[0], c05Types(sp), k.I[1] == 1, uint8(k.I[2]))
		return
	}
	c05Judge(c, k, int(k.I[0]), k.B[0], c05Types(sp), k.I[1] == 1)
}

// oracle "short": every input shorter than a header, nil and empty
func c05Short(c *core.Ctx, k *core.Case) {
	if len(k.I) > 0 && k.I[0]&2 == 2 && c.Scratch["verbose"] == nil { // library logging at Trace level
		c.Scratch["verbose"] = true
		defer delete(c.Scratch, "verbose")
		withVerboseLogging(func() { c05Short(c, k) })
		return
	}
	var n int64
	for ep := 0; ep < 3; ep++ {
		m := nas.NewMessage()
		var err error
		// nil pointer and nil slice
		if ep == epPlain {
			err = m.PlainNasDecode(nil)
			n++
			if err == nil {
				c.Fail(k, "nil-accepted", "PlainNasDecode(nil) returned no error")
			}
		}
		var nilSlice []byte
		_, err = decode3(nilSlice, ep)
		n++
		if err == nil {
			c.Fail(k, "empty-accepted:"+epNames[ep], epNames[ep]+" accepted a nil slice")
		}
		_, err = decode3([]byte{}, ep)
		n++
		if err == nil {
			c.Fail(k, "empty-accepted:"+epNames[ep], epNames[ep]+" accepted an empty slice")
		}
		for b0 := 0; b0 < 256; b0++ {
			for _, rest := range [][]byte{{}, {0}, {0x41}, {0, 0}, {0, 0xc1}, {0xff, 0xff}} {
				in := make([]byte, 0, 1+len(rest)) // exactly as much memory as the input has octets
				in = append(append(in, byte(b0)), rest...)
				hl := 3
				if ep == epGsm || (ep == epPlain && b0 == 0x2e) {
					hl = 4
				}
				if len(in) >= hl {
					continue
				}
				_, err := decode3(in, ep)
				n++
				if err == nil {
					kk := &core.Case{Oracle: "one", Target: "nas.Message." + epNames[ep], B: [][]byte{in}, I: []int64{int64(ep), 0}}
					c.Fail(kk, "short-header-accepted:"+epNames[ep], fmt.Sprintf("%s accepted %x", epNames[ep], in))
				}
			}
		}
	}
	c.Eval(n)
	c.Count("short_inputs", n)
}

// oracle "encode": all 256 type values per family, with and without body
func c05Encode(c *core.Ctx, k *core.Case) {
	sp := mustSpec(c)
	if sp == nil {
		return
	}
	t := c05Types(sp)
	r := prng.New(99)
	var n int64
	// no body at all
	m := nas.NewMessage()
	if _, err := m.PlainNasEncode(); err == nil {
		c.Fail(k, "encode-no-body-accepted", "PlainNasEncode of a message with neither 5GMM nor 5GSM part returned no error")
	}
	n++
	for fam := 0; fam < 2; fam++ {
		for mt := 0; mt < 256; mt++ {
			var def *refcodec.Msg
			if fam == 0 {
				def = t.gmm[mt]
			} else {
				def = t.gsm[mt]
			}
			m := nas.NewMessage()
			if def == nil {
				// unknown type, header only
				if fam == 0 {
					m.GmmMessage = nas.NewGmmMessage()
					m.GmmMessage.GmmHeader.Octet = [3]uint8{0x7e, 0, uint8(mt)}
				} else {
					m.GsmMessage = nas.NewGsmMessage()
					m.GsmMessage.GsmHeader.Octet = [4]uint8{0x2e, 1, 1, uint8(mt)}
				}
				var err1, err2 error
				_, err1 = m.PlainNasEncode()
				var buf bytes.Buffer
				if fam == 0 {
					err2 = m.GmmMessageEncode(&buf)
				} else {
					err2 = m.GsmMessageEncode(&buf)
				}
				n += 2
				if err1 == nil || err2 == nil {
					kk := &core.Case{Oracle: "encode", Target: "nas.Message.PlainNasEncode", I: []int64{int64(fam), int64(mt)}}
					c.Fail(kk, "encode-unknown-type-accepted", fmt.Sprintf("encoding family %d with unassigned message type %d returned no error (plain %v, family %v)", fam, mt, err1, err2))
				}
				// the same into a buffer that already holds data (an outer header, an earlier message)
				pre := bytes.NewBuffer([]byte{0x7e, 0x02, 1, 2, 3, 4, 5})
				var err3 error
				if fam == 0 {
					err3 = m.GmmMessageEncode(pre)
				} else {
					err3 = m.GsmMessageEncode(pre)
				}
				n++
				if err3 == nil {
					kk := &core.Case{Oracle: "encode", Target: "nas.Message.PlainNasEncode", I: []int64{int64(fam), int64(mt)}}
					c.Fail(kk, "encode-unknown-type-accepted:behind-data", fmt.Sprintf("encoding family %d with unassigned message type %d into a buffer that already holds 7 octets returned no error (%d octets in the buffer afterwards)", fam, mt, pre.Len()))
				}
				continue
			}
			body := refcodec.MinimalBody(def, r)
			ref := refcodec.Decode(def, body)
			obj, err := buildMsg(def, ref.Fields)
			if err != nil {
				c.Fail(k, "structure:"+def.Name, err.Error())
				continue
			}
			mm, err := wrapMsg(def, obj, body[:def.HeaderLen()])
			if err != nil {
				c.Fail(k, "structure:"+def.Name, err.Error())
				continue
			}
			out, err := mm.PlainNasEncode()
			n++
			if err != nil || !bytes.Equal(out, body) {
				kk := &core.Case{Oracle: "encode", Target: "nas.Message.PlainNasEncode", I: []int64{int64(fam), int64(mt)}}
				c.Fail(kk, "encode-dispatch:"+def.Name, fmt.Sprintf("PlainNasEncode of a minimal %s: err %v, bytes %s, expected %s", def.Name, err, hx(out), hx(body)))
			}
			c.Cover("encoded_type", def.Name)
		}
	}
	c.Eval(n)
}

// oracle "encode-extra": I=[family] — a message whose family part holds, besides the
// body its header names, one more body (what is left from an earlier use of the value,
// including the security-protected container, which has no type of its own), with
// every security header type nibble in the header: the bytes are those of the named
// body alone. The same with a header naming an unassigned type: an error.
func c05EncodeExtra(c *core.Ctx, k *core.Case) {
	sp := mustSpec(c)
	if sp == nil {
		return
	}
	t := c05Types(sp)
	r := prng.New(199)
	fam := int(k.I[0])
	var n int64
	for mt := 0; mt < 256; mt++ {
		def := t.gmm[mt]
		if fam == 1 {
			def = t.gsm[mt]
		}
		var body []byte
		var obj interface{}
		if def != nil {
			body = refcodec.MinimalBody(def, r)
			var err error
			if obj, err = buildMsg(def, refcodec.Decode(def, body).Fields); err != nil {
				continue
			}
		} else if mt%16 != 3 {
			continue
		}
		for sht := 0; sht <= 4; sht++ {
			if fam == 1 && sht > 0 {
				break
			}
			var hdr []byte
			if def != nil {
				hdr = cloneB(body[:def.HeaderLen()])
			} else if fam == 0 {
				hdr = []byte{0x7e, 0, byte(mt)}
			} else {
				hdr = []byte{0x2e, 1, 1, byte(mt)}
			}
			if fam == 0 {
				hdr[1] = hdr[1]&0xf0 | byte(sht)
			}
			m := nas.NewMessage()
			var fv reflect.Value
			if fam == 0 {
				m.GmmMessage = nas.NewGmmMessage()
				copy(m.GmmMessage.GmmHeader.Octet[:], hdr)
				fv = reflect.ValueOf(m.GmmMessage).Elem()
			} else {
				m.GsmMessage = nas.NewGsmMessage()
				copy(m.GsmMessage.GsmHeader.Octet[:], hdr)
				fv = reflect.ValueOf(m.GsmMessage).Elem()
			}
			var want []byte
			if def != nil {
				// the named body carries the same header octets
				ov := reflect.ValueOf(obj).Elem()
				pos := 0
				for i := 0; i < def.HeaderLen() && pos < len(hdr); i++ {
					f := ov.Field(i)
					if f.Kind() == reflect.Struct && f.NumField() == 1 && f.Field(0).Kind() == reflect.Uint8 {
						f.Field(0).SetUint(uint64(hdr[pos]))
						pos++
					}
				}
				fv.FieldByName(def.Name).Set(reflect.ValueOf(obj))
				alone, err := m.PlainNasEncode()
				if err != nil {
					continue
				}
				want = cloneB(alone)
			}
			for fi := 0; fi < fv.NumField(); fi++ {
				f := fv.Field(fi)
				if f.Kind() != reflect.Ptr || (def != nil && fv.Type().Field(fi).Name == def.Name) {
					continue
				}
				if (fi+mt+sht)%4 != 0 && fv.Type().Field(fi).Name != "SecurityProtected5GSNASMessage" {
					continue
				}
				f.Set(reflect.New(f.Type().Elem()))
				got, err := m.PlainNasEncode()
				n++
				extra := fv.Type().Field(fi).Name
				kk := &core.Case{Oracle: "encode-extra", Target: "nas.Message.PlainNasEncode", I: []int64{int64(fam)}}
				switch {
				case def == nil && err == nil:
					c.Fail(kk, "encode-unknown-type-accepted:extra-body", fmt.Sprintf("header % x names an unassigned type, the %s body is set: PlainNasEncode returned %s and no error", hdr, extra, hx(got)))
				case def != nil && (err != nil || !bytes.Equal(got, want)):
					c.Fail(kk, "encode-dispatch-extra-body:"+def.Name, fmt.Sprintf("header % x names %s; with the %s body also set PlainNasEncode gives %s (err %v), with the named body alone %s", hdr, def.Name, extra, hx(got), err, hx(want)))
				}
				f.Set(reflect.Zero(f.Type()))
				c.Cover("extra_body", extra)
			}
		}
	}
	c.Eval(n)
	c.Count("encodes_with_extra_body", n)
}

// oracle "reuse": I=[seed, n] — a sequence of PDUs of both families decoded into ONE
// nas.Message value; after every successful decode exactly one body is populated,
// the one the type octet names, and the message equals a fresh decode.
func c05Reuse(c *core.Ctx, k *core.Case) {
	sp := mustSpec(c)
	if sp == nil {
		return
	}
	r := prng.New(uint64(k.I[0]))
	ds := dispatchable(sp)
	m := nas.NewMessage()
	var seq []string
	for i := 0; i < int(k.I[1]); i++ {
		def := ds[r.Intn(len(ds))]
		b := refcodec.RandomPlan(def, r, r.Intn(6), r.Intn(5)).Bytes()
		seq = append(seq, def.Name)
		in := cloneB(b)
		var err error
		switch ep := r.Intn(2); {
		case ep == 0:
			err = m.PlainNasDecode(&in)
		case def.Family == "GSM":
			err = m.GsmMessageDecode(&in)
		default:
			err = m.GmmMessageDecode(&in)
		}
		c.Eval(1)
		if err != nil {
			c.Fail(k, "valid-message-rejected:"+def.Name, fmt.Sprintf("decode %d of the sequence %v into a reused Message failed: %v", i, seq, err))
			return
		}
		names, _, _ := bodyPointers(m)
		if len(names) != 1 || names[0] != def.Name {
			c.Fail(k, "reused-message-keeps-stale-body", fmt.Sprintf("after decoding %v into one Message value the populated bodies are %v (5GMM part present %v, 5GSM part present %v); exactly [%s] is expected", seq, names, m.GmmMessage != nil, m.GsmMessage != nil, def.Name))
			return
		}
		fresh := nas.NewMessage()
		in2 := cloneB(b)
		if err := fresh.PlainNasDecode(&in2); err != nil || !reflect.DeepEqual(fresh, m) {
			c.Fail(k, "reused-message-differs-from-fresh", fmt.Sprintf("after the sequence %v the reused Message differs from a fresh decode of the last PDU", seq))
			return
		}
		if out, err := m.PlainNasEncode(); err != nil || !bytes.Equal(out, refcodec.Encode(def, refcodec.Decode(def, b).Fields)) {
			c.Fail(k, "reused-message-encodes-wrong-body", fmt.Sprintf("after the sequence %v PlainNasEncode gives %s (err %v)", seq, hx(out), err))
			return
		}
	}
	c.Count("reuse_sequences", 1)
}

func init() {
	p := &core.Property{
		ID:         "C05",
		Interleave: []string{"one"},
		Rule:       "grid: all 256×256 (first octet, message type) pairs with the type at offset 2 and at offset 3, each as a bare header, as header + minimal valid body when the type is assigned, and with 4–16 random bodies, through PlainNasDecode, GmmMessageDecode and GsmMessageDecode; nil, empty and every too-short input; encode for all 256 type values of both families with and without body. Non-trivial = every grid pair (each decides a routing outcome); distinct by (first octet, type, offset).",
		Assumptions: []string{
			"assigned types come from the frozen table spec/messages.json",
			"a header naming a type whose body pointer is nil is a caller error outside the statement (it dereferences nil today); not exercised",
			"the family decoders route on the type octet only; the first octet is judged through PlainNasDecode",
		},
		Oracles: map[string]func(*core.Ctx, *core.Case){"cold-entries": coldEntries, "grid": c05Grid, "one": c05One, "short": c05Short, "encode": c05Encode, "encode-extra": c05EncodeExtra, "reuse": c05Reuse, "cold-concurrent": coldConcurrent},
		Exhaustive: func(tier string) (bool, string) {
			return true, "all 65 536 (first octet, type) pairs at both header offsets; bodies sampled"
		},
	}
	p.Floors = func(tier string, cov map[string]map[string]int64, cnt map[string]int64) []string {
		var f []string
		if cnt["grid_pairs"] != 65536 {
			f = append(f, fmt.Sprintf("grid covered %d of 65536 pairs", cnt["grid_pairs"]))
		}
		sp, err := codecSpec()
		if err != nil {
			return []string{"messages.json unreadable"}
		}
		for _, d := range dispatchable(sp) {
			if cov["decoded_type"][d.Name] == 0 {
				f = append(f, "type never decoded: "+d.Name)
			}
			if cov["encoded_type"][d.Name] == 0 {
				f = append(f, "type never encoded: "+d.Name)
			}
		}
		if cnt["short_inputs"] == 0 {
			f = append(f, "short inputs not run")
		}
		if cnt["reuse_sequences"] == 0 {
			f = append(f, "no reused-Message sequence completed")
		}
		return f
	}
	p.Units = func(tier string) []core.Unit {
		var us []core.Unit
		for b0 := 0; b0 < 256; b0 += 4 {
			b0 := b0
			w := 10
			if b0 == 0x7c || b0 == 0x2c {
				w = 30
			}
			us = append(us, core.Unit{Name: fmt.Sprintf("grid-%02x", b0), Weight: w, Run: func(c *core.Ctx) {
				k := &core.Case{Oracle: "grid", Target: "nas.Message", I: []int64{int64(b0), int64(b0 + 4)}}
				c.Do(k)
				for i := 0; i < 4*256; i++ {
					c.NonTrivial(core.HashU64(0, uint64(b0*256*4+i)))
				}
				c.Sample(map[string]interface{}{"oracle": "grid", "first_octets": []int{b0, b0 + 3}, "types": "0..255", "offsets": []int{2, 3}})
			}})
		}
		for u := 0; u < 4; u++ {
			us = append(us, core.Unit{Name: fmt.Sprintf("reuse-%d", u), Weight: 10, Run: func(c *core.Ctx) {
				for i := 0; i < c.Pick(150, 4000); i++ {
					k := &core.Case{Oracle: "reuse", Target: "nas.Message", I: []int64{int64(c.R.Uint64() >> 1), int64(c.R.Range(2, 8))}}
					c.Do(k)
					c.NonTrivial(k.Hash())
				}
			}})
		}
		us = append(us, coldUnits(tier, "nas.Message", "decode", "encode")...)
		if sp, err := codecSpec(); err == nil {
			// messages with meaningful contents (nested messages at several offsets, EAP, PPP ...)
			// and every security header type nibble in octet 2 of 5GMM messages: routing looks at
			// the first octet and the type octet only
			us = append(us, domainUnits(sp, dispatchable(sp), tier, 30, func(c *core.Ctx, d *domainPDU, i int) {
				if !d.Canon || (i%2 == 1 && !c.Thorough() && d.Kind != "nested-offset") {
					return
				}
				for sht := 0; sht <= 4; sht++ {
					b := d.B
					if sht > 0 {
						if d.Def.Family != "GMM" {
							break
						}
						b = cloneB(d.B)
						b[1] = b[1]&0xf0 | byte(sht)
					}
					ep := int64(epPlain)
					if (i+sht)%3 == 2 {
						ep = epGmm
						if d.Def.Family == "GSM" {
							ep = epGsm
						}
					}
					c.Do(&core.Case{Oracle: "one", Target: "nas.Message." + epNames[ep], B: [][]byte{b}, I: []int64{ep, 1}})
				}
				if d.Def.Family == "GMM" && i%4 == 0 {
					// the message as it travels: behind a security header (type 1..4, MAC, sequence number)
					w := securityWrapped(c.R, d.B, 1+i/4%4)
					c.Do(&core.Case{Oracle: "one", Target: "nas.Message.PlainNasDecode", B: [][]byte{w}, I: []int64{epPlain, 0}})
					// ... into a receiver in which the caller recorded that security header
					c.Do(&core.Case{Oracle: "one", Target: "nas.Message.PlainNasDecode", B: [][]byte{w}, I: []int64{epPlain, 0, int64(w[1])}})
					c.Do(&core.Case{Oracle: "one", Target: "nas.Message.PlainNasDecode", B: [][]byte{d.B}, I: []int64{epPlain, 1, int64(1 + i/4%4)}})
				}
			})...)
		}
		us = append(us, core.Unit{Name: "short", Weight: 5, Run: func(c *core.Ctx) {
			c.Do(&core.Case{Oracle: "short", Target: "nas.Message"})
		}})
		us = append(us, core.Unit{Name: "verbose-logging", Weight: 30, Run: func(c *core.Ctx) {
			// the same routing with the library's logger at Trace level
			c.Do(&core.Case{Oracle: "short", Target: "nas.Message", I: []int64{2}})
			for _, b0 := range []int64{0x7c, 0x2c, 0x00, 0xfc} {
				c.Do(&core.Case{Oracle: "grid", Target: "nas.Message", I: []int64{b0, b0 + 4, 2}})
			}
		}})
		if sp, err := codecSpec(); err == nil {
			// legal messages whose size walks across 2^16: routing depends on two octets only
			us = append(us, bigUnits(dispatchable(sp), tier, 60, func(c *core.Ctx, d *domainPDU, i int) {
				ep := int64(epPlain)
				if i%2 == 1 {
					ep = epGmm
					if d.Def.Family == "GSM" {
						ep = epGsm
					}
				}
				k := &core.Case{Oracle: "one", Target: "nas.Message." + epNames[ep], B: [][]byte{d.B}, I: []int64{ep, 1}}
				c.Do(k)
				if i%4 == 0 {
					c.NonTrivial(k.Hash())
				}
			})...)
		}
		us = append(us, core.Unit{Name: "encode", Weight: 5, Run: func(c *core.Ctx) {
			c.Do(&core.Case{Oracle: "encode", Target: "nas.Message"})
			c.Do(&core.Case{Oracle: "encode-extra", Target: "nas.Message", I: []int64{0}})
			c.Do(&core.Case{Oracle: "encode-extra", Target: "nas.Message", I: []int64{1}})
		}})
		us = append(us, coldEntryUnits(tier, "nas.Message", "codec")...)
		return us
	}
	core.Register(p)
}

// ---- C10 -------------------------------------------------------------------

func sliceRange(v reflect.Value) (lo, hi uintptr) {
	if v.Cap() == 0 {
		return 0, 0
	}
	lo = v.Pointer()
	return lo, lo + uintptr(v.Cap())
}

// securityWrapped puts a security header (type sht, four MAC octets, sequence
// number) in front of a complete plain 5GMM message.
func securityWrapped(r *prng.Rand, plain []byte, sht int) []byte {
	out := []byte{0x7e, byte(sht)}
	out = append(out, r.Bytes(5)...)
	if r.Chance(1, 4) {
		copy(out[2:6], []byte{0, 0, 0, 0}) // null integrity
	}
	return append(out, plain...)
}

// oracle "decode-pure": B=[input] I=[entry]
func c10Decode(c *core.Ctx, k *core.Case) {
	ep := int(k.I[0])
	orig := k.B[0]
	// input with spare capacity so that writes past len would be visible too
	// half of the inputs (by their hash) sit in a slice of exactly their length, the others
	// have 16 guarded octets of spare capacity: a write "behind the input" lands in the guard,
	// and a buffer that cannot grow in place behaves differently from one that can
	extra := 16
	if core.HashBytes(0x10, orig)&1 == 1 {
		extra = 0
	}
	backing := make([]byte, len(orig), len(orig)+extra)
	copy(backing, orig)
	for i := len(orig); i < cap(backing); i++ {
		backing[:cap(backing)][i] = 0xa5
	}
	in := backing
	m := nas.NewMessage()
	var err error
	switch ep {
	case epPlain:
		err = m.PlainNasDecode(&in)
	case epGmm:
		err = m.GmmMessageDecode(&in)
	case epGsm:
		err = m.GsmMessageDecode(&in)
	}
	c.Eval(1)
	if len(in) != len(orig) || cap(in) != cap(backing) || (len(in) > 0 && &in[0] != &backing[0]) {
		c.Fail(k, "input-slice-header-changed:"+epNames[ep], fmt.Sprintf("the caller's slice was re-sliced: len %d->%d cap %d->%d", len(orig), len(in), cap(backing), cap(in)))
	}
	if !bytes.Equal(backing, orig) {
		c.Fail(k, "input-mutated:"+epNames[ep], fmt.Sprintf("input changed by decode: %s -> %s", hx(orig), hx(backing)))
	}
	for _, x := range backing[:cap(backing)][len(orig):] {
		if x != 0xa5 {
			c.Fail(k, "input-capacity-written:"+epNames[ep], "decode wrote into the spare capacity of the input slice")
			break
		}
	}
	// determinism
	in2 := cloneB(orig)
	m2 := nas.NewMessage()
	var err2 error
	switch ep {
	case epPlain:
		err2 = m2.PlainNasDecode(&in2)
	case epGmm:
		err2 = m2.GmmMessageDecode(&in2)
	case epGsm:
		err2 = m2.GsmMessageDecode(&in2)
	}
	if (err == nil) != (err2 == nil) || (err != nil && err.Error() != err2.Error()) || !reflect.DeepEqual(m, m2) {
		c.Fail(k, "decode-nondeterministic:"+epNames[ep], fmt.Sprintf("two decodes of %s differ: err %v / %v", hx(orig), err, err2))
	}
	if err != nil {
		c.Count("rejected", 1)
		return
	}
	c.Count("accepted", 1)
	// aliasing: no byte slice of the message may live inside the input's backing array
	ilo, ihi := uintptr(unsafe.Pointer(&backing[:1][0])), uintptr(0)
	ihi = ilo + uintptr(cap(backing))
	nsl := 0
	walkBytes(reflect.ValueOf(m), func(v reflect.Value) {
		nsl++
		lo, hi := sliceRange(v)
		if hi > lo && lo < ihi && ilo < hi {
			c.Fail(k, "message-aliases-input:"+epNames[ep], fmt.Sprintf("a %d-octet buffer of the decoded message shares memory with the input", v.Len()))
		}
	})
	c.Count("message_buffers_checked", int64(nsl))
	// mutation probes both ways
	snap := deepCopy(reflect.ValueOf(m)).Interface()
	for i := range backing {
		backing[i] ^= 0xff
	}
	if !reflect.DeepEqual(m, snap) {
		c.Fail(k, "message-follows-input:"+epNames[ep], "flipping every input octet after decode changed the decoded message")
	}
	for i := range backing {
		backing[i] ^= 0xff
	}
	walkBytes(reflect.ValueOf(m), func(v reflect.Value) {
		b := v.Bytes()
		for i := range b {
			b[i] ^= 0xff
		}
	})
	if !bytes.Equal(backing, orig) {
		c.Fail(k, "input-follows-message:"+epNames[ep], "flipping every octet of the decoded message changed the input")
	}
	// what the decoded message owns: appending to any of its buffers must not reach another one
	if ch, _ := appendProbe(reflect.ValueOf(m)); ch {
		c.Fail(k, "decoded-slices-share-capacity:"+epNames[ep], fmt.Sprintf("appending to one buffer of the message decoded from %s changed another part of the message", hx(orig)))
	}
	// what n octets decode to depends on those n octets only, not on the memory behind them
	if len(orig) <= 4096 && !capacityIndependent(orig, func(b []byte) uint64 {
		mm := nas.NewMessage()
		var e error
		switch ep {
		case epPlain:
			e = mm.PlainNasDecode(&b)
		case epGmm:
			e = mm.GmmMessageDecode(&b)
		default:
			e = mm.GsmMessageDecode(&b)
		}
		return digestOf(e, mm)
	}) {
		c.Fail(k, "decode-depends-on-capacity:"+epNames[ep], fmt.Sprintf("the %d octets %s decode differently from a slice of exactly that capacity and from the prefix of a larger array", len(orig), hx(orig)))
	}
	// the decoded message is the caller's: overwrite every scalar in it, then the
	// same octets must still decode to what they decoded to before. A decoder that
	// hands out pointers into package state (preallocated values, caches) fails here.
	scribbleAll(reflect.ValueOf(m), 0)
	in3 := cloneB(orig)
	m3 := nas.NewMessage()
	var err3 error
	switch ep {
	case epPlain:
		err3 = m3.PlainNasDecode(&in3)
	case epGmm:
		err3 = m3.GmmMessageDecode(&in3)
	case epGsm:
		err3 = m3.GsmMessageDecode(&in3)
	}
	if err3 != nil || !reflect.DeepEqual(m3, snap) {
		where := "?"
		if names, _, o3 := bodyPointers(m3); len(names) == 1 && o3 != nil {
			if _, _, os := bodyPointers(snap.(*nas.Message)); os != nil && reflect.TypeOf(os) == reflect.TypeOf(o3) {
				if sp, _ := codecSpec(); sp != nil && sp.Msg(names[0]) != nil {
					where = names[0] + "." + firstDiff(sp.Msg(names[0]), os, o3)
				}
			}
		}
		c.Fail(k, "decode-depends-on-earlier-result:"+where, fmt.Sprintf("after every field of an earlier decoded message was overwritten, decoding %s again gives a different message at %s (err %v): decoded values share memory with package state", hx(orig), where, err3))
	}
}

// oracle "encode-pure": S=[msg] B=[well-formed plan bytes, prefill] I=[spare, path]
func c10Encode(c *core.Ctx, k *core.Case) {
	sp := mustSpec(c)
	if sp == nil {
		return
	}
	def := sp.Msg(k.S[0])
	ref := refcodec.Decode(def, k.B[0])
	if !ref.OK {
		c.Inconclusive("harness: encode-pure case is not a well-formed plan")
		return
	}
	obj, err := buildMsg(def, ref.Fields)
	if err != nil {
		c.Fail(k, "structure:"+def.Name, err.Error())
		return
	}
	pre := k.B[1]
	spare := int(k.I[0])
	c.Eval(1)
	encodeInto := func(buf *bytes.Buffer) error {
		if k.I[1] == 1 && def.MsgType != nil {
			m, err := wrapMsg(def, obj, k.B[0][:def.HeaderLen()])
			if err != nil {
				return err
			}
			if def.Family == "GSM" {
				return m.GsmMessageEncode(buf)
			}
			return m.GmmMessageEncode(buf)
		}
		return msgEncoder(obj, def.Name)(buf)
	}
	// half of the messages (by their hash) have their octet strings in windows of one
	// array with spare capacity: only appending to the SUPPLIED buffer is allowed
	guards := func() string { return "" }
	if core.HashBytes(0x11, k.B[0])&1 == 1 {
		guards = rehouse(reflect.ValueOf(obj))
		c.Count("encodes_of_rehoused_messages", 1)
	}
	snap := deepCopy(reflect.ValueOf(obj)).Interface()
	var empty bytes.Buffer
	if err := encodeInto(&empty); err != nil {
		c.Fail(k, "encode-error:"+def.Name, err.Error())
		return
	}
	want := cloneB(empty.Bytes())
	if g := guards(); g != "" {
		c.Fail(k, "encode-writes-behind-message-field:"+def.Name, g)
	}
	if !reflect.DeepEqual(obj, snap) {
		c.Fail(k, "encode-mutates-message:"+def.Name+"."+firstDiff(def, snap, obj), "message differs from its deep snapshot after encode")
	}
	back := make([]byte, len(pre), len(pre)+spare)
	copy(back, pre)
	buf := bytes.NewBuffer(back)
	if err := encodeInto(buf); err != nil {
		c.Fail(k, "encode-error:"+def.Name, err.Error())
		return
	}
	out := buf.Bytes()
	if len(out) < len(pre) || !bytes.Equal(out[:len(pre)], pre) {
		c.Fail(k, "encode-overwrites-buffer:"+def.Name, fmt.Sprintf("the %d octets already in the buffer changed", len(pre)))
		return
	}
	if !bytes.Equal(out[len(pre):], want) {
		c.Fail(k, "encode-depends-on-buffer:"+def.Name, fmt.Sprintf("appended bytes differ from an encode into an empty buffer: %s vs %s", hx(out[len(pre):]), hx(want)))
	}
	if !reflect.DeepEqual(obj, snap) {
		c.Fail(k, "encode-mutates-message:"+def.Name+"."+firstDiff(def, snap, obj), "message differs from its deep snapshot after the second encode")
	}
	if g := guards(); g != "" {
		c.Fail(k, "encode-writes-behind-message-field:"+def.Name, g)
	}
	// the slice PlainNasEncode returns must not share memory with the message either
	if def.MsgType != nil {
		if m, err := wrapMsg(def, obj, k.B[0][:def.HeaderLen()]); err == nil {
			if res, err := m.PlainNasEncode(); err == nil {
				snapRes := cloneB(res)
				// a later encode of another message must not change this result
				if prev, ok := c.Scratch["c10prev"].([]byte); ok {
					if ps, _ := c.Scratch["c10prevSnap"].([]byte); !bytes.Equal(prev, ps) {
						c.Fail(k, "earlier-result-changed:PlainNasEncode", fmt.Sprintf("the bytes returned by an earlier PlainNasEncode changed after this encode: %s -> %s", hx(ps), hx(prev)))
					}
				}
				if r2, err := m.PlainNasEncode(); err == nil {
					c.Scratch["c10prev"], c.Scratch["c10prevSnap"] = r2, cloneB(r2)
				}
				flip := func() {
					walkBytes(reflect.ValueOf(obj), func(v reflect.Value) {
						b := v.Bytes()
						for i := range b {
							b[i] ^= 0xff
						}
					})
				}
				flip()
				if !bytes.Equal(res, snapRes) {
					c.Fail(k, "encoded-bytes-alias-message:"+def.Name, "mutating the message after PlainNasEncode changed the returned bytes")
				}
				flip()
				for i := range res {
					res[i] ^= 0xff
				}
				if !reflect.DeepEqual(obj, snap) {
					c.Fail(k, "encoded-bytes-alias-message:"+def.Name, "mutating the bytes returned by PlainNasEncode changed the message")
				}
			}
		}
	}
	// the message must not share memory with the produced bytes
	walkBytes(reflect.ValueOf(obj), func(v reflect.Value) {
		b := v.Bytes()
		for i := range b {
			b[i] ^= 0xff
		}
	})
	if !bytes.Equal(buf.Bytes()[len(pre):], want) {
		c.Fail(k, "encoded-bytes-alias-message:"+def.Name, "mutating the message after encode changed the bytes in the buffer")
	}
}

// oracle "decode-concurrent": S=[msg] I=[seed, goroutines, repetitions] — "deterministic
// function of its arguments" probed under concurrency: G goroutines each decode
// their OWN input of the same message type over and over and compare with the
// result of a sequential decode. A decoder that parks intermediate data in
// package-level scratch memory returns another goroutine's octets now and then.
// (Sampled schedules; the race detector is C19's instrument, not used here.)
func c10DecodeConcurrent(c *core.Ctx, k *core.Case) {
	sp := mustSpec(c)
	if sp == nil {
		return
	}
	def := sp.Msg(k.S[0])
	r := prng.New(uint64(k.I[0]))
	G, reps := int(k.I[1]), raceScale(int(k.I[2]))
	inputs := make([][]byte, G)
	want := make([]interface{}, G)
	for g := range inputs {
		inputs[g] = refcodec.RandomPlan(def, r, 1+g%5, 3).Bytes()
		obj := newMsgObj(def.Name)
		in := cloneB(inputs[g])
		if err := msgDecoder(obj, def.Name)(&in); err != nil {
			c.Inconclusive("harness: a well-formed plan does not decode: " + err.Error())
			return
		}
		want[g] = obj
	}
	// rejected inputs are part of the traffic: for every worker up to eight variants of its
	// input with one octet off by one that the decoder rejects sequentially (a wrong length
	// octet, mostly), decoded before the workers start and every 16th time round
	rejected := make([][][]byte, G)
	for g := range inputs {
		for p := def.HeaderLen(); p < len(inputs[g]) && p < def.HeaderLen()+96 && len(rejected[g]) < 8; p++ {
			for _, d := range []byte{1, 0xff} {
				v := cloneB(inputs[g])
				v[p] += d
				in := cloneB(v)
				if err := msgDecoder(newMsgObj(def.Name), def.Name)(&in); err != nil {
					rejected[g] = append(rejected[g], v)
					break
				}
			}
		}
		c.Count("rejected_inputs_in_concurrent_decodes", int64(len(rejected[g])))
	}
	bad := make([]int, G)
	var wg sync.WaitGroup
	start := make(chan struct{})
	for g := 0; g < G; g++ {
		wg.Add(1)
		go func(g int) {
			defer wg.Done()
			<-start
			for i := 0; i < reps; i++ {
				if i%16 == 3 && len(rejected[g]) > 0 {
					in := cloneB(rejected[g][i/16%len(rejected[g])])
					if err := msgDecoder(newMsgObj(def.Name), def.Name)(&in); err == nil {
						bad[g]++
					}
				}
				obj := newMsgObj(def.Name)
				in := cloneB(inputs[g])
				if err := msgDecoder(obj, def.Name)(&in); err != nil || !reflect.DeepEqual(obj, want[g]) {
					bad[g]++
				}
			}
		}(g)
	}
	close(start)
	wg.Wait()
	c.Eval(int64(G * reps))
	for g, n := range bad {
		if n > 0 {
			c.Fail(k, "concurrent-decode-differs:"+def.Name, fmt.Sprintf("goroutine %d of %d: %d of %d concurrent decodes of its own %s input differ from the sequential result", g, G, n, reps, def.Name))
			return
		}
	}
	c.Cover("concurrent", def.Name)
}

func init() {
	p := &core.Property{
		ID:          "C10",
		Interleave:  []string{"decode-pure", "encode-pure"},
		Rule:        "decode: accepted and rejected inputs (random plans in nine presence patterns, their mutations, repository samples) through the three entry points with the input placed in a slice with guarded spare capacity: input octets, slice header and spare capacity unchanged; no []byte reachable from the message lies inside the input's backing array (address ranges via reflection); flipping every input octet leaves the message deep-equal to its snapshot and vice versa; two runs agree. encode: well-formed messages into buffers pre-filled with 0..64 octets and 0..64 octets of spare capacity: message deep-equal to its snapshot, prefix unchanged, appended bytes equal an encode into an empty buffer, no aliasing between message and output. Non-trivial = accepted input with at least one buffer-backed element, or encode with a non-empty prefill; distinct by bytes.",
		Assumptions: []string{"address-range comparison uses reflect.Value.Pointer / unsafe on live slices in one goroutine"},
		Oracles:     map[string]func(*core.Ctx, *core.Case){"cold-entries": coldEntries, "decode-pure": c10Decode, "encode-pure": c10Encode, "decode-concurrent": c10DecodeConcurrent, "decode-reuse": c10DecodeReuse, "cold-concurrent": coldConcurrent},
	}
	p.Floors = func(tier string, cov map[string]map[string]int64, cnt map[string]int64) []string {
		var f []string
		if cnt["accepted"] == 0 || cnt["rejected"] == 0 {
			f = append(f, "accepted and rejected inputs not both seen")
		}
		if cnt["message_buffers_checked"] == 0 {
			f = append(f, "no message buffer was checked for aliasing")
		}
		sp, err := codecSpec()
		if err != nil {
			return []string{"messages.json unreadable"}
		}
		for _, d := range sp.Messages {
			if cov["encode"][d.Name] == 0 {
				f = append(f, "no encode purity case for "+d.Name)
			}
			if cov["concurrent"][d.Name] == 0 {
				f = append(f, "no concurrent decode probe for "+d.Name)
			}
		}
		return f
	}
	p.Units = func(tier string) []core.Unit {
		sp, err := codecSpec()
		if err != nil {
			return []core.Unit{{Name: "spec", Weight: 1, Run: func(c *core.Ctx) { c.Inconclusive("messages.json: " + err.Error()) }}}
		}
		msgs := dispatchable(sp)
		var us []core.Unit
		for _, def := range sp.Messages {
			def := def
			us = append(us, core.Unit{Name: "concurrent-" + def.Name, Weight: 15, Run: func(c *core.Ctx) {
				for i := 0; i < c.Pick(2, 12); i++ {
					c.Do(&core.Case{Oracle: "decode-concurrent", Target: "nasMessage." + def.Name, S: []string{def.Name}, I: []int64{int64(c.R.Uint64() >> 1), 16, int64(c.Pick(2500, 8000))}})
				}
			}})
			us = append(us, core.Unit{Name: "msg-" + def.Name, Weight: 30, Run: func(c *core.Ctx) {
				other := refcodec.RandomPlan(msgs[c.R.Intn(len(msgs))], c.R, 1, 3).Bytes()
				for i := 0; i < c.Pick(700, 15000); i++ {
					pl := refcodec.RandomPlan(def, c.R, i, c.R.Intn(6))
					b := pl.Bytes()
					if def.MsgType != nil {
						in := b
						if i%3 == 1 {
							for d := c.R.Range(1, 2); d > 0; d-- {
								in = mutate(c.R, def, in, c.R.Intn(10), other)
							}
						}
						ep := int64(epPlain)
						if i%2 == 1 {
							ep = epGmm
							if def.Family == "GSM" {
								ep = epGsm
							}
						}
						k := &core.Case{Oracle: "decode-pure", Target: "nas.Message." + epNames[ep], B: [][]byte{in}, I: []int64{ep}}
						c.Do(k)
						if len(pl.Opt) > 0 {
							c.NonTrivial(k.Hash())
						}
						c.Sample(k.Brief())
					}
					if i%2 == 0 {
						pre := c.R.Bytes(c.R.Intn(65))
						k := &core.Case{Oracle: "encode-pure", Target: "nasMessage." + def.Name, S: []string{def.Name}, B: [][]byte{b, pre}, I: []int64{int64(c.R.Intn(65)), int64(i/2) % 2}}
						c.Do(k)
						c.Cover("encode", def.Name)
						if len(pre) > 0 {
							c.NonTrivial(k.Hash())
						}
					}
				}
			}})
		}
		us = append(us, reuseUnits(sp, "decode-reuse", 30, 600)...)
		us = append(us, coldUnits(tier, "nas.Message", "decode", "encode", "shared-encode", "shared-getters")...)
		for _, def := range sp.Messages {
			def := def
			us = append(us, core.Unit{Name: "behind-64k-" + def.Name, Weight: 20, Run: func(c *core.Ctx) {
				// a long-lived output buffer: the message is appended behind 65 530..65 541 (and
				// 131 070..131 074) octets already written; offsets kept in 16 bits wrap here
				var sizes []int
				for n := 65530; n <= 65541; n++ {
					sizes = append(sizes, n)
				}
				for n := 131070; n <= 131074; n++ {
					sizes = append(sizes, n)
				}
				for i, n := range sizes {
					if !c.Thorough() && i%2 == 1 && n > 65541 {
						continue
					}
					b := refcodec.RandomPlan(def, c.R, 1+i%5, c.R.Intn(5)).Bytes()
					k := &core.Case{Oracle: "encode-pure", Target: "nasMessage." + def.Name, S: []string{def.Name}, B: [][]byte{b, c.R.Pattern(3, n)}, I: []int64{int64(c.R.Intn(65)), int64(i) % 2}}
					c.Do(k)
					c.NonTrivial(k.Hash())
					c.Count("encodes_behind_64k", 1)
				}
			}})
		}
		us = append(us, domainUnits(sp, msgs, tier, 30, func(c *core.Ctx, d *domainPDU, i int) {
			if i%3 != 0 && !c.Thorough() {
				return
			}
			ep := int64(epPlain)
			if i%2 == 1 {
				ep = epGmm
				if d.Def.Family == "GSM" {
					ep = epGsm
				}
			}
			c.Do(&core.Case{Oracle: "decode-pure", Target: "nas.Message." + epNames[ep], B: [][]byte{d.B}, I: []int64{ep}})
			if d.Def.Family == "GMM" {
				// the same message with another security header type nibble, and as it
				// travels: behind a security header (type 1..4, MAC, sequence number)
				b := cloneB(d.B)
				b[1] = b[1]&0xf0 | byte(1+i/3%4)
				c.Do(&core.Case{Oracle: "decode-pure", Target: "nas.Message." + epNames[ep], B: [][]byte{b}, I: []int64{ep}})
				c.Do(&core.Case{Oracle: "decode-pure", Target: "nas.Message." + epNames[ep], B: [][]byte{securityWrapped(c.R, d.B, 1+i/3%4)}, I: []int64{ep}})
			}
		})...)
		us = append(us, core.Unit{Name: "repository-samples", Weight: 20, Run: func(c *core.Ctx) {
			for i, s := range repositorySamples() {
				def := msgs[i%len(msgs)]
				for ep := 0; ep < 3; ep++ {
					c.Do(&core.Case{Oracle: "decode-pure", Target: "nas.Message." + epNames[ep], B: [][]byte{s}, I: []int64{int64(ep)}})
				}
				for j := 0; j < c.Pick(30, 500); j++ {
					k := &core.Case{Oracle: "decode-pure", Target: "nas.Message.PlainNasDecode", B: [][]byte{mutate(c.R, def, s, c.R.Intn(10), s)}, I: []int64{0}}
					c.Do(k)
					c.NonTrivial(k.Hash())
				}
			}
		}})
		us = append(us, coldEntryUnits(tier, "nas.Message", "codec")...)
		return us
	}
	core.Register(p)
}
