package monitor

import (
	"bytes"
	"fmt"
	"reflect"

	nas "github.com/free5gc/nas"

	"verifharness/internal/core"
	"verifharness/internal/refcodec"
)

// C02 — encode then decode returns the same message (law monitor; the oracle is
// the generated message itself, in decoder normal form).
// C03 — re-encoding is a fixed point; byte-exact for canonical input.

const (
	pathDirect = 0 // Encode<Msg> / Decode<Msg>
	pathPlain  = 1 // PlainNasEncode / PlainNasDecode
	pathFamily = 2 // Gmm/GsmMessageEncode / Decode
)

func familyEncode(m *nas.Message, def *refcodec.Msg) ([]byte, error) {
	var buf bytes.Buffer
	var err error
	if def.Family == "GSM" {
		err = m.GsmMessageEncode(&buf)
	} else {
		err = m.GmmMessageEncode(&buf)
	}
	return buf.Bytes(), err
}

func familyDecode(b []byte, def *refcodec.Msg) (*nas.Message, error) {
	m := nas.NewMessage()
	var err error
	if def.Family == "GSM" {
		err = m.GsmMessageDecode(&b)
	} else {
		err = m.GmmMessageDecode(&b)
	}
	return m, err
}

// firstDiff names the first slot in which two message objects differ.
func firstDiff(def *refcodec.Msg, a, b interface{}) string {
	av, bv := reflect.ValueOf(a).Elem(), reflect.ValueOf(b).Elem()
	for si := range def.Slots {
		n := def.Slots[si].Name
		fa, fb := av.FieldByName(n), bv.FieldByName(n)
		if !fa.IsValid() || !fb.IsValid() {
			return n
		}
		if !reflect.DeepEqual(fa.Interface(), fb.Interface()) {
			return n
		}
	}
	return "?"
}

func describeSlot(obj interface{}, name string) string {
	f := reflect.ValueOf(obj).Elem().FieldByName(name)
	if !f.IsValid() {
		return "<no field>"
	}
	if f.Kind() == reflect.Ptr {
		if f.IsNil() {
			return "<absent>"
		}
		f = f.Elem()
	}
	v := readElem(f)
	return fmt.Sprintf("{Iei=%#02x Len=%d %s=%s nil=%v}", v.iei, v.ln, v.store, hx(v.data), v.bufNil)
}

// oracle "roundtrip": S=[msg] B=[well-formed plan bytes] I=[path]
func c02Roundtrip(c *core.Ctx, k *core.Case) {
	sp := mustSpec(c)
	if sp == nil {
		return
	}
	def := sp.Msg(k.S[0])
	ref := refcodec.Decode(def, k.B[0])
	if !ref.OK || ref.UnknownIDs > 0 || ref.HalfOctetLookalike > 0 {
		c.Inconclusive("harness: roundtrip case is not a well-formed plan")
		return
	}
	orig, err := buildMsg(def, ref.Fields)
	if err != nil {
		c.Fail(k, "structure:"+def.Name, err.Error())
		return
	}
	path := int(k.I[0])
	if def.MsgType == nil {
		path = pathDirect
	}
	c.Eval(1)
	// the same message as an application builds it: an element of length 0 whose contents
	// were never set has a nil Buffer, not an empty one; the encoding is the same
	if ctor, err := buildMsg(def, ref.Fields); err == nil {
		n := 0
		walkBytes(reflect.ValueOf(ctor), func(v reflect.Value) {
			if v.Len() == 0 && !v.IsNil() && v.CanSet() {
				v.Set(reflect.Zero(v.Type()))
				n++
			}
		})
		if n > 0 {
			var b1, b2 bytes.Buffer
			e1, e2 := msgEncoder(orig, def.Name)(&b1), msgEncoder(ctor, def.Name)(&b2)
			c.Count("encodes_with_nil_contents", 1)
			if (e1 == nil) != (e2 == nil) || !bytes.Equal(b1.Bytes(), b2.Bytes()) {
				c.Fail(k, "nil-contents-encode-differently:"+def.Name, fmt.Sprintf("%s with %d empty element(s): encoding with empty non-nil contents gives %s (err %v), with nil contents %s (err %v)", def.Name, n, hx(b1.Bytes()), e1, hx(b2.Bytes()), e2))
			}
		}
	}
	hdr := k.B[0][:def.HeaderLen()]
	var wire []byte
	var back interface{}
	switch path {
	case pathDirect:
		var buf bytes.Buffer
		if err := msgEncoder(orig, def.Name)(&buf); err != nil {
			c.Fail(k, "encode-error:"+def.Name, fmt.Sprintf("well-formed %s does not encode: %v", def.Name, err))
			return
		}
		wire = cloneB(buf.Bytes())
		back = newMsgObj(def.Name)
		in := cloneB(wire)
		if err := msgDecoder(back, def.Name)(&in); err != nil {
			c.Fail(k, "decode-error:"+def.Name, fmt.Sprintf("own encoding of a well-formed %s does not decode: %v (wire %s)", def.Name, err, hx(wire)))
			return
		}
	default:
		m, err := wrapMsg(def, orig, hdr)
		if err != nil {
			c.Fail(k, "structure:"+def.Name, err.Error())
			return
		}
		var m2 *nas.Message
		snap := deepCopy(reflect.ValueOf(m)).Interface()
		if path == pathPlain {
			wire, err = m.PlainNasEncode()
		} else {
			wire, err = familyEncode(m, def)
		}
		if err != nil {
			c.Fail(k, "encode-error:"+def.Name, fmt.Sprintf("well-formed %s does not encode: %v", def.Name, err))
			return
		}
		c.Hold(k, "nas.Message.PlainNasEncode", wire)
		wire = cloneB(wire)
		in := cloneB(wire)
		if path == pathPlain {
			m2 = nas.NewMessage()
			if h := core.HashBytes(0x14, wire); h&1 == 1 {
				// the receiving Message carries the security header its caller took off the PDU; the
				// fields are the caller's and say nothing about the plain message
				rec := nas.SecurityHeader{ProtocolDiscriminator: 0x7e, SecurityHeaderType: uint8(1 + h>>8%4), MessageAuthenticationCode: uint32(h >> 16), SequenceNumber: uint8(h >> 48)}
				m2.SecurityHeader = rec
				err = m2.PlainNasDecode(&in)
				if err == nil && m2.SecurityHeader != rec {
					c.Fail(k, "receiver-security-header-changed:"+def.Name, fmt.Sprintf("PlainNasDecode changed the SecurityHeader its caller had recorded in the receiving Message: %+v -> %+v", rec, m2.SecurityHeader))
				}
				m2.SecurityHeader = m.SecurityHeader
				c.Count("decodes_into_message_with_recorded_security_header", 1)
			} else {
				err = m2.PlainNasDecode(&in)
			}
		} else {
			m2, err = familyDecode(in, def)
		}
		if err != nil {
			c.Fail(k, "decode-error:"+def.Name, fmt.Sprintf("own encoding of a well-formed %s does not decode: %v (wire %s)", def.Name, err, hx(wire)))
			return
		}
		if !reflect.DeepEqual(m, m2) {
			names, h2, o2 := bodyPointers(m2)
			if len(names) != 1 || names[0] != def.Name {
				c.Fail(k, "roundtrip-differs:"+def.Name+":dispatch", fmt.Sprintf("decoded bodies %v", names))
				return
			}
			if !bytes.Equal(h2, hdr) {
				c.Fail(k, "roundtrip-differs:"+def.Name+":header-view", fmt.Sprintf("header view %x, encoded header %x", h2, hdr))
				return
			}
			sl := firstDiff(def, orig, o2)
			c.Fail(k, "roundtrip-differs:"+def.Name+"."+sl, fmt.Sprintf("%s.%s: original %s, after encode/decode %s (wire %s)", def.Name, sl, describeSlot(orig, sl), describeSlot(o2, sl), hx(wire)))
			return
		}
		// the decoded message is the caller's: overwrite every scalar in it, then the same bytes
		// must still decode to the original (a decoder that hands out shared package memory fails)
		scribbleAll(reflect.ValueOf(m2), 0)
		in3 := cloneB(wire)
		var m3 *nas.Message
		if path == pathPlain {
			m3 = nas.NewMessage()
			err = m3.PlainNasDecode(&in3)
		} else {
			m3, err = familyDecode(in3, def)
		}
		if err != nil || !reflect.DeepEqual(m, m3) {
			where := "?"
			if _, _, o3 := bodyPointers(m3); o3 != nil && err == nil {
				where = firstDiff(def, orig, o3)
			}
			c.Fail(k, "decode-depends-on-earlier-result:"+def.Name+"."+where, fmt.Sprintf("after the first decoded %s was overwritten by its owner, decoding the same bytes again gives a different message at %s (err %v; wire %s)", def.Name, where, err, hx(wire)))
			return
		}
		// the value that was encoded is still the value: encode it again, this
		// time behind data already in the caller's buffer (an outer security
		// header, a previous message), and once more through PlainNasEncode
		pre := []byte{0x7e, 0x02, 0xde, 0xad, 0xbe, 0xef, 0x07}
		if len(wire) > 9 {
			pre = append(pre, wire[len(wire)-9:]...)
		}
		buf := bytes.NewBuffer(cloneB(pre))
		if def.Family == "GSM" {
			err = m.GsmMessageEncode(buf)
		} else {
			err = m.GmmMessageEncode(buf)
		}
		if err != nil || !bytes.Equal(buf.Bytes()[:len(pre)], pre) || !bytes.Equal(buf.Bytes()[len(pre):], wire) {
			c.Fail(k, "encode-behind-data-differs:"+def.Name, fmt.Sprintf("encoding the same %s into a buffer that already holds %d octets: err %v, appended %s, expected %s", def.Name, len(pre), err, hx(buf.Bytes()[min3(len(pre), buf.Len()):]), hx(wire)))
			return
		}
		if !reflect.DeepEqual(m, snap) {
			_, h1, _ := bodyPointers(snap.(*nas.Message))
			_, h2, o2 := bodyPointers(m)
			where := "header-view"
			if bytes.Equal(h1, h2) && o2 != nil {
				_, _, o1 := bodyPointers(snap.(*nas.Message))
				where = firstDiff(def, o1, o2)
			}
			c.Fail(k, "encode-modifies-message:"+def.Name+":"+where, fmt.Sprintf("after encoding, the %s value differs from its snapshot at %s (header view %x -> %x)", def.Name, where, h1, h2))
			return
		}
		if _, owned := ownedTwice(func() []byte { b, _ := m.PlainNasEncode(); return b }); owned != "" {
			c.Fail(k, "result-not-owned:PlainNasEncode", owned)
		}
		if again, err := m.PlainNasEncode(); err != nil || !bytes.Equal(again, wire) {
			c.Fail(k, "encode-not-repeatable:"+def.Name, fmt.Sprintf("a third encode of the same %s gives %s (err %v), the first gave %s", def.Name, hx(again), err, hx(wire)))
		}
		// the body is edited in place (same Message, same family pointer, same body pointer,
		// same header): the next encode is that of the value as it is now — the same bytes and
		// the same error as for a fresh copy of it, whatever was encoded from this object before
		if _, _, body := bodyPointers(m); body != nil {
			edited := 0
			walkBytes(reflect.ValueOf(body), func(v reflect.Value) {
				if n := v.Len(); n > 0 && v.Index(n-1).CanSet() {
					v.Index(n - 1).SetUint(v.Index(n-1).Uint() ^ 0x01)
					edited++
				}
			})
			flipArrays(reflect.ValueOf(body), &edited)
			if edited > 0 {
				fresh := deepCopy(reflect.ValueOf(m)).Interface().(*nas.Message)
				got, gerr := m.PlainNasEncode()
				want, werr := fresh.PlainNasEncode()
				c.Count("encodes_after_in_place_edit", 1)
				if (gerr == nil) != (werr == nil) || !bytes.Equal(got, want) {
					c.Fail(k, "encode-after-edit-stale:"+def.Name, fmt.Sprintf("%s edited in place (%d content octets flipped) after it had been encoded: PlainNasEncode gives %s (err %v), a fresh copy of the same value gives %s (err %v)", def.Name, edited, hx(got), gerr, hx(want), werr))
				}
			}
		}
		return
	}
	if !reflect.DeepEqual(orig, back) {
		sl := firstDiff(def, orig, back)
		c.Fail(k, "roundtrip-differs:"+def.Name+"."+sl, fmt.Sprintf("%s.%s: original %s, after encode/decode %s (wire %s)", def.Name, sl, describeSlot(orig, sl), describeSlot(back, sl), hx(wire)))
	}
}

// oracle "batch": S=[msg names] B=[well-formed plan bytes] — several messages are encoded
// one after the other through PlainNasEncode, the returned slices are HELD (not
// copied), and only then decoded. An encoder that hands out memory it reuses
// later (pooled or package-level buffers) corrupts the earlier results.
func c02Batch(c *core.Ctx, k *core.Case) {
	sp := mustSpec(c)
	if sp == nil {
		return
	}
	type held struct {
		def  *refcodec.Msg
		m    *nas.Message
		wire []byte
		snap []byte
	}
	var hs []held
	for i, name := range k.S {
		def := sp.Msg(name)
		ref := refcodec.Decode(def, k.B[i])
		if def == nil || def.MsgType == nil || !ref.OK {
			c.Inconclusive("harness: batch case is not a list of dispatchable well-formed plans")
			return
		}
		obj, err := buildMsg(def, ref.Fields)
		if err != nil {
			c.Fail(k, "structure:"+def.Name, err.Error())
			return
		}
		m, err := wrapMsg(def, obj, k.B[i][:def.HeaderLen()])
		if err != nil {
			c.Fail(k, "structure:"+def.Name, err.Error())
			return
		}
		wire, err := m.PlainNasEncode()
		if err != nil {
			c.Fail(k, "encode-error:"+def.Name, err.Error())
			return
		}
		hs = append(hs, held{def, m, wire, cloneB(wire)})
	}
	c.Eval(int64(len(hs)))
	for i, h := range hs {
		if !bytes.Equal(h.wire, h.snap) {
			c.Fail(k, "encoded-bytes-change-after-later-encode", fmt.Sprintf("the bytes returned for message %d (%s) changed after %d later PlainNasEncode calls: %s -> %s", i, h.def.Name, len(hs)-1-i, hx(h.snap), hx(h.wire)))
			return
		}
		in := h.wire
		m2 := nas.NewMessage()
		if err := m2.PlainNasDecode(&in); err != nil || !reflect.DeepEqual(h.m, m2) {
			c.Fail(k, "batch-roundtrip-differs:"+h.def.Name, fmt.Sprintf("message %d (%s) of a batch does not decode back to itself (err %v)", i, h.def.Name, err))
			return
		}
	}
}

// c02Subsets enumerates presence subsets of the optional slots.
func c02Subsets(def *refcodec.Msg, thorough bool, fn func(mask uint64)) {
	opts := def.OptSlots()
	n := len(opts)
	if n == 0 {
		fn(0)
		return
	}
	limit := 8
	if thorough {
		limit = 12
	}
	if n <= limit {
		for m := uint64(0); m < 1<<uint(n); m++ {
			fn(m)
		}
		return
	}
	// none, all, singles, adjacent pairs, "later without earlier"
	fn(0)
	fn(1<<uint(n) - 1)
	for i := 0; i < n; i++ {
		fn(1 << uint(i))
		if i+1 < n {
			fn(3 << uint(i))
		}
		fn((1<<uint(n)-1)&^(1<<uint(i+1)-1) | 1<<uint(i))
		fn((1<<uint(n) - 1) &^ (1 << uint(i)))
	}
}

func init() {
	p := &core.Property{
		ID:         "C02",
		Interleave: []string{"roundtrip"},
		Rule:       "well-formed messages in decoder normal form (identifiers from the table, declared length = content length within bounds, header view = body header, array octets beyond Len zero) for all 45 definitions: presence subsets (all 2^k for k<=8 optionals, thorough k<=12; otherwise none/all/singles/pairs/later-without-earlier/all-but-one) × length choice {min, max, interior} × content shapes; plus random plans. Encoded and decoded through Encode<Msg>/Decode<Msg>, PlainNasEncode/Decode and Gmm/GsmMessageEncode/Decode; reflect.DeepEqual with the original. Non-trivial = some optional absent while a later one is present, or an interior length, or non-pattern content; distinct by message and wire bytes.",
		Assumptions: []string{
			"well-formedness is exactly the statement's precondition; optional elements carry the table identifier in Iei (type-1: in the octet's high nibble)",
			"bounds come from spec/messages.json",
		},
		Oracles: map[string]func(*core.Ctx, *core.Case){"cold-entries": coldEntries, "roundtrip": c02Roundtrip, "batch": c02Batch, "cold-concurrent": coldConcurrent, "receive-buffer": c03ReceiveBuffer},
	}
	p.Floors = func(tier string, cov map[string]map[string]int64, cnt map[string]int64) []string {
		sp, err := codecSpec()
		if err != nil {
			return []string{"messages.json unreadable"}
		}
		var f []string
		for _, def := range sp.Messages {
			if cov["message"][def.Name] == 0 {
				f = append(f, "no round trip for "+def.Name)
			}
			for si := range def.Slots {
				sl := &def.Slots[si]
				if sl.LenSize() == 0 {
					continue
				}
				key := def.Name + "." + sl.Name
				for _, cl := range []string{"min", "max"} {
					if cov["slot_len"][key+":"+cl] == 0 {
						f = append(f, "slot never present at "+cl+": "+key)
					}
				}
				if sl.Max-sl.Min > 1 && len(sl.Allowed) == 0 && cov["slot_len"][key+":interior"] == 0 {
					f = append(f, "slot never present at an interior length: "+key)
				}
			}
		}
		if len(cov["batch"]) == 0 {
			f = append(f, "no batch of held encodings")
		}
		for _, pth := range []string{"0", "1", "2"} {
			if cov["path"][pth] == 0 {
				f = append(f, "API path never used: "+pth)
			}
		}
		if len(f) > 10 {
			f = append(f[:10], fmt.Sprintf("… and %d more", len(f)-10))
		}
		return f
	}
	p.Units = func(tier string) []core.Unit {
		sp, err := codecSpec()
		if err != nil {
			return []core.Unit{{Name: "spec", Weight: 1, Run: func(c *core.Ctx) { c.Inconclusive("messages.json: " + err.Error()) }}}
		}
		thorough := tier == "thorough"
		var us []core.Unit
		for _, def := range sp.Messages {
			def := def
			run := func(c *core.Ctx, pl *refcodec.Plan, i int, gap bool, lenClass []string) {
				b := pl.Bytes()
				pth := int64(i % 3)
				k := &core.Case{Oracle: "roundtrip", Target: "nasMessage." + def.Name, S: []string{def.Name}, B: [][]byte{b}, I: []int64{pth}}
				c.Do(k)
				c.Cover("message", def.Name)
				if def.MsgType == nil {
					pth = 0
				}
				c.Cover("path", fmt.Sprint(pth))
				for _, lc := range lenClass {
					c.Cover("slot_len", lc)
				}
				if gap || len(lenClass) > 0 {
					c.NonTrivial(k.Hash())
				}
				c.Sample(k.Brief())
			}
			us = append(us, core.Unit{Name: "subsets-" + def.Name, Weight: 20 + len(def.Slots)*len(def.Slots), Run: func(c *core.Ctx) {
				opts := def.OptSlots()
				i := 0
				didMax := map[int]int{}
				c02Subsets(def, thorough, func(mask uint64) {
					for lenMode := 0; lenMode < 3; lenMode++ {
						i++
						shape := (i / 3) % 5
						pl := refcodec.NewPlan(def, c.R, shape)
						var classes []string
						setLen := func(si int) (int, string) {
							sl := &def.Slots[si]
							if sl.LenSize() == 0 {
								return sl.Max, ""
							}
							key := def.Name + "." + sl.Name
							if len(sl.Allowed) > 0 {
								n := sl.Allowed[(lenMode+i)%len(sl.Allowed)]
								cl := "interior"
								if n == sl.Min {
									cl = "min"
								} else if n == sl.Max {
									cl = "max"
								}
								return n, key + ":" + cl
							}
							switch lenMode {
							case 0:
								return sl.Min, key + ":min"
							case 1:
								n := sl.Max
								didMax[si]++
								if n > 3000 && didMax[si] > 2 {
									n = 3000 // full 64 KiB maxima only the first two times per slot
									return n, key + ":interior"
								}
								return n, key + ":max"
							}
							if sl.Max-sl.Min > 1 {
								hi := sl.Max - 1
								if hi > sl.Min+300 {
									hi = sl.Min + 300
								}
								return c.R.Range(sl.Min+1, hi), key + ":interior"
							}
							return sl.Min, key + ":min"
						}
						for si := 0; si < def.NMand(); si++ {
							if def.Slots[si].LenSize() > 0 {
								n, cl := setLen(si)
								pl.Mand[si].Decl, pl.Mand[si].Val = n, refcodec.Content(c.R, def, shape, n)
								classes = append(classes, cl)
							}
						}
						gap, seenAbsent := false, false
						for j, si := range opts {
							if mask>>uint(j)&1 == 0 {
								seenAbsent = true
								continue
							}
							if seenAbsent {
								gap = true
							}
							n, cl := setLen(si)
							pl.Opt = append(pl.Opt, refcodec.OptElem(def, si, n, refcodec.Content(c.R, def, shape, n), c.R))
							if cl != "" {
								classes = append(classes, cl)
							}
						}
						run(c, pl, i, gap, classes)
					}
				})
			}})
			if def.MsgType != nil {
				us = append(us, core.Unit{Name: "batch-" + def.Name, Weight: 10, Run: func(c *core.Ctx) {
					ds := dispatchable(sp)
					for i := 0; i < c.Pick(40, 1500); i++ {
						k := &core.Case{Oracle: "batch", Target: "nas.Message.PlainNasEncode"}
						for j := 0; j < c.R.Range(2, 6); j++ {
							d := def
							if j > 0 && c.R.Bool() {
								d = ds[c.R.Intn(len(ds))]
							}
							k.S = append(k.S, d.Name)
							k.B = append(k.B, refcodec.RandomPlan(d, c.R, c.R.Intn(6), c.R.Intn(5)).Bytes())
						}
						c.Do(k)
						c.Cover("batch", def.Name)
						c.NonTrivial(k.Hash())
					}
				}})
			}
			us = append(us, core.Unit{Name: "random-" + def.Name, Weight: 30, Run: func(c *core.Ctx) {
				for i := 0; i < c.Pick(900, 30000); i++ {
					pl := refcodec.RandomPlan(def, c.R, i, c.R.Intn(5))
					run(c, pl, i, len(pl.Opt) > 0, nil)
				}
			}})
		}
		wellFormed := func(c *core.Ctx, d *domainPDU, i int) {
			if !d.Canon {
				return
			}
			k := &core.Case{Oracle: "roundtrip", Target: "nasMessage." + d.Def.Name, S: []string{d.Def.Name}, B: [][]byte{d.B}, I: []int64{int64(i % 3)}}
			c.Do(k)
			if i%8 == 0 {
				c.NonTrivial(k.Hash())
			}
		}
		us = append(us, domainUnits(sp, sp.Messages, tier, 30, wellFormed)...)
		us = append(us, bigUnits(sp.Messages, tier, 80, wellFormed)...)
		// decoding the library's own encodings into a receiver that is used again and again
		us = append(us, reuseUnits(sp, "receive-buffer", 25, 500)...)
		us = append(us, coldUnits(tier, "nas.Message", "encode", "decode")...)
		us = append(us, coldEntryUnits(tier, "nas.Message", "codec")...)
		return us
	}
	core.Register(p)
}

// ---- C03 -------------------------------------------------------------------

// oracle "fixedpoint": B=[input] I=[canonical(0/1), (security header type the caller recorded in the Message)]
func c03FixedPoint(c *core.Ctx, k *core.Case) {
	b := k.B[0]
	in := cloneB(b)
	d1 := nas.NewMessage()
	if len(k.I) > 1 && k.I[1] > 0 {
		// the Message is the one the security layer filled in before it handed the plain part on
		d1.SecurityHeader = nas.SecurityHeader{ProtocolDiscriminator: 0x7e, SecurityHeaderType: uint8(k.I[1]), MessageAuthenticationCode: 0x0a0b0c0d, SequenceNumber: 7}
		c.Count("messages_with_recorded_security_header", 1)
	}
	c.Eval(1)
	err0 := d1.PlainNasDecode(&in)
	for i := range in {
		in[i] = 0xa5 // the receive buffer is reused once the decoder has returned
	}
	if err := err0; err != nil {
		c.Count("rejected_inputs", 1)
		if k.I[0] == 1 {
			c.Fail(k, "canonical-input-rejected", fmt.Sprintf("a canonical encoding was rejected: %v (input %s)", err, hx(b)))
		}
		return
	}
	c.Count("accepted_inputs", 1)
	names, _, _ := bodyPointers(d1)
	mn := "?"
	if len(names) == 1 {
		mn = names[0]
	}
	if _, owned := ownedTwice(func() []byte { b, _ := d1.PlainNasEncode(); return b }); owned != "" {
		c.Fail(k, "result-not-owned:PlainNasEncode", owned)
	}
	e1, err := d1.PlainNasEncode()
	if err != nil {
		c.Fail(k, "reencode-error:"+mn, fmt.Sprintf("decoded %s does not re-encode: %v (input %s)", mn, err, hx(b)))
		return
	}
	c.Hold(k, "nas.Message.PlainNasEncode", e1)
	e1 = cloneB(e1)
	in2 := cloneB(e1)
	d2 := nas.NewMessage()
	d2.SecurityHeader = d1.SecurityHeader
	if err := d2.PlainNasDecode(&in2); err != nil {
		c.Fail(k, "redecode-error:"+mn, fmt.Sprintf("re-encoding of %s does not decode: %v (input %s, re-encoding %s)", mn, err, hx(b), hx(e1)))
		return
	}
	if !reflect.DeepEqual(d1, d2) {
		sl := "?"
		if sp, _ := codecSpec(); sp != nil && sp.Msg(mn) != nil {
			_, _, o1 := bodyPointers(d1)
			_, _, o2 := bodyPointers(d2)
			if o1 != nil && o2 != nil {
				sl = firstDiff(sp.Msg(mn), o1, o2)
			}
		}
		c.Fail(k, "fixedpoint-value:"+mn+"."+sl, fmt.Sprintf("decode(encode(d)) != d for %s at %s (input %s, re-encoding %s)", mn, sl, hx(b), hx(e1)))
		return
	}
	e2, err := d2.PlainNasEncode()
	if err != nil || !bytes.Equal(e1, e2) {
		c.Fail(k, "fixedpoint-bytes:"+mn, fmt.Sprintf("second encoding differs from the first for %s: %s vs %s (err %v)", mn, hx(e1), hx(e2), err))
		return
	}
	if k.I[0] == 1 {
		c.Count("canonical_inputs", 1)
		if !bytes.Equal(e1, b) {
			c.Fail(k, "canonical-not-byte-exact:"+mn, fmt.Sprintf("canonical %s input %s re-encodes as %s", mn, hx(b), hx(e1)))
		}
	}
	c.Cover("accepted_message", mn)
}

func init() {
	p := &core.Property{
		ID:         "C03",
		Interleave: []string{"fixedpoint"},
		Rule:       "inputs: reference renderings of plans in all nine presence patterns (incl. reversed order, duplicates, interleaved duplicates), canonical plans (flagged canonical by construction), the byte-level mutations of C01 (unknown identifiers, type-1 look-alikes, splices, flips…), and the repository samples with mutations; every input accepted by PlainNasDecode is re-encoded, re-decoded and re-encoded. Non-trivial = accepted and non-canonical, or canonical with at least one optional element; distinct by bytes.",
		Assumptions: []string{
			"canonicity is known from the generator (known elements only, each once, in table order, lengths in bounds), never inferred from the library",
		},
		Oracles: map[string]func(*core.Ctx, *core.Case){"cold-entries": coldEntries, "fixedpoint": c03FixedPoint, "receive-buffer": c03ReceiveBuffer, "cold-concurrent": coldConcurrent},
	}
	p.Floors = func(tier string, cov map[string]map[string]int64, cnt map[string]int64) []string {
		sp, err := codecSpec()
		if err != nil {
			return []string{"messages.json unreadable"}
		}
		var f []string
		for _, d := range dispatchable(sp) {
			if cov["accepted_message"][d.Name] == 0 {
				f = append(f, "no accepted input for "+d.Name)
			}
		}
		if cnt["canonical_inputs"] == 0 || cnt["accepted_noncanonical"] == 0 {
			f = append(f, "canonical / non-canonical accepted inputs not both seen")
		}
		return f
	}
	p.Units = func(tier string) []core.Unit {
		sp, err := codecSpec()
		if err != nil {
			return []core.Unit{{Name: "spec", Weight: 1, Run: func(c *core.Ctx) { c.Inconclusive("messages.json: " + err.Error()) }}}
		}
		msgs := dispatchable(sp)
		var us []core.Unit
		for _, def := range msgs {
			def := def
			us = append(us, core.Unit{Name: "plans-" + def.Name, Weight: 30, Run: func(c *core.Ctx) {
				other := refcodec.RandomPlan(msgs[c.R.Intn(len(msgs))], c.R, 1, 3).Bytes()
				for i := 0; i < c.Pick(1500, 40000); i++ {
					pl := refcodec.RandomPlan(def, c.R, i, c.R.Intn(6))
					b := pl.Bytes()
					canon := int64(0)
					if pl.Canonical() {
						canon = 1
					}
					if i%3 == 2 {
						for d := c.R.Range(1, 2); d > 0; d-- {
							b = mutate(c.R, def, b, []int{1, 2, 3, 4, 5, 6, 7, 8, 9}[c.R.Intn(9)], other)
						}
						canon = 0
					}
					k := &core.Case{Oracle: "fixedpoint", Target: "nas.Message.PlainNasDecode", B: [][]byte{b}, I: []int64{canon}}
					if i%4 == 1 {
						// a Message in which the caller recorded a security header; for 5GMM half of
						// these inputs carry a security header type nibble of their own in octet 2
						k.I = append(k.I, int64(1+i/4%4))
						if def.Family == "GMM" && i%8 == 1 && len(b) > 1 {
							b[1] = b[1]&0xf0 | byte(1+i/8%4)
						}
					}
					before := c.Report().Counters["accepted_inputs"]
					c.Do(k)
					accepted := c.Report().Counters["accepted_inputs"] > before
					if accepted && canon == 0 {
						c.Count("accepted_noncanonical", 1)
						c.NonTrivial(k.Hash())
					}
					if accepted && canon == 1 && len(pl.Opt) > 0 {
						c.NonTrivial(k.Hash())
					}
					c.Sample(k.Brief())
				}
			}})
		}
		us = append(us, reuseUnits(sp, "receive-buffer", 40, 800)...)
		us = append(us, coldUnits(tier, "nas.Message", "decode")...)
		us = append(us, bigUnits(msgs, tier, 60, func(c *core.Ctx, d *domainPDU, i int) {
			k := &core.Case{Oracle: "fixedpoint", Target: "nas.Message.PlainNasDecode", B: [][]byte{d.B}, I: []int64{b2i(d.Canon)}}
			c.Do(k)
			if i%4 == 0 {
				c.NonTrivial(k.Hash())
			}
		})...)
		us = append(us, domainUnits(sp, msgs, tier, 30, func(c *core.Ctx, d *domainPDU, i int) {
			k := &core.Case{Oracle: "fixedpoint", Target: "nas.Message.PlainNasDecode", B: [][]byte{d.B}, I: []int64{b2i(d.Canon)}}
			c.Do(k)
			if i%16 == 0 {
				c.NonTrivial(k.Hash())
			}
		})...)
		for _, def := range msgs {
			def := def
			if len(def.OptSlots()) == 0 {
				continue
			}
			us = append(us, core.Unit{Name: "many-" + def.Name, Weight: 5, Run: func(c *core.Ctx) {
				for _, n := range manyCounts(c.Thorough()) {
					b := manyOpts(def, c.R, n).Bytes()
					k := &core.Case{Oracle: "fixedpoint", Target: "nas.Message.PlainNasDecode", B: [][]byte{b}, I: []int64{0}}
					c.Do(k)
					c.NonTrivial(k.Hash())
				}
			}})
		}
		us = append(us, core.Unit{Name: "repository-samples", Weight: 30, Run: func(c *core.Ctx) {
			for i, s := range repositorySamples() {
				def := msgs[i%len(msgs)]
				c.Do(&core.Case{Oracle: "fixedpoint", Target: "nas.Message.PlainNasDecode", B: [][]byte{s}, I: []int64{0}})
				for j := 0; j < c.Pick(100, 3000); j++ {
					b := mutate(c.R, def, s, c.R.Intn(10), s)
					k := &core.Case{Oracle: "fixedpoint", Target: "nas.Message.PlainNasDecode", B: [][]byte{b}, I: []int64{0}}
					before := c.Report().Counters["accepted_inputs"]
					c.Do(k)
					if c.Report().Counters["accepted_inputs"] > before {
						c.Count("accepted_noncanonical", 1)
						c.NonTrivial(k.Hash())
					}
				}
			}
		}})
		us = append(us, coldEntryUnits(tier, "nas.Message", "codec")...)
		return us
	}
	core.Register(p)
}
