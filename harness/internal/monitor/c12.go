package monitor

import (
	"bytes"
	"fmt"
	"io"
	"log"
	"strings"

	"github.com/free5gc/nas/logger"
	"github.com/free5gc/nas/nasConvert"
	"github.com/free5gc/nas/nasType"
	"github.com/free5gc/openapi/models"

	"verifharness/internal/core"
	"verifharness/internal/prng"
	"verifharness/internal/refconv"
)

func init() {
	// the library logs every rejected input; millions of hostile calls would
	// fill the disk. Output is discarded through the library's own logger handle.
	logger.GetLogger().SetOutput(io.Discard)
	log.SetOutput(io.Discard)
}

// C12 — identities convert faithfully between wire and text.

func digits(r *prng.Rand, n int) string {
	b := make([]byte, n)
	for i := range b {
		b[i] = '0' + byte(r.Intn(10))
	}
	return string(b)
}

// oracle "plmn": I=[mccLo, mccHi) — all MNCs (2- and 3-digit) for those MCCs
func c12Plmn(c *core.Ctx, k *core.Case) {
	var n int64
	for mccN := int(k.I[0]); mccN < int(k.I[1]); mccN++ {
		mcc := fmt.Sprintf("%03d", mccN)
		for w := 2; w <= 3; w++ {
			lim := 100
			if w == 3 {
				lim = 1000
			}
			for mncN := 0; mncN < lim; mncN++ {
				mnc := fmt.Sprintf("%0*d", w, mncN)
				want := refconv.PlmnWire(mcc, mnc)
				got, owned := ownedTwice(func() []byte { return nasConvert.PlmnIDToNas(models.PlmnId{Mcc: mcc, Mnc: mnc}) })
				if owned != "" {
					c.Fail(&core.Case{Oracle: "plmn-one", Target: "nasConvert.PlmnIDToNas", S: []string{mcc, mnc}}, "result-not-owned:PlmnIDToNas", owned)
				}
				n++
				if mncN%97 == 0 {
					c.Hold(&core.Case{Oracle: "plmn-one", Target: "nasConvert.PlmnIDToNas", S: []string{mcc, mnc}}, "nasConvert.PlmnIDToNas", nasConvert.PlmnIDToNas(models.PlmnId{Mcc: mcc, Mnc: mnc}))
				}
				if !bytes.Equal(got, want[:]) {
					kk := &core.Case{Oracle: "plmn-one", Target: "nasConvert.PlmnIDToNas", S: []string{mcc, mnc}}
					c.Fail(kk, "plmn-wire", fmt.Sprintf("PlmnIDToNas(%s,%s) = %x, TS 24.008 layout %x", mcc, mnc, got, want))
				}
				wbuf := want
				txt := nasConvert.PlmnIDToString(wbuf[:])
				n++
				if wbuf != want {
					kk := &core.Case{Oracle: "plmn-one", Target: "nasConvert.PlmnIDToString", S: []string{mcc, mnc}}
					c.Fail(kk, "input-mutated", fmt.Sprintf("PlmnIDToString changed the caller's octets %x -> %x", want, wbuf))
				}
				if txt != mcc+mnc {
					kk := &core.Case{Oracle: "plmn-one", Target: "nasConvert.PlmnIDToString", S: []string{mcc, mnc}}
					c.Fail(kk, "plmn-text", fmt.Sprintf("PlmnIDToString(%x) = %q, want %q", want, txt, mcc+mnc))
				}
			}
		}
		c.J.Tick()
	}
	c.Eval(n)
	c.Count("plmns", n/2)
}

func c12PlmnOne(c *core.Ctx, k *core.Case) {
	mcc, mnc := k.S[0], k.S[1]
	want := refconv.PlmnWire(mcc, mnc)
	got := nasConvert.PlmnIDToNas(models.PlmnId{Mcc: mcc, Mnc: mnc})
	c.Eval(2)
	if !bytes.Equal(got, want[:]) {
		c.Fail(k, "plmn-wire", fmt.Sprintf("PlmnIDToNas(%s,%s) = %x, TS 24.008 layout %x", mcc, mnc, got, want))
	}
	if txt := nasConvert.PlmnIDToString(want[:]); txt != mcc+mnc {
		c.Fail(k, "plmn-text", fmt.Sprintf("PlmnIDToString(%x) = %q, want %q", want, txt, mcc+mnc))
	}
}

// oracle "amf": I=[lo, hi) of the 24-bit AMF identifier
func c12Amf(c *core.Ctx, k *core.Case) {
	var n int64
	for v := uint32(k.I[0]); v < uint32(k.I[1]); v++ {
		region, set, ptr := refconv.AmfIDSplit(v)
		want := refconv.AmfIDHex(region, set, ptr)
		got := nasConvert.AmfIdToModels(region, set, ptr)
		n++
		if got != want {
			kk := &core.Case{Oracle: "amf", Target: "nasConvert.AmfIdToModels", I: []int64{int64(v), int64(v) + 1}}
			c.Fail(kk, "amfid-text", fmt.Sprintf("AmfIdToModels(region %#x, set %#x, pointer %#x) = %q, region||set||pointer is %q", region, set, ptr, got, want))
		}
		r2, s2, p2, err := nasConvert.AmfIdToNasWithError(want)
		n++
		if err != nil || r2 != region || s2 != set || p2 != ptr {
			kk := &core.Case{Oracle: "amf", Target: "nasConvert.AmfIdToNasWithError", I: []int64{int64(v), int64(v) + 1}}
			c.Fail(kk, "amfid-wire", fmt.Sprintf("AmfIdToNasWithError(%q) = (%#x,%#x,%#x,%v), want (%#x,%#x,%#x)", want, r2, s2, p2, err, region, set, ptr))
		}
		if r3, s3, p3 := nasConvert.AmfIdToNas(want); r3 != region || s3 != set || p3 != ptr {
			kk := &core.Case{Oracle: "amf", Target: "nasConvert.AmfIdToNas", I: []int64{int64(v), int64(v) + 1}}
			c.Fail(kk, "amfid-wire", fmt.Sprintf("AmfIdToNas(%q) = (%#x,%#x,%#x), want (%#x,%#x,%#x)", want, r3, s3, p3, region, set, ptr))
		}
		if v&0xffff == 0 {
			c.J.Tick()
		}
	}
	c.Eval(n)
	c.Count("amf_ids", n/2)
}

// oracle "guti": S=[mcc, mnc] I=[amf, tmsi]
func c12Guti(c *core.Ctx, k *core.Case) {
	mcc, mnc := k.S[0], k.S[1]
	amf, tmsi := uint32(k.I[0]), uint32(k.I[1])
	wire := refconv.GutiWire(mcc, mnc, amf, tmsi)
	text := refconv.GutiText(mcc, mnc, amf, tmsi)
	c.Eval(1)
	// wire -> text (twice on the same buffer: the caller's octets must survive the conversion)
	wbuf := cloneB(wire)
	guami, gt, err := nasConvert.GutiToStringWithError(wbuf)
	if _, gt2, _ := nasConvert.GutiToStringWithError(wbuf); !bytes.Equal(wbuf, wire) || gt2 != gt {
		c.Fail(k, "input-mutated", fmt.Sprintf("GutiToStringWithError changed the caller's buffer %x -> %x (second conversion gives %q)", wire, wbuf, gt2))
	}
	if err != nil || gt != text {
		c.Fail(k, "guti-text", fmt.Sprintf("GutiToStringWithError(%x) = %q, %v; want %q", wire, gt, err, text))
	} else if guami.PlmnId == nil || guami.PlmnId.Mcc != mcc || guami.PlmnId.Mnc != mnc || guami.AmfId != fmt.Sprintf("%06x", amf) {
		c.Fail(k, "guti-guami", fmt.Sprintf("GutiToStringWithError(%x): guami %+v / %+v, want %s %s %06x", wire, guami, guami.PlmnId, mcc, mnc, amf))
	}
	// text -> wire
	g, err := nasConvert.GutiToNasWithError(text)
	if err != nil {
		c.Fail(k, "guti-wire", fmt.Sprintf("GutiToNasWithError(%q): %v", text, err))
		return
	}
	if !bytes.Equal(g.Octet[:], wire) || g.Len != 11 {
		c.Fail(k, "guti-wire", fmt.Sprintf("GutiToNasWithError(%q) = Len %d Octet %x, TS 24.501 9.11.3.4 layout %x", text, g.Len, g.Octet, wire))
	}
	// upper-case hex must give the same octets
	if g2, err := nasConvert.GutiToNasWithError(strings.ToUpper(text)); err != nil || g2.Octet != g.Octet {
		c.Fail(k, "guti-wire-uppercase", fmt.Sprintf("GutiToNasWithError(%q): %v / %x", strings.ToUpper(text), err, g2.Octet))
	}
	// round trip through the non-error variants
	gn := nasConvert.GutiToNas(text)
	if _, t2 := nasConvert.GutiToString(gn.Octet[:]); t2 != text {
		c.Fail(k, "guti-roundtrip", fmt.Sprintf("GutiToString(GutiToNas(%q)) = %q", text, t2))
	}
	// accessor view of the same octets
	var e nasType.GUTI5G
	copy(e.Octet[:], wire)
	region, set, ptr := refconv.AmfIDSplit(amf)
	tm := e.GetTMSI5G()
	if e.GetAMFRegionID() != region || e.GetAMFSetID() != set || e.GetAMFPointer() != ptr || uint32(tm[0])<<24|uint32(tm[1])<<16|uint32(tm[2])<<8|uint32(tm[3]) != tmsi ||
		e.GetMCCDigit1() != mcc[0]-'0' || e.GetMCCDigit2() != mcc[1]-'0' || e.GetMCCDigit3() != mcc[2]-'0' || e.GetMNCDigit1() != mnc[0]-'0' || e.GetMNCDigit2() != mnc[1]-'0' {
		c.Fail(k, "guti-accessors", fmt.Sprintf("GUTI5G accessors on %x disagree with the identity (%s %s %06x %08x)", wire, mcc, mnc, amf, tmsi))
	}
	// mobile identity text getters
	mi := nasType.NewMobileIdentity5GS(0)
	mi.SetLen(uint16(len(wire)))
	mi.SetMobileIdentity5GSContents(wire)
	if s := mi.Get5GGUTI(); s != text {
		c.Fail(k, "mobileidentity-guti-text", fmt.Sprintf("MobileIdentity5GS.Get5GGUTI() on %x = %q, want %q", wire, s, text))
	}
	if s, ty, err := mi.GetMobileIdentity(); err != nil || ty != "5G-GUTI" || s != text {
		c.Fail(k, "mobileidentity-guti-text", fmt.Sprintf("GetMobileIdentity() on %x = %q,%q,%v", wire, s, ty, err))
	}
	if mi.GetMCC() != mcc || mi.GetMNC() != mnc || mi.GetPlmnID() != mcc+mnc || mi.GetAmfID() != fmt.Sprintf("%06x", amf) ||
		mi.GetAmfRegionID() != fmt.Sprintf("%02x", region) || mi.GetAmfSetID() != fmt.Sprint(set) || mi.GetAmfPointer() != fmt.Sprint(ptr) || mi.Get5GTMSI() != fmt.Sprintf("%08x", tmsi) {
		c.Fail(k, "mobileidentity-guti-parts", fmt.Sprintf("MobileIdentity5GS getters on %x: mcc %q mnc %q amf %q region %q set %q ptr %q tmsi %q", wire, mi.GetMCC(), mi.GetMNC(), mi.GetAmfID(), mi.GetAmfRegionID(), mi.GetAmfSetID(), mi.GetAmfPointer(), mi.Get5GTMSI()))
	}
	// 5G-S-TMSI of the same AMF set/pointer/TMSI
	sw := refconv.STmsiWire(set, ptr, tmsi)
	var ts nasType.TMSI5GS
	copy(ts.Octet[:], sw)
	wantS := fmt.Sprintf("%04x%08x", uint32(set)<<6|uint32(ptr), tmsi)
	if s, ty, err := ts.Get5GSTMSI(); err != nil || ty != "5G-S-TMSI" || s != wantS {
		c.Fail(k, "stmsi-text", fmt.Sprintf("TMSI5GS.Get5GSTMSI() on %x = %q,%q,%v; want %q", sw, s, ty, err, wantS))
	}
	tm2 := ts.GetTMSI5G()
	if ts.GetAMFSetID() != set || ts.GetAMFPointer() != ptr || uint32(tm2[0])<<24|uint32(tm2[1])<<16|uint32(tm2[2])<<8|uint32(tm2[3]) != tmsi {
		c.Fail(k, "stmsi-accessors", fmt.Sprintf("TMSI5GS accessors on %x: set %#x ptr %#x", sw, ts.GetAMFSetID(), ts.GetAMFPointer()))
	}
	// the same identities built through the setters, in every order of the three AMF / TMSI fields
	tmsiArr := [4]uint8{byte(tmsi >> 24), byte(tmsi >> 16), byte(tmsi >> 8), byte(tmsi)}
	for order := 0; order < 6; order++ {
		var b1 nasType.TMSI5GS
		var b2 nasType.GUTI5G
		copy(b1.Octet[:], sw) // start from the identity itself with the three fields cleared or dirty
		copy(b2.Octet[:], wire)
		if order%2 == 1 {
			b1.Octet[1], b1.Octet[2] = 0xff, 0xff
			b2.Octet[5], b2.Octet[6] = 0xff, 0xff
		} else {
			b1.Octet[1], b1.Octet[2] = 0, 0
			b2.Octet[5], b2.Octet[6] = 0, 0
		}
		steps := [][3]int{{0, 1, 2}, {0, 2, 1}, {1, 0, 2}, {1, 2, 0}, {2, 0, 1}, {2, 1, 0}}[order]
		for _, st := range steps {
			switch st {
			case 0:
				b1.SetAMFSetID(set)
				b2.SetAMFSetID(set)
			case 1:
				b1.SetAMFPointer(ptr)
				b2.SetAMFPointer(ptr)
			case 2:
				b1.SetTMSI5G(tmsiArr)
				b2.SetTMSI5G(tmsiArr)
			}
		}
		if !bytes.Equal(b1.Octet[:], sw) {
			c.Fail(k, "stmsi-setters", fmt.Sprintf("TMSI5GS built with the setters in order %v (0 set id, 1 pointer, 2 TMSI; fields %s before) = %x, layout %x", steps, []string{"zero", "all ones"}[order%2], b1.Octet, sw))
			break
		}
		if !bytes.Equal(b2.Octet[:], wire) {
			c.Fail(k, "guti-setters", fmt.Sprintf("GUTI5G built with the setters in order %v (0 set id, 1 pointer, 2 TMSI; fields %s before) = %x, layout %x", steps, []string{"zero", "all ones"}[order%2], b2.Octet, wire))
			break
		}
	}
	mi2 := nasType.NewMobileIdentity5GS(0)
	mi2.SetLen(7)
	mi2.SetMobileIdentity5GSContents(sw)
	if s, ty, err := mi2.Get5GSTMSI(); err != nil || ty != "5G-S-TMSI" || s != wantS {
		c.Fail(k, "mobileidentity-stmsi-text", fmt.Sprintf("MobileIdentity5GS.Get5GSTMSI() on %x = %q,%q,%v; want %q", sw, s, ty, err, wantS))
	}
	if mi2.GetAmfSetID() != fmt.Sprint(set) || mi2.GetAmfPointer() != fmt.Sprint(ptr) || mi2.Get5GTMSI() != fmt.Sprintf("%08x", tmsi) {
		c.Fail(k, "mobileidentity-stmsi-parts", fmt.Sprintf("getters on %x: set %q ptr %q tmsi %q", sw, mi2.GetAmfSetID(), mi2.GetAmfPointer(), mi2.Get5GTMSI()))
	}
}

// oracle "suci": S=[mcc, mnc, rid, msin] I=[scheme, hnkey] B=[raw scheme output]
func c12Suci(c *core.Ctx, k *core.Case) {
	mcc, mnc, rid, msin := k.S[0], k.S[1], k.S[2], k.S[3]
	scheme, hn := uint8(k.I[0]), uint8(k.I[1])
	wire := refconv.SuciWire(mcc, mnc, rid, scheme, hn, msin, k.B[0])
	text := refconv.SuciText(mcc, mnc, rid, scheme, hn, msin, k.B[0])
	c.Eval(1)
	sbuf := cloneB(wire)
	s, plmn, err := nasConvert.SuciToStringWithError(sbuf)
	if !bytes.Equal(sbuf, wire) {
		c.Fail(k, "input-mutated", fmt.Sprintf("SuciToStringWithError changed the caller's buffer %x -> %x", wire, sbuf))
	}
	if err != nil || s != text || plmn != mcc+mnc {
		c.Fail(k, "suci-text", fmt.Sprintf("SuciToStringWithError(%x) = %q,%q,%v; TS 24.501 9.11.3.4 text %q", wire, s, plmn, err, text))
	}
	if s2, p2 := nasConvert.SuciToString(cloneB(wire)); s2 != text || p2 != mcc+mnc {
		c.Fail(k, "suci-text", fmt.Sprintf("SuciToString(%x) = %q,%q", wire, s2, p2))
	}
	mi := nasType.NewMobileIdentity5GS(0)
	mi.SetLen(uint16(len(wire)))
	mi.SetMobileIdentity5GSContents(wire)
	if g := mi.GetSUCI(); g != text {
		c.Fail(k, "mobileidentity-suci-text", fmt.Sprintf("MobileIdentity5GS.GetSUCI() on %x = %q, want %q", wire, g, text))
	}
	if g, ty, err := mi.GetMobileIdentity(); err != nil || ty != "SUCI" || g != text {
		c.Fail(k, "mobileidentity-suci-text", fmt.Sprintf("GetMobileIdentity() on %x = %q,%q,%v", wire, g, ty, err))
	}
	if mi.GetMCC() != mcc || mi.GetMNC() != mnc {
		c.Fail(k, "mobileidentity-suci-parts", fmt.Sprintf("GetMCC/GetMNC on %x = %q/%q", wire, mi.GetMCC(), mi.GetMNC()))
	}
}

// oracle "nai": B=[nai octets]
func c12Nai(c *core.Ctx, k *core.Case) {
	wire := refconv.NaiWire(k.B[0])
	want := fmt.Sprintf("nai-1-%x", k.B[0])
	c.Eval(1)
	if s, _, err := nasConvert.SuciToStringWithError(cloneB(wire)); err != nil || s != want {
		c.Fail(k, "nai-text", fmt.Sprintf("SuciToStringWithError(%x) = %q,%v; want %q", wire, s, err, want))
	}
	if s := nasConvert.NaiToString(cloneB(wire)); s != want {
		c.Fail(k, "nai-text", fmt.Sprintf("NaiToString(%x) = %q; want %q", wire, s, want))
	}
}

// oracle "pei": S=[digits] I=[imeisv]
func c12Pei(c *core.Ctx, k *core.Case) {
	dg, sv := k.S[0], k.I[0] == 1
	wire := refconv.PeiWire(dg, sv)
	text := refconv.PeiText(dg, sv)
	c.Eval(1)
	pbuf := cloneB(wire)
	if _, err := nasConvert.PeiToStringWithError(pbuf); err != nil || !bytes.Equal(pbuf, wire) {
		c.Fail(k, "input-mutated", fmt.Sprintf("PeiToStringWithError changed the caller's buffer %x -> %x (err %v)", wire, pbuf, err))
	}
	if s, err := nasConvert.PeiToStringWithError(cloneB(wire)); err != nil || s != text {
		c.Fail(k, "pei-text", fmt.Sprintf("PeiToStringWithError(%x) = %q,%v; want %q", wire, s, err, text))
	}
	if s := nasConvert.PeiToString(cloneB(wire)); s != text {
		c.Fail(k, "pei-text", fmt.Sprintf("PeiToString(%x) = %q; want %q", wire, s, text))
	}
	mi := nasType.NewMobileIdentity5GS(0)
	mi.SetLen(uint16(len(wire)))
	mi.SetMobileIdentity5GSContents(wire)
	var g string
	if sv {
		g = mi.GetIMEISV()
	} else {
		g = mi.GetIMEI()
	}
	if g != text {
		c.Fail(k, "mobileidentity-pei-text", fmt.Sprintf("MobileIdentity5GS getter on %x = %q, want %q", wire, g, text))
	}
}

// oracle "ident-series": I=[seed, n] — consecutive identities that differ from
// their predecessor in ONE digit / nibble (what a network function sees: the same
// GUAMI, PLMN or home network over and over with small variations). A conversion
// that remembers part of its previous input (a partial-key cache, a reused
// builder) gives the previous answer for the changed part; the per-identity
// oracles, which draw every identity afresh, cannot see that.
func c12Series(c *core.Ctx, k *core.Case) {
	r := prng.New(uint64(k.I[0]))
	mcc, mnc := digits(r, 3), digits(r, 2+r.Intn(2))
	amf, tmsi := r.Uint32()&0xffffff, r.Uint32()
	rid, msin := digits(r, 1+r.Intn(4)), digits(r, 5+r.Intn(6))
	mutDigit := func(s string) string {
		b := []byte(s)
		i := r.Intn(len(b))
		b[i] = '0' + (b[i]-'0'+1+byte(r.Intn(9)))%10
		return string(b)
	}
	var trail []string
	var held [][2]string
	for i := 0; i < int(k.I[1]); i++ {
		what := "first"
		if i > 0 {
			switch r.Intn(7) {
			case 0:
				mcc, what = mutDigit(mcc), "one MCC digit"
			case 1:
				mnc, what = mutDigit(mnc), "one MNC digit"
			case 2:
				amf, what = amf^(uint32(1+r.Intn(15))<<(4*uint(r.Intn(6)))), "one AMF id nibble"
			case 3:
				tmsi, what = tmsi^(uint32(1+r.Intn(15))<<(4*uint(r.Intn(8)))), "one TMSI nibble"
			case 4:
				if len(mnc) == 2 {
					mnc += string('0' + byte(r.Intn(10)))
				} else {
					mnc = mnc[:2]
				}
				what = "MNC width"
			case 5:
				rid, what = mutDigit(rid), "one routing indicator digit"
			case 6:
				msin, what = mutDigit(msin), "one MSIN digit"
			}
		}
		trail = append(trail, what)
		if len(trail) > 6 {
			trail = trail[1:]
		}
		c.Eval(4)
		c.Cover("series_step", what)
		wire := refconv.GutiWire(mcc, mnc, amf, tmsi)
		text := refconv.GutiText(mcc, mnc, amf, tmsi)
		guami, gt, err := nasConvert.GutiToStringWithError(cloneB(wire))
		if err != nil || gt != text || guami.PlmnId == nil || guami.PlmnId.Mcc != mcc || guami.PlmnId.Mnc != mnc || guami.AmfId != fmt.Sprintf("%06x", amf) {
			plmn := "<nil>"
			if guami.PlmnId != nil {
				plmn = guami.PlmnId.Mcc + "/" + guami.PlmnId.Mnc
			}
			c.Fail(k, "series:guti-text", fmt.Sprintf("step %d (changed: %v): GutiToStringWithError(%x) = %q, guami %s %s, err %v; want %q, %s/%s %06x", i, trail, wire, gt, plmn, guami.AmfId, err, text, mcc, mnc, amf))
			return
		}
		if g, err := nasConvert.GutiToNasWithError(text); err != nil || !bytes.Equal(g.Octet[:], wire) {
			c.Fail(k, "series:guti-wire", fmt.Sprintf("step %d (changed: %v): GutiToNasWithError(%q) = %x, %v; want %x", i, trail, text, g.Octet, err, wire))
			return
		}
		mi := nasType.NewMobileIdentity5GS(0)
		mi.SetLen(uint16(len(wire)))
		mi.SetMobileIdentity5GSContents(wire)
		if s := mi.Get5GGUTI(); s != text || mi.GetPlmnID() != mcc+mnc || mi.GetAmfID() != fmt.Sprintf("%06x", amf) || mi.Get5GTMSI() != fmt.Sprintf("%08x", tmsi) {
			c.Fail(k, "series:mobileidentity-guti", fmt.Sprintf("step %d (changed: %v): getters on %x: %q plmn %q amf %q tmsi %q; want %q", i, trail, wire, s, mi.GetPlmnID(), mi.GetAmfID(), mi.Get5GTMSI(), text))
			return
		}
		pw := refconv.PlmnWire(mcc, mnc)
		if got := nasConvert.PlmnIDToNas(models.PlmnId{Mcc: mcc, Mnc: mnc}); !bytes.Equal(got, pw[:]) || nasConvert.PlmnIDToString(pw[:]) != mcc+mnc {
			c.Fail(k, "series:plmn", fmt.Sprintf("step %d (changed: %v): PlmnIDToNas(%s,%s) = %x, PlmnIDToString(%x) = %q", i, trail, mcc, mnc, got, pw, nasConvert.PlmnIDToString(pw[:])))
			return
		}
		sw := refconv.SuciWire(mcc, mnc, rid, 0, 0, msin, nil)
		st := refconv.SuciText(mcc, mnc, rid, 0, 0, msin, nil)
		if s, plmn, err := nasConvert.SuciToStringWithError(cloneB(sw)); err != nil || s != st || plmn != mcc+mnc {
			c.Fail(k, "series:suci-text", fmt.Sprintf("step %d (changed: %v): SuciToStringWithError(%x) = %q,%q,%v; want %q", i, trail, sw, s, plmn, err, st))
			return
		}
		region, set, ptr := refconv.AmfIDSplit(amf)
		if got := nasConvert.AmfIdToModels(region, set, ptr); got != fmt.Sprintf("%06x", amf) {
			c.Fail(k, "series:amfid", fmt.Sprintf("step %d (changed: %v): AmfIdToModels(%#x,%#x,%#x) = %q", i, trail, region, set, ptr, got))
			return
		}
		// a text the library returned is a value: the caller keeps it (a log line, a map key, a
		// context field) while later identities are converted, and it stays what it was
		var ts nasType.TMSI5GS
		copy(ts.Octet[:], refconv.STmsiWire(set, ptr, tmsi))
		st5, _, _ := ts.Get5GSTMSI()
		ms1, _, _ := mi.GetMobileIdentity()
		ss, sp, _ := nasConvert.SuciToStringWithError(cloneB(sw))
		for _, t := range []string{gt, st5, ms1, mi.Get5GGUTI(), mi.GetPlmnID(), mi.GetAmfID(), mi.Get5GTMSI(), mi.GetAmfSetID(), mi.GetAmfPointer(), mi.GetAmfRegionID(), ss, sp, nasConvert.PlmnIDToString(pw[:]), nasConvert.AmfIdToModels(region, set, ptr), guami.AmfId} {
			if len(held) < 4096 {
				held = append(held, [2]string{t, strings.Clone(t)})
			}
		}
		for hi, h := range held {
			if h[0] != h[1] {
				c.Fail(k, "series:returned-text-changed-later", fmt.Sprintf("step %d: a text returned %d calls ago read %q when it was returned and reads %q now", i, len(held)-hi, h[1], h[0]))
				return
			}
		}
	}
	c.Count("series", 1)
}

// oracle "shared-input": I=[seed, workers, iterations] — several goroutines convert the SAME
// wire octets (one received identity looked at by several handlers) at the same time. The
// conversions are functions of their argument: every result must be the text of that
// identity, and the octets must be unchanged afterwards.
func c12SharedInput(c *core.Ctx, k *core.Case) {
	r := prng.New(uint64(k.I[0]))
	g, iters := int(k.I[1]), raceScale(int(k.I[2]))
	mcc, mnc := digits(r, 3), digits(r, 2+r.Intn(2))
	amf, tmsi := r.Uint32()&0xffffff, r.Uint32()
	rid, msin := digits(r, 1+r.Intn(4)), digits(r, 5+r.Intn(6))
	guti, gutiText := refconv.GutiWire(mcc, mnc, amf, tmsi), refconv.GutiText(mcc, mnc, amf, tmsi)
	suci, suciText := refconv.SuciWire(mcc, mnc, rid, 0, 0, msin, nil), refconv.SuciText(mcc, mnc, rid, 0, 0, msin, nil)
	pd := digits(r, 15)
	pei, peiText := refconv.PeiWire(pd, false), refconv.PeiText(pd, false)
	pw := refconv.PlmnWire(mcc, mnc)
	plmn := pw[:]
	snap := [][]byte{cloneB(guti), cloneB(suci), cloneB(pei), cloneB(plmn)}
	mi := nasType.NewMobileIdentity5GS(0)
	mi.SetLen(uint16(len(suci)))
	mi.SetMobileIdentity5GSContents(suci) // shares the octets with the conversions below
	msgs := concurrentProbe(g, iters, func(w, i int) string {
		switch (w + i) % 5 {
		case 0:
			if _, s, err := nasConvert.GutiToStringWithError(guti); err != nil || s != gutiText {
				return fmt.Sprintf("GutiToStringWithError on shared octets %x = %q, %v; want %q", snap[0], s, err, gutiText)
			}
		case 1:
			if s, p, err := nasConvert.SuciToStringWithError(suci); err != nil || s != suciText || p != mcc+mnc {
				return fmt.Sprintf("SuciToStringWithError on shared octets %x = %q, %q, %v; want %q", snap[1], s, p, err, suciText)
			}
		case 2:
			if s, err := nasConvert.PeiToStringWithError(pei); err != nil || s != peiText {
				return fmt.Sprintf("PeiToStringWithError on shared octets %x = %q, %v; want %q", snap[2], s, err, peiText)
			}
		case 3:
			if s := nasConvert.PlmnIDToString(plmn); s != mcc+mnc {
				return fmt.Sprintf("PlmnIDToString on shared octets %x = %q; want %q", snap[3], s, mcc+mnc)
			}
		case 4:
			if s := mi.GetSUCI(); s != suciText {
				return fmt.Sprintf("MobileIdentity5GS.GetSUCI on shared octets = %q; want %q", s, suciText)
			}
		}
		return ""
	})
	c.Eval(int64(g * iters))
	c.Count("shared_input_calls", int64(g*iters))
	if len(msgs) > 0 {
		c.Fail(k, "shared-input-concurrent-mismatch", fmt.Sprintf("%d workers reading the same octets: %s", g, msgs[0]))
		return
	}
	for i, b := range [][]byte{guti, suci, pei, plmn} {
		if !bytes.Equal(b, snap[i]) {
			c.Fail(k, "input-mutated:shared", fmt.Sprintf("the shared octets changed: %x -> %x", snap[i], b))
		}
	}
}

// oracle "invalid": S=[function, text] — invalid text must be reported as an error
func c12Invalid(c *core.Ctx, k *core.Case) {
	fn, txt := k.S[0], k.S[1]
	c.Eval(1)
	var err error
	switch fn {
	case "GutiToNasWithError":
		_, err = nasConvert.GutiToNasWithError(txt)
	case "AmfIdToNasWithError":
		_, _, _, err = nasConvert.AmfIdToNasWithError(txt)
	}
	if err == nil {
		c.Fail(k, "invalid-text-accepted:"+fn+":"+k.S[2], fmt.Sprintf("%s(%q) returned no error (%s)", fn, txt, k.S[2]))
	}
}

func init() {
	p := &core.Property{
		ID:         "C12",
		Interleave: []string{"guti", "suci", "nai", "pei", "invalid", "plmn-one"},
		Rule:       "PLMN: all 1 100 000 (MCC, MNC) pairs through PlmnIDToNas and PlmnIDToString; AMF id: all 2^24 values through AmfIdToModels and AmfIdToNasWithError; GUTI / 5G-S-TMSI: PLMN sample × AMF sample × TMSI patterns through GutiTo*WithError, GutiTo*, the GUTI5G / TMSI5GS accessors and the MobileIdentity5GS text getters; SUCI: routing indicator 1–4 digits, schemes 0/1/2/other, MSIN 5–10 digits, NAI; PEI: 15/16-digit strings; invalid-text families (wrong length, non-digit, non-hex, hex of the wrong size). Non-trivial = every case (each compares against the TS layout); distinct by identity.",
		Assumptions: []string{
			"reference renderers/builders written from TS 24.501 9.11.3.4, TS 24.008 10.5.1.3 and TS 23.003 (AMF id = region 8 || set 10 || pointer 6)",
			"hex text is lower case as the library emits it; upper-case input must convert to the same octets",
		},
		Oracles: map[string]func(*core.Ctx, *core.Case){"cold-entries": coldEntries, "cold-concurrent": coldConcurrent, "plmn": c12Plmn, "plmn-one": c12PlmnOne, "amf": c12Amf, "guti": c12Guti, "suci": c12Suci, "nai": c12Nai, "pei": c12Pei, "invalid": c12Invalid, "ident-series": c12Series, "shared-input": c12SharedInput},
		Exhaustive: func(tier string) (bool, string) {
			return true, "all PLMNs and all 2^24 AMF identifiers; TMSI, SUCI and PEI spaces sampled"
		},
		Floors: func(tier string, cov map[string]map[string]int64, cnt map[string]int64) []string {
			var f []string
			if cnt["plmns"] != 1100000 {
				f = append(f, fmt.Sprintf("%d of 1100000 PLMNs", cnt["plmns"]))
			}
			if cnt["amf_ids"] != 1<<24 {
				f = append(f, fmt.Sprintf("%d of 2^24 AMF ids", cnt["amf_ids"]))
			}
			if cnt["series"] == 0 {
				f = append(f, "no near-duplicate identity series completed")
			}
			for _, kd := range []string{"guti", "suci", "nai", "pei", "invalid"} {
				if cov["kind"][kd] == 0 {
					f = append(f, "identity kind not exercised: "+kd)
				}
			}
			return f
		},
	}
	p.Units = func(tier string) []core.Unit {
		var us []core.Unit
		for m := 0; m < 1000; m += 25 {
			m := m
			us = append(us, core.Unit{Name: fmt.Sprintf("plmn-%03d", m), Weight: 30, Run: func(c *core.Ctx) {
				c.Do(&core.Case{Oracle: "plmn", Target: "nasConvert.PlmnIDToNas", I: []int64{int64(m), int64(m + 25)}})
				c.NonTrivial(core.HashU64(0, uint64(m)))
			}})
		}
		for a := 0; a < 1<<24; a += 1 << 18 {
			a := a
			us = append(us, core.Unit{Name: fmt.Sprintf("amf-%06x", a), Weight: 60, Run: func(c *core.Ctx) {
				c.Do(&core.Case{Oracle: "amf", Target: "nasConvert.AmfIdToModels", I: []int64{int64(a), int64(a + 1<<18)}})
				c.NonTrivial(core.HashU64(1, uint64(a)))
			}})
		}
		us = append(us, core.Unit{Name: "shared-input", Weight: 30, Run: func(c *core.Ctx) {
			for i := 0; i < c.Pick(6, 40); i++ {
				k := &core.Case{Oracle: "shared-input", Target: "nasConvert", I: []int64{int64(c.R.Uint64() >> 1), 8, int64(c.Pick(20000, 100000))}}
				c.Do(k)
				c.NonTrivial(k.Hash())
			}
		}})
		for u := 0; u < 16; u++ {
			u := u
			us = append(us, core.Unit{Name: fmt.Sprintf("series-%02d", u), Weight: 20, Run: func(c *core.Ctx) {
				for i := 0; i < c.Pick(40, 1500); i++ {
					k := &core.Case{Oracle: "ident-series", Target: "nasConvert", I: []int64{int64(c.R.Uint64() >> 1), int64(c.R.Range(2, 40))}}
					c.Do(k)
					c.NonTrivial(k.Hash())
				}
			}})
		}
		for u := 0; u < 16; u++ {
			u := u
			us = append(us, core.Unit{Name: fmt.Sprintf("ids-%02d", u), Weight: 40, Run: func(c *core.Ctx) {
				n := c.Pick(1500, 40000)
				for i := 0; i < n; i++ {
					mcc := digits(c.R, 3)
					mnc := digits(c.R, 2+c.R.Intn(2))
					var amf, tmsi uint32
					switch i % 5 {
					case 0:
						amf, tmsi = 0, 0
					case 1:
						amf, tmsi = 0xffffff, 0xffffffff
					case 2:
						amf, tmsi = 1<<uint(c.R.Intn(24)), 1<<uint(c.R.Intn(32))
					default:
						amf, tmsi = c.R.Uint32()&0xffffff, c.R.Uint32()
					}
					k := &core.Case{Oracle: "guti", Target: "nasConvert.Guti", S: []string{mcc, mnc}, I: []int64{int64(amf), int64(tmsi)}}
					c.Do(k)
					c.Cover("kind", "guti")
					c.NonTrivial(k.Hash())
					c.Sample(k.Brief())
					// SUCI
					scheme := []uint8{0, 0, 1, 2, 3, 15}[c.R.Intn(6)]
					rid := digits(c.R, 1+c.R.Intn(4))
					msin := digits(c.R, 5+c.R.Intn(6))
					raw := c.R.Bytes(c.R.Range(1, 60))
					ks := &core.Case{Oracle: "suci", Target: "nasConvert.SuciToStringWithError", S: []string{mcc, mnc, rid, msin}, I: []int64{int64(scheme), int64(c.R.Byte())}, B: [][]byte{raw}}
					c.Do(ks)
					c.Cover("kind", "suci")
					c.Cover("suci_scheme", fmt.Sprint(scheme))
					c.Cover("suci_rid_digits", fmt.Sprint(len(rid)))
					c.NonTrivial(ks.Hash())
					if i%4 == 0 {
						kn := &core.Case{Oracle: "nai", Target: "nasConvert.NaiToString", B: [][]byte{c.R.Bytes(c.R.Range(1, 50))}}
						c.Do(kn)
						c.Cover("kind", "nai")
						c.NonTrivial(kn.Hash())
					}
					sv := int64(i % 2)
					kp := &core.Case{Oracle: "pei", Target: "nasConvert.PeiToStringWithError", S: []string{digits(c.R, 15+int(sv))}, I: []int64{sv}}
					c.Do(kp)
					c.Cover("kind", "pei")
					c.NonTrivial(kp.Hash())
					if i%3 == 0 {
						good := refconv.GutiText(mcc, mnc, amf, tmsi)
						type bad struct{ fn, txt, why string }
						pos := c.R.Intn(len(good))
						bads := []bad{
							{"GutiToNasWithError", good[:18-c.R.Intn(6)], "too-short"}, // 19 and 20 characters are both legal lengths
							{"GutiToNasWithError", (good + digits(c.R, 4))[:21+c.R.Intn(3)], "too-long"},
							{"GutiToNasWithError", "x" + good[1:], "non-digit-mcc"},
							{"GutiToNasWithError", good[:3] + "a" + good[4:], "non-digit-mnc"},
							{"GutiToNasWithError", good[:len(good)-3] + "g" + good[len(good)-2:], "non-hex-tmsi"},
							{"GutiToNasWithError", good[:len(mcc)+len(mnc)+2] + "z" + good[len(mcc)+len(mnc)+3:], "non-hex-amfid"},
							{"AmfIdToNasWithError", "", "empty"},
							{"AmfIdToNasWithError", fmt.Sprintf("%02x", amf&0xff), "one-octet"},
							{"AmfIdToNasWithError", fmt.Sprintf("%04x", amf&0xffff), "two-octets"},
							{"AmfIdToNasWithError", fmt.Sprintf("%08x", tmsi), "four-octets"},
							{"AmfIdToNasWithError", fmt.Sprintf("%05x", amf&0xfffff), "odd-length"},
							{"AmfIdToNasWithError", "zz" + fmt.Sprintf("%04x", amf&0xffff), "non-hex"},
							{"AmfIdToNasWithError", "+" + fmt.Sprintf("%05x", amf&0xfffff), "plus-sign"},
							{"AmfIdToNasWithError", "-" + fmt.Sprintf("%05x", amf&0xfffff), "minus-sign"},
							{"AmfIdToNasWithError", " " + fmt.Sprintf("%05x", amf&0xfffff), "leading-space"},
							{"AmfIdToNasWithError", fmt.Sprintf("%05x", amf&0xfffff) + " ", "trailing-space"},
							{"AmfIdToNasWithError", "0x" + fmt.Sprintf("%04x", amf&0xffff), "0x-prefix"},
							{"AmfIdToNasWithError", fmt.Sprintf("%03x", amf&0xfff) + "_" + fmt.Sprintf("%02x", amf&0xff), "underscore"},
							{"GutiToNasWithError", good[:len(mcc)+len(mnc)] + "+" + good[len(mcc)+len(mnc)+1:], "sign-in-amfid"},
							{"GutiToNasWithError", good[:len(mcc)+len(mnc)] + "-" + good[len(mcc)+len(mnc)+1:], "minus-in-amfid"},
							{"GutiToNasWithError", good[:len(good)-8] + "+" + good[len(good)-7:], "sign-in-tmsi"},
							{"GutiToNasWithError", "+" + good[1:], "sign-in-mcc"},
							{"GutiToNasWithError", good[:3] + " " + good[4:], "space-in-mnc"},
						}
						_ = pos
						for _, b := range bads {
							kb := &core.Case{Oracle: "invalid", Target: "nasConvert." + b.fn, S: []string{b.fn, b.txt, b.why}}
							c.Do(kb)
							c.Cover("kind", "invalid")
							c.NonTrivial(kb.Hash())
						}
					}
				}
			}})
		}
		// cold starts are the scarce resource here: eight processes (thorough: sixteen), 128
		// goroutines released from a spinning barrier, the first library call of most items a getter
		nCold := 8
		if tier == "thorough" {
			nCold = 16
		}
		for i := 0; i < nCold; i++ {
			us = append(us, coldUnitN("nasConvert", i, 128, "getters", "getters", "ident", "bad-input"))
		}
		us = append(us, coldEntryUnits(tier, "nasConvert", "ident")...)
		return us
	}
	core.Register(p)
}
