package monitor

import (
	"bytes"
	"fmt"
	"reflect"

	"github.com/free5gc/nas/nasConvert"
	"github.com/free5gc/nas/uePolicyContainer"
	"github.com/free5gc/openapi/models"

	"verifharness/internal/core"
	"verifharness/internal/prng"
	"verifharness/internal/refconv"
)

// C18 — UE policy container codec: total, round-trips, PLMN per TS 24.008.

type uPart struct {
	typ byte
	val []byte
}
type uInstr struct {
	upsc  uint16
	parts []uPart
}
type uSub struct {
	mcc, mnc int
	instrs   []uInstr
}
type uResult struct{ upsc, order uint16 }
type uSubRes struct {
	mcc, mnc int
	results  []uResult
}

func plmnStrings(mcc, mnc int) (string, string) {
	m := fmt.Sprintf("%03d", mcc)
	if mnc < 100 {
		return m, fmt.Sprintf("%02d", mnc)
	}
	return m, fmt.Sprintf("%03d", mnc)
}

func be16(v int) []byte { return []byte{byte(v >> 8), byte(v)} }

// refSubLists serialises D.6.2 contents; every length is computed from content.
func refSubLists(subs []uSub) []byte {
	var out []byte
	for _, s := range subs {
		var ib []byte
		for _, in := range s.instrs {
			var pb []byte
			for _, p := range in.parts {
				pb = append(pb, be16(1+len(p.val))...)
				pb = append(pb, p.typ)
				pb = append(pb, p.val...)
			}
			ib = append(ib, be16(2+len(pb))...)
			ib = append(ib, be16(int(in.upsc))...)
			ib = append(ib, pb...)
		}
		mc, mn := plmnStrings(s.mcc, s.mnc)
		pl := refconv.PlmnWire(mc, mn)
		out = append(out, be16(3+len(ib))...)
		out = append(out, pl[:]...)
		out = append(out, ib...)
	}
	return out
}

func refSubResults(subs []uSubRes) []byte {
	var out []byte
	for _, s := range subs {
		var rb []byte
		for _, r := range s.results {
			rb = append(rb, be16(int(r.upsc))...)
			rb = append(rb, be16(int(r.order))...)
			rb = append(rb, 0x6f)
		}
		mc, mn := plmnStrings(s.mcc, s.mnc)
		pl := refconv.PlmnWire(mc, mn)
		out = append(out, be16(3+len(rb))...)
		out = append(out, pl[:]...)
		out = append(out, rb...)
	}
	return out
}

func genSubs(r *prng.Rand, n int) []uSub {
	var out []uSub
	for i := 0; i < n; i++ {
		s := uSub{mcc: r.Range(99, 999), mnc: r.Range(9, 999)}
		if r.Bool() {
			s.mnc = r.Range(9, 99)
		}
		for j := r.Intn(4); j > 0; j-- {
			in := uInstr{upsc: uint16(r.Uint32())}
			for q := r.Intn(4); q > 0; q-- {
				pn := r.Intn(30)
				if r.Chance(1, 25) {
					pn = []int{254, 255, 256, 300, 5000}[r.Intn(5)] // lengths around the one-octet boundary and well beyond
				}
				in.parts = append(in.parts, uPart{typ: byte(1 + r.Intn(4)), val: r.Bytes(pn)})
			}
			s.instrs = append(s.instrs, in)
		}
		out = append(out, s)
	}
	return out
}

// bigSubs builds one sublist whose D.6.2 encoding is exactly total octets long
// (total >= 64): four instructions with one policy part each.
func bigSubs(r *prng.Rand, total int) []uSub {
	s := uSub{mcc: r.Range(99, 999), mnc: r.Range(9, 99)}
	const k = 4
	rest := total - 5 - 7*k // sublist header 2+3, per instruction 2+2, per part 2+1
	for i := 0; i < k; i++ {
		pn := rest / k
		if i == k-1 {
			pn = rest - (k-1)*(rest/k)
		}
		s.instrs = append(s.instrs, uInstr{upsc: uint16(r.Uint32()), parts: []uPart{{typ: byte(1 + r.Intn(4)), val: r.Bytes(pn)}}})
	}
	return []uSub{s}
}

// countSubs builds lists whose *element counts* are large while every length field stays
// below 2^16: shape 1 = n policy parts in one instruction, 2 = n instructions in one
// sublist, 3 = n sublists. Contents are 0..2 octets so that several thousand elements fit.
func countSubs(r *prng.Rand, shape, n int) []uSub {
	part := func() uPart { return uPart{typ: byte(1 + r.Intn(4)), val: r.Bytes(r.Intn(3))} }
	switch shape {
	case 1:
		in := uInstr{upsc: uint16(r.Uint32())}
		for i := 0; i < n; i++ {
			in.parts = append(in.parts, part())
		}
		return []uSub{{mcc: r.Range(99, 999), mnc: r.Range(9, 99), instrs: []uInstr{in}}}
	case 2:
		s := uSub{mcc: r.Range(99, 999), mnc: r.Range(9, 999)}
		for i := 0; i < n; i++ {
			in := uInstr{upsc: uint16(r.Uint32())}
			if i%7 == 0 {
				in.parts = append(in.parts, part())
			}
			s.instrs = append(s.instrs, in)
		}
		return []uSub{s}
	}
	var out []uSub
	for i := 0; i < n; i++ {
		s := uSub{mcc: r.Range(99, 999), mnc: r.Range(9, 999)}
		if i%9 == 0 {
			s.instrs = append(s.instrs, uInstr{upsc: uint16(r.Uint32()), parts: []uPart{part()}})
		}
		out = append(out, s)
	}
	return out
}

// libSubLists builds the same structure through the library's API.
func libSubLists(subs []uSub) (uePolicyContainer.UEPolicySectionManagementListContent, error) {
	return libSubListsT(subs, false)
}

// libSubListsT: with template=true ONE sublist value is filled again and again and appended
// by value each time (AppendSublist copies it), the way a builder loop with a variable declared
// outside the loop works; the copies already appended must keep their own PLMN.
func libSubListsT(subs []uSub, template bool) (uePolicyContainer.UEPolicySectionManagementListContent, error) {
	var lc uePolicyContainer.UEPolicySectionManagementListContent
	var tmpl uePolicyContainer.UEPolicySectionManagementSubList
	for _, s := range subs {
		var sl uePolicyContainer.UEPolicySectionManagementSubList
		if template {
			tmpl.UEPolicySectionManagementSubListContents = nil
			sl = tmpl // value copy of the template as it is (shares whatever it points to)
		}
		if err := sl.SetPlmnDigit(s.mcc, s.mnc); err != nil {
			return nil, err
		}
		if template {
			tmpl = sl
		}
		for _, in := range s.instrs {
			var li uePolicyContainer.Instruction
			li.SetUpsc(in.upsc)
			var one uePolicyContainer.UEPolicyPart // template mode: ONE part variable, refilled for every part
			for _, p := range in.parts {
				var fresh uePolicyContainer.UEPolicyPart
				lp := &fresh
				if template {
					lp = &one
				}
				lp.UEPolicyPartType.SetPartType(p.typ)
				lp.SetPartContent(cloneB(p.val))
				li.UEPolicySectionContents.AppendUEPolicyPart(lp)
			}
			sl.UEPolicySectionManagementSubListContents.AppendInstruction(li)
		}
		lc.AppendSublist(sl)
	}
	return lc, nil
}

func cmpSubLists(model []uSub, lc uePolicyContainer.UEPolicySectionManagementListContent) string {
	if len(lc) != len(model) {
		return fmt.Sprintf("%d sublists, want %d", len(lc), len(model))
	}
	for i, s := range model {
		l := lc[i]
		if l.Mcc == nil || l.Mnc == nil || *l.Mcc != s.mcc || *l.Mnc != s.mnc {
			got := "nil"
			if l.Mcc != nil && l.Mnc != nil {
				got = fmt.Sprintf("%d/%d", *l.Mcc, *l.Mnc)
			}
			return fmt.Sprintf("sublist %d: PLMN %s, want %d/%d", i, got, s.mcc, s.mnc)
		}
		if len(l.UEPolicySectionManagementSubListContents) != len(s.instrs) {
			return fmt.Sprintf("sublist %d: %d instructions, want %d", i, len(l.UEPolicySectionManagementSubListContents), len(s.instrs))
		}
		total := 3
		for j, in := range s.instrs {
			li := l.UEPolicySectionManagementSubListContents[j]
			if li.Upsc != in.upsc || len(li.UEPolicySectionContents) != len(in.parts) {
				return fmt.Sprintf("sublist %d instruction %d: upsc %d with %d parts, want %d with %d", i, j, li.Upsc, len(li.UEPolicySectionContents), in.upsc, len(in.parts))
			}
			il := 2
			for q, p := range in.parts {
				lp := li.UEPolicySectionContents[q]
				if lp.UEPolicyPartType.GetPartType() != p.typ || !bytes.Equal(lp.GetPartContent(), p.val) || int(lp.GetLen()) != 1+len(p.val) {
					return fmt.Sprintf("sublist %d instruction %d part %d: type %d len %d contents %x, want type %d contents %x", i, j, q, lp.UEPolicyPartType.GetPartType(), lp.GetLen(), lp.GetPartContent(), p.typ, p.val)
				}
				il += 2 + 1 + len(p.val)
			}
			if int(li.GetLen()) != il {
				return fmt.Sprintf("sublist %d instruction %d: Len %d, %d octets follow", i, j, li.GetLen(), il)
			}
			total += 2 + il
		}
		if int(l.GetLen()) != total {
			return fmt.Sprintf("sublist %d: Len %d, %d octets follow", i, l.GetLen(), total)
		}
	}
	return ""
}

// oracle "command": I=[seed, nSub, withClassmark]
func c18Command(c *core.Ctx, k *core.Case) {
	r := prng.New(uint64(k.I[0]))
	model := genSubs(r, int(k.I[1]))
	if len(k.I) > 3 && k.I[3] >= 64 {
		model = bigSubs(r, int(k.I[3])) // list contents of exactly I[3] octets
		c.Cover("list_content_octets", fmt.Sprint(k.I[3]))
	}
	if len(k.I) > 5 && k.I[4] >= 1 {
		model = countSubs(r, int(k.I[4]), int(k.I[5])) // element counts nobody tries by hand
		c.Cover("element_counts", fmt.Sprintf("shape%d:%d", k.I[4], k.I[5]))
	}
	pti := r.Byte()
	c.Eval(1)
	lc, err := libSubListsT(model, k.I[0]&8 == 8)
	if err != nil {
		c.Fail(k, "setter-rejects-valid-plmn", err.Error())
		return
	}
	// the built structure itself (before any encoding): every sublist reports its own PLMN
	for i, s := range model {
		if i < len(lc) && lc[i].Mcc != nil && lc[i].Mnc != nil {
			if mcc, mnc := lc[i].GetPlmnDigit(); mcc != s.mcc || mnc != s.mnc {
				c.Fail(k, "built-sublist-plmn", fmt.Sprintf("sublist %d of the list built through the API reports PLMN %d/%d, it was set to %d/%d (%d sublists, one sublist value filled repeatedly and appended by value: %v)", i, mcc, mnc, s.mcc, s.mnc, len(model), k.I[0]&8 == 8))
				break
			}
		}
	}
	content, err := lc.MarshalBinary()
	if err != nil {
		c.Fail(k, "list-marshal-error", err.Error())
		return
	}
	c.Hold(k, "uePolicyContainer.UEPolicySectionManagementListContent.MarshalBinary", content)
	want := refSubLists(model)
	if !bytes.Equal(content, want) {
		c.Fail(k, "list-layout", fmt.Sprintf("UEPolicySectionManagementListContent.MarshalBinary = %s, D.6.2 layout with TS 24.008 PLMN octets %s", hx(content), hx(want)))
	}
	// the nested decoder on its own
	var back uePolicyContainer.UEPolicySectionManagementListContent
	if err := thenScribble(back.UnmarshalBinary, content); err != nil {
		c.Fail(k, "list-unmarshal-error", fmt.Sprintf("UnmarshalBinary(%s): %v", hx(content), err))
		return
	}
	if d := cmpSubLists(model, back); d != "" {
		c.Fail(k, "list-roundtrip", fmt.Sprintf("%s (bytes %s)", d, hx(content)))
	}
	if ch, _ := appendProbe(reflect.ValueOf(&back)); ch || probeLists(reflect.ValueOf(&back)) {
		c.Fail(k, "decoded-slices-share-capacity:list", fmt.Sprintf("appending to the contents of one decoded policy part changed another part of the list (bytes %s)", hx(content)))
	}
	// every level's own MarshalBinary (list, sublist, contents, instruction, section, part):
	// results are the caller's and survive later calls
	c.Count("marshal_nodes", int64(marshalEverywhere(c, k, "uePolicyContainer", reflect.ValueOf(&lc).Elem(), 0)))
	// second marshal after the list was extended through the API: every length must be
	// recomputed from the new content (nothing learnt by the first marshal may stick)
	if len(model) > 0 {
		r2 := prng.New(uint64(k.I[0]) ^ 0x5a5a)
		si := r2.Intn(len(model))
		extra := uInstr{upsc: uint16(r2.Uint32()), parts: []uPart{{typ: byte(1 + r2.Intn(4)), val: r2.Bytes(r2.Intn(20))}}}
		model2 := append([]uSub(nil), model...)
		model2[si].instrs = append(append([]uInstr(nil), model[si].instrs...), extra)
		var li uePolicyContainer.Instruction
		li.SetUpsc(extra.upsc)
		var lp uePolicyContainer.UEPolicyPart
		lp.UEPolicyPartType.SetPartType(extra.parts[0].typ)
		lp.SetPartContent(cloneB(extra.parts[0].val))
		li.UEPolicySectionContents.AppendUEPolicyPart(&lp)
		lc[si].UEPolicySectionManagementSubListContents.AppendInstruction(li)
		// and to the list decoded from the first encoding
		back[si].UEPolicySectionManagementSubListContents.AppendInstruction(li)
		want2 := refSubLists(model2)
		if c2, err := lc.MarshalBinary(); err != nil || !bytes.Equal(c2, want2) {
			c.Fail(k, "remarshal-after-append", fmt.Sprintf("after AppendInstruction on sublist %d a second MarshalBinary gives %s (err %v), lengths computed from the new content give %s", si, hx(c2), err, hx(want2)))
		}
		if c3, err := back.MarshalBinary(); err != nil || !bytes.Equal(c3, want2) {
			c.Fail(k, "remarshal-decoded-after-append", fmt.Sprintf("a decoded list extended by AppendInstruction on sublist %d marshals to %s (err %v), expected %s", si, hx(c3), err, hx(want2)))
		}
	}
	// whole message through the delivery service
	msg := uePolicyContainer.NewUePolDeliverySer()
	msg.SetHeaderPTI(pti)
	msg.SetHeaderMessageType(uePolicyContainer.MsgTypeManageUEPolicyCommand)
	msg.ManageUEPolicyCommand = uePolicyContainer.NewManageUEPolicyCommand(uePolicyContainer.MsgTypeManageUEPolicyCommand)
	msg.ManageUEPolicyCommand.PTI.SetPTI(pti)
	msg.ManageUEPolicyCommand.UEPolicySectionManagementList.SetIei(0x6c)
	if k.I[0]&2 == 2 && len(content) < 60000 {
		// the list element held something longer before (a value that is filled a second time)
		longer := append(cloneB(content), r.Bytes(r.Range(1, 12))...)
		if k.I[0]&4 == 4 {
			longer = append(longer, 0x42, 0x02, 0x01, 0x00)[:len(content)+4] // a tail that would read as a classmark
		}
		msg.ManageUEPolicyCommand.UEPolicySectionManagementList.SetLen(uint16(len(longer)))
		msg.ManageUEPolicyCommand.UEPolicySectionManagementList.SetUEPolicySectionManagementListContent(longer)
	}
	msg.ManageUEPolicyCommand.UEPolicySectionManagementList.SetLen(uint16(len(content)))
	msg.ManageUEPolicyCommand.UEPolicySectionManagementList.SetUEPolicySectionManagementListContent(content)
	if k.I[2] == 1 {
		cm := uePolicyContainer.NewUEPolicyNetworkClassmark()
		cm.SetIei(0x42)
		_ = cm.SetNSSUI(uint8(k.I[0] & 1))
		msg.ManageUEPolicyCommand.UEPolicyNetworkClassmark = cm
	}
	wire, err := msg.UePolDeliverySerEncode()
	if err != nil {
		c.Fail(k, "command-encode-error", err.Error())
		return
	}
	c.Hold(k, "uePolicyContainer.UePolDeliverySer.UePolDeliverySerEncode", wire)
	if len(wire) < 5 || wire[0] != pti || wire[1] != uePolicyContainer.MsgTypeManageUEPolicyCommand || int(wire[3])<<8|int(wire[4]) != len(content) || !bytes.Equal(wire[5:5+len(content)], content) {
		c.Fail(k, "command-layout", fmt.Sprintf("encoded command %s does not carry PTI, type, length %d and the list contents", hx(wire), len(content)))
		return
	}
	dec := uePolicyContainer.NewUePolDeliverySer()
	if err := thenScribble(dec.UePolDeliverySerDecode, wire); err != nil {
		c.Fail(k, "command-decode-error", fmt.Sprintf("own encoding does not decode: %v (%s)", err, hx(wire)))
		return
	}
	cmd := dec.ManageUEPolicyCommand
	if cmd == nil || dec.ManageUEPolicyComplete != nil || dec.ManageUEPolicyReject != nil || dec.GetHeaderPTI() != pti || cmd.PTI.GetPTI() != pti ||
		cmd.UEPolicySectionManagementList.GetIei() != 0x6c || int(cmd.UEPolicySectionManagementList.GetLen()) != len(content) ||
		!bytes.Equal(cmd.UEPolicySectionManagementList.GetUEPolicySectionManagementListContent(), content) {
		c.Fail(k, "command-roundtrip", fmt.Sprintf("decoded command differs from the encoded one (wire %s)", hx(wire)))
		return
	}
	if (k.I[2] == 1) != (cmd.UEPolicyNetworkClassmark != nil) || (k.I[2] == 1 && (cmd.UEPolicyNetworkClassmark.GetIei() != 0x42 || cmd.UEPolicyNetworkClassmark.GetLen() != 2 || cmd.UEPolicyNetworkClassmark.GetNSSUI() != uint8(k.I[0]&1))) {
		c.Fail(k, "command-roundtrip-classmark", fmt.Sprintf("network classmark not recovered (wire %s)", hx(wire)))
	}
	c.Cover("sublists", fmt.Sprint(len(model)))
}

// c18Wire renders one delivery message without the library: kind 0/1 command
// without / with network classmark, 2 complete, 3 reject.
func c18Wire(r *prng.Rand, kind int) []byte {
	pti := r.Byte()
	switch kind {
	case 0, 1:
		content := refSubLists(genSubs(r, 1+r.Intn(3)))
		w := append([]byte{pti, uePolicyContainer.MsgTypeManageUEPolicyCommand, 0x6c}, be16(len(content))...)
		w = append(w, content...)
		if kind == 1 {
			w = append(w, 0x42, 0x02, byte(r.Intn(2)), 0x00)
		}
		return w
	case 2:
		return []byte{pti, uePolicyContainer.MsgTypeManageUEPolicyComplete}
	}
	var model []uSubRes
	for i := 1 + r.Intn(3); i > 0; i-- {
		s := uSubRes{mcc: r.Range(99, 999), mnc: r.Range(9, 999)}
		for j := r.Intn(3); j > 0; j-- {
			s.results = append(s.results, uResult{uint16(r.Uint32()), uint16(r.Uint32())})
		}
		model = append(model, s)
	}
	content := refSubResults(model)
	w := append([]byte{pti, uePolicyContainer.MsgTypeManageUEPolicyReject, 0x6d}, be16(len(content))...)
	return append(w, content...)
}

// oracle "delivery-reuse": I=[seed, n] — a sequence of delivery messages decoded into ONE
// UePolDeliverySer value; after every step the body of the message just decoded must equal
// what a fresh value decodes to and re-encode to the same octets.
func c18DeliveryReuse(c *core.Ctx, k *core.Case) {
	r := prng.New(uint64(k.I[0]))
	rx := uePolicyContainer.NewUePolDeliverySer()
	var seq []int
	for i := 0; i < int(k.I[1]); i++ {
		kind := []int{0, 1, 1, 0, 2, 3}[r.Intn(6)]
		seq = append(seq, kind)
		w := c18Wire(r, kind)
		err := thenScribble(rx.UePolDeliverySerDecode, w)
		fresh := uePolicyContainer.NewUePolDeliverySer()
		ferr := thenScribble(fresh.UePolDeliverySerDecode, w)
		c.Eval(1)
		if (err == nil) != (ferr == nil) {
			c.Fail(k, "delivery-reuse-changes-verdict", fmt.Sprintf("step %d of kinds %v: reused value err=%v, fresh value err=%v (wire %s)", i, seq, err, ferr, hx(w)))
			return
		}
		if err != nil {
			c.Fail(k, "delivery-reference-rejected", fmt.Sprintf("step %d of kinds %v: a well-formed delivery message is rejected: %v (wire %s)", i, seq, err, hx(w)))
			return
		}
		var a, b interface{}
		switch kind {
		case 0, 1:
			a, b = rx.ManageUEPolicyCommand, fresh.ManageUEPolicyCommand
		case 2:
			a, b = rx.ManageUEPolicyComplete, fresh.ManageUEPolicyComplete
		default:
			a, b = rx.ManageUEPolicyReject, fresh.ManageUEPolicyReject
		}
		if !reflect.DeepEqual(a, b) {
			c.Fail(k, "delivery-reused-differs-from-fresh", fmt.Sprintf("step %d of kinds %v (0/1 command without/with classmark, 2 complete, 3 reject): the body decoded into a reused UePolDeliverySer differs from a fresh decode of %s", i, seq, hx(w)))
			return
		}
		o1, e1 := rx.UePolDeliverySerEncode()
		o2, e2 := fresh.UePolDeliverySerEncode()
		if (e1 == nil) != (e2 == nil) || !bytes.Equal(o1, o2) {
			c.Fail(k, "delivery-reused-encodes-differently", fmt.Sprintf("step %d of kinds %v: re-encoding gives %s (err %v), from a fresh decode %s (err %v)", i, seq, hx(o1), e1, hx(o2), e2))
			return
		}
	}
	c.Count("delivery_reuse_sequences", 1)
}

// oracle "reject": I=[seed, nSub]   (also covers the complete message)
func c18Reject(c *core.Ctx, k *core.Case) {
	r := prng.New(uint64(k.I[0]))
	var model []uSubRes
	var rc uePolicyContainer.UEPolicySectionManagementResultContent
	c.Eval(1)
	for i := 0; i < int(k.I[1]); i++ {
		s := uSubRes{mcc: r.Range(99, 999), mnc: r.Range(9, 999)}
		var ls uePolicyContainer.UEPolicySectionManagementSubResult
		if err := ls.SetPlmnDigit(s.mcc, s.mnc); err != nil {
			c.Fail(k, "setter-rejects-valid-plmn", err.Error())
			return
		}
		for j := r.Intn(4); j > 0; j-- {
			res := uResult{uint16(r.Uint32()), uint16(r.Uint32())}
			s.results = append(s.results, res)
			lr := uePolicyContainer.NewResult()
			lr.SetUpsc(res.upsc)
			lr.FailInstructionOrder = res.order
			ls.UEPolicySectionManagementSubResultContents.AppendResult(lr)
		}
		model = append(model, s)
		rc.AppendSublist(ls)
	}
	content, err := rc.MarshalBinary()
	want := refSubResults(model)
	if err != nil || !bytes.Equal(content, want) {
		c.Fail(k, "result-layout", fmt.Sprintf("UEPolicySectionManagementResultContent.MarshalBinary = %s (%v), D.6.3 layout %s", hx(content), err, hx(want)))
	}
	var back uePolicyContainer.UEPolicySectionManagementResultContent
	if err := thenScribble(back.UnmarshalBinary, content); err != nil || len(back) != len(model) {
		c.Fail(k, "result-roundtrip", fmt.Sprintf("UnmarshalBinary(%s): %v, %d subresults want %d", hx(content), err, len(back), len(model)))
		return
	}
	for i, s := range model {
		b := back[i]
		ok := b.Mcc != nil && b.Mnc != nil && *b.Mcc == s.mcc && *b.Mnc == s.mnc && len(b.UEPolicySectionManagementSubResultContents) == len(s.results) && int(b.GetLen()) == 3+5*len(s.results)
		for j := 0; ok && j < len(s.results); j++ {
			x := b.UEPolicySectionManagementSubResultContents[j]
			ok = x.Upsc == s.results[j].upsc && x.FailInstructionOrder == s.results[j].order
		}
		if !ok {
			c.Fail(k, "result-roundtrip", fmt.Sprintf("subresult %d differs after the round trip (bytes %s)", i, hx(content)))
			return
		}
	}
	pti := r.Byte()
	msg := uePolicyContainer.NewUePolDeliverySer()
	msg.SetHeaderPTI(pti)
	msg.SetHeaderMessageType(uePolicyContainer.MsgTypeManageUEPolicyReject)
	msg.ManageUEPolicyReject = uePolicyContainer.NewManageUEPolicyReject(uePolicyContainer.MsgTypeManageUEPolicyReject)
	msg.ManageUEPolicyReject.PTI.SetPTI(pti)
	msg.ManageUEPolicyReject.UEPolicySectionManagementResult.SetIei(0x6d)
	if k.I[0]&2 == 2 {
		longer := append(cloneB(content), r.Bytes(r.Range(1, 12))...)
		msg.ManageUEPolicyReject.UEPolicySectionManagementResult.SetLen(uint16(len(longer)))
		msg.ManageUEPolicyReject.UEPolicySectionManagementResult.SetUEPolicySectionManagementResultContent(longer)
	}
	msg.ManageUEPolicyReject.UEPolicySectionManagementResult.SetLen(uint16(len(content)))
	msg.ManageUEPolicyReject.UEPolicySectionManagementResult.SetUEPolicySectionManagementResultContent(content)
	wire, err := msg.UePolDeliverySerEncode()
	if err != nil {
		c.Fail(k, "reject-encode-error", err.Error())
		return
	}
	dec := uePolicyContainer.NewUePolDeliverySer()
	if err := thenScribble(dec.UePolDeliverySerDecode, wire); err != nil || dec.ManageUEPolicyReject == nil || dec.ManageUEPolicyCommand != nil ||
		dec.ManageUEPolicyReject.PTI.GetPTI() != pti || int(dec.ManageUEPolicyReject.UEPolicySectionManagementResult.GetLen()) != len(content) ||
		!bytes.Equal(dec.ManageUEPolicyReject.UEPolicySectionManagementResult.GetUEPolicySectionManagementResultContent(), content) {
		c.Fail(k, "reject-roundtrip", fmt.Sprintf("reject message does not round-trip: %v (wire %s)", err, hx(wire)))
	}
	// complete
	cm := uePolicyContainer.NewUePolDeliverySer()
	cm.SetHeaderPTI(pti)
	cm.SetHeaderMessageType(uePolicyContainer.MsgTypeManageUEPolicyComplete)
	cm.ManageUEPolicyComplete = uePolicyContainer.NewManageUEPolicyComplete(uePolicyContainer.MsgTypeManageUEPolicyComplete)
	cm.ManageUEPolicyComplete.PTI.SetPTI(pti)
	w2, err := cm.UePolDeliverySerEncode()
	d2 := uePolicyContainer.NewUePolDeliverySer()
	if err != nil || !bytes.Equal(w2, []byte{pti, uePolicyContainer.MsgTypeManageUEPolicyComplete}) || thenScribble(d2.UePolDeliverySerDecode, w2) != nil || d2.ManageUEPolicyComplete == nil || d2.ManageUEPolicyComplete.PTI.GetPTI() != pti {
		c.Fail(k, "complete-roundtrip", fmt.Sprintf("complete message: %x %v", w2, err))
	}
}

// oracle "plmn": I=[mccLo, mccHi) — every MNC the setter accepts
func c18Plmn(c *core.Ctx, k *core.Case) {
	var n, prior int64
	for mcc := int(k.I[0]); mcc < int(k.I[1]); mcc++ {
		for mnc := 9; mnc <= 999; mnc++ {
			var sl uePolicyContainer.UEPolicySectionManagementSubList
			var sr uePolicyContainer.UEPolicySectionManagementSubResult
			e1, e2 := sl.SetPlmnDigit(mcc, mnc), sr.SetPlmnDigit(mcc, mnc)
			if e1 != nil || e2 != nil {
				continue
			}
			n++
			mc, mn := plmnStrings(mcc, mnc)
			want := nasConvert.PlmnIDToNas(models.PlmnId{Mcc: mc, Mnc: mn})
			ref := refconv.PlmnWire(mc, mn)
			kk := &core.Case{Oracle: "plmn-one", Target: "uePolicyContainer.SetPlmnDigit", I: []int64{int64(mcc), int64(mnc)}}
			if !bytes.Equal(want, ref[:]) {
				c.Inconclusive(fmt.Sprintf("PlmnIDToNas(%s,%s) = %x disagrees with TS 24.008 %x (see C12)", mc, mn, want, ref))
				return
			}
			if got := []byte{sl.PlmnDigit1, sl.PlmnDigit2, sl.PlmnDigit3}; !bytes.Equal(got, want) {
				c.Fail(kk, "plmn-digit-order:sublist", fmt.Sprintf("SetPlmnDigit(%d,%d) = %x, every other PLMN encoder of the library (TS 24.008) gives %x", mcc, mnc, got, want))
			}
			if got := []byte{sr.PlmnDigit1, sr.PlmnDigit2, sr.PlmnDigit3}; !bytes.Equal(got, want) {
				c.Fail(kk, "plmn-digit-order:subresult", fmt.Sprintf("SetPlmnDigit(%d,%d) = %x, every other PLMN encoder of the library (TS 24.008) gives %x", mcc, mnc, got, want))
			}
			// the setter determines the three octets whatever the element held before: another
			// PLMN, or - as a decoder leaves it for an MNC 0xy sent with three digits - the same
			// integers recorded next to the three-digit coding
			for variant := 0; variant < 2; variant++ {
				var pl uePolicyContainer.UEPolicySectionManagementSubList
				var pr uePolicyContainer.UEPolicySectionManagementSubResult
				if variant == 0 {
					om, on := 100+(mcc*7+mnc)%900, 10+(mcc+mnc*13)%990
					_, _ = pl.SetPlmnDigit(om, on), pr.SetPlmnDigit(om, on)
				} else {
					if mnc >= 100 {
						continue
					}
					m1, n1, m2, n2 := mcc, mnc, mcc, mnc
					three := refconv.PlmnWire(mc, "0"+mn)
					pl.Mcc, pl.Mnc, pl.PlmnDigit1, pl.PlmnDigit2, pl.PlmnDigit3 = &m1, &n1, three[0], three[1], three[2]
					pr.Mcc, pr.Mnc, pr.PlmnDigit1, pr.PlmnDigit2, pr.PlmnDigit3 = &m2, &n2, three[0], three[1], three[2]
				}
				_, _ = pl.SetPlmnDigit(mcc, mnc), pr.SetPlmnDigit(mcc, mnc)
				prior++
				if got := []byte{pl.PlmnDigit1, pl.PlmnDigit2, pl.PlmnDigit3}; !bytes.Equal(got, want) {
					c.Fail(kk, "plmn-setter-depends-on-prior-state:sublist", fmt.Sprintf("SetPlmnDigit(%d,%d) on a sublist that held another coding (variant %d) leaves %x, on a fresh one %x", mcc, mnc, variant, got, want))
				}
				if got := []byte{pr.PlmnDigit1, pr.PlmnDigit2, pr.PlmnDigit3}; !bytes.Equal(got, want) {
					c.Fail(kk, "plmn-setter-depends-on-prior-state:subresult", fmt.Sprintf("SetPlmnDigit(%d,%d) on a sub result that held another coding (variant %d) leaves %x, on a fresh one %x", mcc, mnc, variant, got, want))
				}
			}
		}
	}
	c.Eval(n + prior)
	c.Count("plmn_pairs", n)
	c.Count("plmn_setter_calls_on_used_elements", prior)
}

func c18PlmnOne(c *core.Ctx, k *core.Case) {
	c18Plmn(c, &core.Case{Oracle: "plmn", Target: k.Target, I: []int64{k.I[0], k.I[0] + 1}})
}

func c18Parse(kind int64, b []byte) {
	switch kind {
	case 0:
		_ = uePolicyContainer.NewUePolDeliverySer().UePolDeliverySerDecode(b)
	case 1:
		var l uePolicyContainer.UEPolicySectionManagementListContent
		_ = l.UnmarshalBinary(b)
	case 2:
		var l uePolicyContainer.UEPolicySectionManagementResultContent
		_ = l.UnmarshalBinary(b)
	}
}

var c18Targets = []string{"uePolicyContainer.UePolDeliverySer.UePolDeliverySerDecode", "uePolicyContainer.UEPolicySectionManagementListContent.UnmarshalBinary", "uePolicyContainer.UEPolicySectionManagementResultContent.UnmarshalBinary"}

// oracle "total": B=[bytes] I=[kind]
func c18Total(c *core.Ctx, k *core.Case) {
	c.Eval(1)
	c18Parse(k.I[0], cloneB(k.B[0]))
	if !capacityIndependent(k.B[0], func(b []byte) uint64 {
		var v interface{}
		var err error
		switch k.I[0] {
		case 0:
			m := uePolicyContainer.NewUePolDeliverySer()
			err, v = m.UePolDeliverySerDecode(b), m
		case 1:
			l := &uePolicyContainer.UEPolicySectionManagementListContent{}
			err, v = l.UnmarshalBinary(b), l
		default:
			l := &uePolicyContainer.UEPolicySectionManagementResultContent{}
			err, v = l.UnmarshalBinary(b), l
		}
		if err == nil {
			if ch, _ := appendProbe(reflect.ValueOf(v)); ch || probeLists(reflect.ValueOf(v)) {
				c.Fail(k, "decoded-slices-share-capacity:"+c18Targets[k.I[0]], fmt.Sprintf("appending to one byte slice of the value decoded from %s changed another part of it", hx(k.B[0])))
			}
		}
		return digestOf(err, v)
	}) {
		c.Fail(k, "parse-depends-on-capacity", fmt.Sprintf("the %d octets %s decode differently from a slice of exactly that capacity and from the prefix of a larger array", len(k.B[0]), hx(k.B[0])))
	}
}

// oracle "total-sweep": I=[kind, len, lo, hi]
func c18Sweep(c *core.Ctx, k *core.Case) {
	n := int(k.I[1])
	cur := &core.Case{Oracle: "total", Target: k.Target, B: [][]byte{make([]byte, n)}, I: []int64{k.I[0]}}
	var cnt int64
	var rec func(pos int)
	rec = func(pos int) {
		if pos == n {
			c.J.Write(cur)
			func() {
				defer func() {
					if r := recover(); r != nil {
						c.Fail(&core.Case{Oracle: "total", Target: k.Target, B: [][]byte{cloneB(cur.B[0])}, I: []int64{k.I[0]}}, "panic:"+core.PanicClass(r), fmt.Sprintf("panic on %x: %v", cur.B[0], r))
					}
				}()
				c18Parse(k.I[0], cloneB(cur.B[0]))
			}()
			cnt++
			return
		}
		lo, hi := 0, 256
		if pos == 0 {
			lo, hi = int(k.I[2]), int(k.I[3])
		}
		for v := lo; v < hi; v++ {
			cur.B[0][pos] = byte(v)
			rec(pos + 1)
		}
	}
	rec(0)
	c.Eval(cnt)
	c.CoverN("sweep", fmt.Sprintf("%d/%d", k.I[0], n), cnt)
}

func init() {
	p := &core.Property{
		ID:         "C18",
		Interleave: []string{"command", "reject", "total"},
		Rule:       "messages built through the API: commands with 0..5 sublists × 0..3 instructions × 0..3 policy parts (with and without network classmark), element counts of 255..12000 parts / 255..9000 instructions / 255..9000 sublists under the 16-bit lengths; rejects with 0..5 subresults × 0..3 results, completes — nested lists compared with a reference serialiser whose lengths are computed from content and whose PLMN octets are TS 24.008, and decode(encode) compared field by field; PLMN: every (MCC, MNC) pair the setters accept against PlmnIDToNas; totality: every byte string of <= 2 (thorough 3) octets plus truncated/mutated encodings and 4-octet instruction headers through the three decoders. Non-trivial = message with at least one sublist / a mutated string; distinct by seed / bytes.",
		Assumptions: []string{
			"integer MCC/MNC cannot express leading zeros beyond the 2/3-digit rule (MNC < 100 is a 2-digit MNC); 'all MCC/MNC' means every pair the setter accepts",
			"Result.Cause is forced to 0x6F by the library on both sides; equality is on what the API lets a caller express",
			"the identifier octet the library writes in front of the mandatory section management list is taken as emitted (round trip and lengths are what the statement asks)",
		},
		Oracles:      map[string]func(*core.Ctx, *core.Case){"cold-entries": coldEntries, "cold-concurrent": coldConcurrent, "delivery-reuse": c18DeliveryReuse, "command": c18Command, "reject": c18Reject, "plmn": c18Plmn, "plmn-one": c18PlmnOne, "total": c18Total, "total-sweep": c18Sweep},
		StallSeconds: 30,
		Floors: func(tier string, cov map[string]map[string]int64, cnt map[string]int64) []string {
			var f []string
			if cnt["plmn_pairs"] != 901*991 {
				f = append(f, fmt.Sprintf("%d of %d accepted PLMN pairs", cnt["plmn_pairs"], 901*991))
			}
			for kd := 0; kd < 3; kd++ {
				for n, want := range []int64{1, 256, 65536} {
					if cov["sweep"][fmt.Sprintf("%d/%d", kd, n)] != want {
						f = append(f, fmt.Sprintf("sweep decoder %d length %d incomplete", kd, n))
					}
				}
			}
			if cov["sublists"]["0"] == 0 || cov["sublists"]["5"] == 0 {
				f = append(f, "commands with 0 and with 5 sublists not both seen")
			}
			return f
		},
	}
	p.Units = func(tier string) []core.Unit {
		var us []core.Unit
		for m := 99; m <= 999; m += 53 {
			m := m
			hi := m + 53
			if hi > 1000 {
				hi = 1000
			}
			us = append(us, core.Unit{Name: fmt.Sprintf("plmn-%03d", m), Weight: 20, Run: func(c *core.Ctx) {
				c.Do(&core.Case{Oracle: "plmn", Target: "uePolicyContainer.SetPlmnDigit", I: []int64{int64(m), int64(hi)}})
				c.NonTrivial(core.HashU64(18, uint64(m)))
			}})
		}
		for u := 0; u < 16; u++ {
			us = append(us, core.Unit{Name: fmt.Sprintf("msgs-%02d", u), Weight: 30, Run: func(c *core.Ctx) {
				for i := 0; i < c.Pick(800, 25000); i++ {
					k := &core.Case{Oracle: "command", Target: "uePolicyContainer.UePolDeliverySer", I: []int64{int64(c.R.Uint64() >> 1), int64(i % 6), int64(i/6) % 2}}
					c.Do(k)
					if i%6 > 0 {
						c.NonTrivial(k.Hash())
					}
					c.Sample(k.Brief())
					kr := &core.Case{Oracle: "reject", Target: "uePolicyContainer.UePolDeliverySer", I: []int64{int64(c.R.Uint64() >> 1), int64(i % 6)}}
					c.Do(kr)
					c.NonTrivial(kr.Hash())
					// hostile strings: mutated encodings through all three decoders
					r2 := prng.New(uint64(k.I[0]))
					b := refSubLists(genSubs(r2, 1+i%3))
					if i%2 == 0 {
						b = append([]byte{c.R.Byte(), byte(1 + i%3), 0x6c, byte(len(b) >> 8), byte(len(b))}, b...)
					}
					for d := c.R.Range(1, 3); d > 0 && len(b) > 0; d-- {
						switch c.R.Intn(5) {
						case 0:
							b = b[:c.R.Intn(len(b))]
						case 1:
							b[c.R.Intn(len(b))] = c.R.Byte()
						case 2:
							b[c.R.Intn(len(b))] = []byte{0, 1, 2, 0xff}[c.R.Intn(4)]
						case 3:
							b = append(b, c.R.Bytes(c.R.Intn(6))...)
						case 4:
							b[c.R.Intn(len(b))] ^= 1 << uint(c.R.Intn(8))
						}
					}
					for kind := int64(0); kind < 3; kind++ {
						kt := &core.Case{Oracle: "total", Target: c18Targets[kind], B: [][]byte{b}, I: []int64{kind}}
						c.Do(kt)
						c.NonTrivial(kt.Hash())
					}
				}
				// short instruction / part headers inside an otherwise valid sublist
				for l1 := 0; l1 < 6; l1++ {
					for l2 := 0; l2 < 6; l2++ {
						inner := []byte{0, byte(l1), 0, 7, 0, byte(l2), 1, 0xaa, 0xbb}
						b := append(append(be16(3+len(inner)), 0x02, 0xf8, 0x39), inner...)
						for kind := int64(0); kind < 3; kind++ {
							c.Do(&core.Case{Oracle: "total", Target: c18Targets[kind], B: [][]byte{b}, I: []int64{kind}})
						}
					}
				}
			}})
		}
		us = append(us, core.Unit{Name: "delivery-reuse", Weight: 20, Run: func(c *core.Ctx) {
			for i := 0; i < c.Pick(600, 20000); i++ {
				k := &core.Case{Oracle: "delivery-reuse", Target: "uePolicyContainer.UePolDeliverySer", I: []int64{int64(c.R.Uint64() >> 1), int64(c.R.Range(2, 8))}}
				c.Do(k)
				c.NonTrivial(k.Hash())
			}
		}})
		us = append(us, core.Unit{Name: "command-big", Weight: 60, Run: func(c *core.Ctx) {
			// list contents up to the 16-bit maximum, with and without the trailing classmark:
			// the octets behind the length field then number 65536 and more
			for L := int64(65535 - c.Pick(12, 40)); L <= 65535; L++ {
				for cm := int64(0); cm < 2; cm++ {
					k := &core.Case{Oracle: "command", Target: "uePolicyContainer.UePolDeliverySer", I: []int64{int64(c.R.Uint64() >> 1), 1, cm, L}}
					c.Do(k)
					c.NonTrivial(k.Hash())
				}
			}
			for _, L := range []int64{64, 255, 256, 257, 32767, 32768, 32769} {
				c.Do(&core.Case{Oracle: "command", Target: "uePolicyContainer.UePolDeliverySer", I: []int64{int64(c.R.Uint64() >> 1), 1, L & 1, L}})
			}
		}})
		us = append(us, core.Unit{Name: "command-counts", Weight: 60, Run: func(c *core.Ctx) {
			// many elements rather than many octets: walks across 2^8, 2^10, 2^12 and up to what
			// the 16-bit length fields admit (a part takes >= 3 octets, an instruction >= 4, a sublist >= 5)
			tops := []int64{0, 12000, 9000, 9000}
			for shape := int64(1); shape <= 3; shape++ {
				ns := []int64{255, 256, 257, 1023, 1024, 1025, 4095, 4096, 4097, tops[shape]}
				ns = append(ns, int64(c.R.Range(258, 1022)), int64(c.R.Range(1026, 4094)), int64(c.R.Range(4098, int(tops[shape]))))
				for _, n := range ns {
					k := &core.Case{Oracle: "command", Target: "uePolicyContainer.UePolDeliverySer", I: []int64{int64(c.R.Uint64() >> 1), 1, n & 1, 0, shape, n}}
					c.Do(k)
					c.NonTrivial(k.Hash())
				}
			}
		}})
		top := 2
		if tier == "thorough" {
			top = 3
		}
		for kind := int64(0); kind < 3; kind++ {
			kind := kind
			for n := 0; n <= top; n++ {
				n := n
				chunks := 1
				if n == 3 {
					chunks = 16
				}
				for ch := 0; ch < chunks; ch++ {
					lo, hi := ch*256/chunks, (ch+1)*256/chunks
					us = append(us, core.Unit{Name: fmt.Sprintf("sweep-%d-%d-%d", kind, n, ch), Weight: 1 + n*n*n*10, Run: func(c *core.Ctx) {
						c.Do(&core.Case{Oracle: "total-sweep", Target: c18Targets[kind], I: []int64{kind, int64(n), int64(lo), int64(hi)}})
					}})
				}
			}
		}
		us = append(us, coldUnits(tier, "uePolicyContainer", "uepolicy", "shared-parse", "uepolicy-result", "bad-input")...)
		us = append(us, coldEntryUnits(tier, "uePolicyContainer", "uepolicy")...)
		return us
	}
	core.Register(p)
}
