package monitor

import (
	"bytes"
	"encoding/hex"
	"fmt"
	"os"
	"path/filepath"
	"reflect"
	"runtime"
	"sort"
	"strings"
	"sync"
	"time"
	"verifharness/internal/reg"

	nas "github.com/free5gc/nas"
	"github.com/free5gc/nas/logger"
	"github.com/free5gc/nas/nasConvert"
	"github.com/free5gc/nas/nasType"
	"github.com/free5gc/nas/security"
	"github.com/free5gc/nas/uePolicyContainer"
	"github.com/free5gc/openapi/models"

	"verifharness/internal/core"
	"verifharness/internal/prng"
	"verifharness/internal/refcodec"
	"verifharness/internal/refconv"
)

// C19 — the library is safe for concurrent use on independent values.
//
// The worker is built with -race. A round pre-computes every work item's result
// sequentially, then runs the same items on G goroutines released by a single
// barrier and joined by a single WaitGroup — no channel, mutex or shared atomic
// in between, because every such operation is a happens-before edge that would
// hide races from the detector. Each goroutine writes only into its own slots.

type c19Item struct {
	kind   string
	seed   uint64
	region int  // >= 0: index of the item's own region in the shared arena
	light  bool // short payloads: many calls rather than long ones
}

// c19Arena hands every cipher/MAC item its own region of ONE backing array:
// regions are distinct and do not overlap, but they are adjacent, and a
// region's spare capacity is the neighbour's memory. A call that writes even one
// octet outside the slice it was given races with the neighbour's owner.
const c19RegionSize = 2048

// c19Place copies data into the item's region and returns the slice inside the
// arena. Even regions hold their data at the END, odd regions at the START, and
// regions r and r+1 belong to different goroutines, so the octet after an even
// region's payload is the first octet of a payload another goroutine is using.
func c19Place(sh *c19Shared, region int, data []byte) []byte {
	base := region * c19RegionSize
	if region%2 == 0 {
		off := base + c19RegionSize - len(data)
		copy(sh.arena[off:], data)
		return sh.arena[off : base+c19RegionSize : len(sh.arena)]
	}
	copy(sh.arena[base:], data)
	return sh.arena[base : base+len(data) : len(sh.arena)]
}

type c19Shared struct {
	arena []byte
	keys  [3][16]byte // a small pool of key VALUES: distinct goroutines legitimately use equal keys
	sp    *refcodec.Spec
	msgs  []*nas.Message // decoded messages shared read-only by all goroutines
	gmm   []*refcodec.Msg
	wires [][]byte // encoded inputs shared read-only by all goroutines (kind "shared-parse"), built lazily without the library
	once  sync.Once
}

// sharedWires builds the read-only inputs of kind "shared-parse": serialised lists and
// identities made by the reference side only (no library call).
func (sh *c19Shared) sharedWires() [][]byte {
	sh.once.Do(func() {
		r := prng.New(0x5ead)
		for i := 0; i < 6; i++ {
			mcc, mnc := digits(r, 3), digits(r, 2+r.Intn(2))
			sh.wires = append(sh.wires,
				refconv.SerializeRules(genRules(r, 1+r.Intn(3), r.Intn(18))),       // 0 mod 6: QoS rules
				refconv.SerializeDescs(genDescs(r, 1+r.Intn(4))),                   // 1: QoS flow descriptions
				pcoContents(r, r.Intn(8)),                                          // 2: protocol configuration options
				refSubLists(genSubs(r, 1+r.Intn(3))),                               // 3: UE policy section management list
				refconv.SuciWire(mcc, mnc, digits(r, 2), 0, 1, digits(r, 10), nil), // 4: SUCI
				refconv.GutiWire(mcc, mnc, r.Uint32()&0xffffff, r.Uint32()),        // 5: 5G-GUTI
				refconv.PeiWire(digits(r, 15), false),                              // 6: IMEI
				refconv.PeiWire(digits(r, 16), true),                               // 7: IMEISV
			)
		}
	})
	return sh.wires
}

var (
	c19BufOnce  sync.Once
	c19BufNames []string
)

// c19BufferTypes lists the element types that have SetLen and a Buffer (sorted).
func c19BufferTypes() []string {
	c19BufOnce.Do(func() {
		for n, ctor := range reg.IETypes {
			pv := reflect.ValueOf(ctor())
			if f := pv.Elem().FieldByName("Buffer"); f.IsValid() && f.Kind() == reflect.Slice && pv.MethodByName("SetLen").IsValid() {
				c19BufNames = append(c19BufNames, n)
			}
		}
		sort.Strings(c19BufNames)
	})
	return c19BufNames
}

func h64(b []byte) uint64 { return core.HashBytes(0, b) }

func hs(s string) uint64 { return core.HashStr(0, s) }

var c19Kinds = []string{"decode", "encode", "cipher1", "cipher2", "cipher3", "mac1", "mac2", "mac3", "accessor", "ident", "lists", "misc", "qos", "pco", "uepolicy", "count-alloc", "shared-encode", "shared-getters", "handoff", "zones", "mac0", "getters", "shared-parse", "rx-handoff", "uepolicy-result", "bad-input"}

// scr overwrites a slice the library RETURNED to this goroutine (after its digest was
// taken): the memory is the caller's. If the library handed the same memory to another
// goroutine as well, the two writes race.
func scr(bs ...[]byte) {
	for _, b := range bs {
		for i := range b {
			b[i] ^= 0x5a
		}
	}
}

// c19Handoff is the receive-loop pattern: decode into a receiver variable, hand
// the decoded VALUE to another goroutine, decode the next PDU into the same
// variable while the other goroutine reads what it was given. The two values are
// distinct for the caller; a decoder that recycles the receiver's memory makes
// them one.
func c19Handoff(recv interface{}, decode func([]byte) error, pdu1, pdu2 []byte) uint64 {
	err1 := decode(pdu1)
	v := reflect.ValueOf(recv).Elem()
	given := reflect.New(v.Type()).Elem()
	given.Set(v)
	done := make(chan uint64, 1)
	go func() { done <- fingerprint(given) }()
	err2 := decode(pdu2)
	return <-done ^ fingerprint(v)<<1 ^ hs(fmt.Sprint(err1, err2))
}

// c19Run executes one item on private values (or read-only on shared ones) and
// returns a digest of everything it produced.
func c19Run(sh *c19Shared, it c19Item) (res uint64) {
	defer func() {
		if r := recover(); r != nil {
			res = hs(fmt.Sprint("panic:", r))
		}
	}()
	r := prng.New(it.seed)
	switch it.kind {
	case "decode":
		def := sh.gmm[r.Intn(len(sh.gmm))]
		b := refcodec.RandomPlan(def, r, r.Intn(9), r.Intn(6)).Bytes()
		if r.Chance(1, 3) && len(b) > 0 {
			b[r.Intn(len(b))] ^= 1 << uint(r.Intn(8))
		}
		m := nas.NewMessage()
		if err := m.PlainNasDecode(&b); err != nil {
			return hs(err.Error())
		}
		out, err := m.PlainNasEncode()
		d := h64(out) ^ hs(fmt.Sprint(err))
		scr(out)
		return d
	case "encode":
		def := sh.gmm[r.Intn(len(sh.gmm))]
		pl := refcodec.RandomPlan(def, r, r.Intn(6), r.Intn(6))
		b := pl.Bytes()
		ref := refcodec.Decode(def, b)
		obj, err := buildMsg(def, ref.Fields)
		if err != nil {
			return hs(err.Error())
		}
		m, err := wrapMsg(def, obj, b[:def.HeaderLen()])
		if err != nil {
			return hs(err.Error())
		}
		out, err := m.PlainNasEncode()
		d := h64(out) ^ hs(fmt.Sprint(err))
		scr(out)
		return d
	case "shared-parse":
		// one received octet string read by several handlers at once: the parsers and text
		// conversions are functions of their argument and leave it alone
		ws := sh.sharedWires()
		j := r.Intn(len(ws))
		w := ws[j]
		switch j % 8 {
		case 6, 7:
			s1, err := nasConvert.PeiToStringWithError(w)
			e := nasType.NewMobileIdentity5GS(0)
			e.Len, e.Buffer = uint16(len(w)), w // an element that holds the received octets themselves
			return hs(s1) ^ hs(fmt.Sprint(err)) ^ hs(e.GetIMEI())<<1 ^ hs(e.GetIMEISV())<<2 ^ h64(w)
		case 0:
			var v nasType.QoSRules
			err := v.UnmarshalBinary(w)
			return uint64(len(v))<<8 ^ hs(fmt.Sprint(err)) ^ h64(w)
		case 1:
			var v nasType.QoSFlowDescs
			err := v.UnmarshalBinary(w)
			return uint64(len(v))<<8 ^ hs(fmt.Sprint(err)) ^ h64(w)
		case 2:
			p := nasConvert.NewProtocolConfigurationOptions()
			err := p.UnMarshal(w)
			return fingerprint(reflect.ValueOf(p)) ^ hs(fmt.Sprint(err)) ^ h64(w)
		case 3:
			var v uePolicyContainer.UEPolicySectionManagementListContent
			err := v.UnmarshalBinary(w)
			return fingerprint(reflect.ValueOf(&v)) ^ hs(fmt.Sprint(err)) ^ h64(w)
		case 4:
			s1, s2, err := nasConvert.SuciToStringWithError(w)
			return hs(s1) ^ hs(s2)<<1 ^ hs(fmt.Sprint(err)) ^ h64(w)
		default:
			_, s1, err := nasConvert.GutiToStringWithError(w)
			return hs(s1) ^ hs(nasConvert.PlmnIDToString(w[1:4]))<<1 ^ hs(fmt.Sprint(err)) ^ h64(w)
		}
	case "getters":
		// the text getters of a mobile identity built without the library: the very first
		// library call of this item is a getter
		mcc, mnc := digits(r, 3), digits(r, 2+r.Intn(2))
		e := nasType.NewMobileIdentity5GS(0)
		w := refconv.GutiWire(mcc, mnc, r.Uint32()&0xffffff, r.Uint32())
		if r.Bool() {
			w = refconv.SuciWire(mcc, mnc, digits(r, 2), 0, 1, digits(r, 10), nil)
		}
		e.SetLen(uint16(len(w)))
		e.SetMobileIdentity5GSContents(w)
		acc := hs(e.GetPlmnID()) ^ hs(e.GetMCC())<<1 ^ hs(e.GetMNC())<<2 ^ hs(e.Get5GGUTI()) ^ hs(e.GetSUCI())
		s1, s2, e1 := e.GetMobileIdentity()
		return acc ^ hs(s1) ^ hs(s2) ^ hs(fmt.Sprint(e1)) ^ hs(nasConvert.PlmnIDToString(w[1:4]))
	case "mac0":
		// the null integrity algorithm: every caller gets its own four octets
		mac, err := security.NASMacCalculate(0, sh.keys[r.Intn(3)], uint32(r.Intn(4)), uint8(r.Intn(2)), uint8(r.Intn(2)), r.Bytes(r.Range(1, 64)))
		d := h64(mac) ^ hs(fmt.Sprint(err))
		scr(mac)
		mac2, _ := security.NASMacCalculate(0, sh.keys[0], 0, 0, 0, []byte{1})
		return d ^ h64(mac2)<<1
	case "cipher1", "cipher2", "cipher3":
		// keys, counts and bearers come from small pools: equal parameter VALUES on
		// different goroutines are ordinary use (uplink/downlink of one context)
		key := sh.keys[r.Intn(3)]
		n := r.Range(0, 200)
		if it.light {
			n = r.Range(1, 48)
		}
		if it.region >= 0 && !it.light {
			n = 8*r.Range(1, 200) + r.Range(1, 7) // fills the region to an odd length: the next octets are the neighbour's
			if n > c19RegionSize {
				n = c19RegionSize - 3
			}
		}
		buf := r.Bytes(n)
		if it.region >= 0 {
			buf = c19Place(sh, it.region, buf)
		}
		alg, cnt, br, dr := it.kind[6]-'0', uint32(r.Intn(4)), uint8(r.Intn(2)), uint8(r.Intn(2))
		err := security.NASEncrypt(alg, key, cnt, br, dr, buf)
		d := h64(buf) ^ hs(fmt.Sprint(err))
		// the same parameters again straight away (decipher what was just ciphered)
		back := cloneB(buf)
		err2 := security.NASEncrypt(alg, key, cnt, br, dr, back)
		return d ^ h64(back)<<1 ^ hs(fmt.Sprint(err2))
	case "mac1", "mac2", "mac3":
		key := sh.keys[r.Intn(3)]
		msg := r.Bytes(r.Range(1, 1600))
		if it.light {
			msg = r.Bytes(r.Range(1, 48))
		} else if r.Chance(1, 12) {
			msg = r.Bytes(r.Range(4096, 9000)) // a message of several kilobytes (a container with a policy or an SMS)
		}
		if it.region >= 0 && len(msg) <= 1600 {
			msg = c19Place(sh, it.region, msg)
		}
		alg, cnt, br, dr := it.kind[3]-'0', uint32(r.Intn(4)), uint8(r.Intn(2)), uint8(r.Intn(2))
		mac, err := security.NASMacCalculate(alg, key, cnt, br, dr, msg)
		d := h64(mac) ^ h64(msg) ^ hs(fmt.Sprint(err))
		scr(mac)
		// the same parameters again straight away (verify what was just protected)
		mac2, err2 := security.NASMacCalculate(alg, key, cnt, br, dr, msg)
		d ^= h64(mac2)<<1 ^ hs(fmt.Sprint(err2))
		scr(mac2)
		return d
	case "accessor":
		var g nasType.GUTI5G
		copy(g.Octet[:], r.Bytes(11))
		g.SetAMFSetID(uint16(r.Uint32()))
		g.SetAMFPointer(r.Byte())
		g.SetMCCDigit1(r.Byte())
		var t [4]uint8
		copy(t[:], r.Bytes(4))
		g.SetTMSI5G(t)
		e := nasType.NewEAPMessage(0x78)
		e.SetLen(uint16(r.Range(4, 60)))
		e.SetEAPMessage(r.Bytes(int(e.GetLen())))
		acc := h64(g.Octet[:]) ^ uint64(g.GetAMFSetID())<<3 ^ h64(e.GetEAPMessage())
		// three element types with a Buffer, picked from all of them: SetLen, fill, read back
		names := c19BufferTypes()
		for j := 0; j < 3 && len(names) > 0; j++ {
			obj := reg.IETypes[names[r.Intn(len(names))]]()
			pv := reflect.ValueOf(obj)
			m := pv.MethodByName("SetLen")
			n := r.Range(1, 40)
			switch f := m.Interface().(type) {
			case func(uint8):
				f(uint8(n))
			case func(uint16):
				f(uint16(n))
			default:
				continue
			}
			buf := pv.Elem().FieldByName("Buffer").Bytes()
			pat := r.Bytes(len(buf))
			copy(buf, pat)
			runtime.Gosched()
			acc ^= h64(pv.Elem().FieldByName("Buffer").Bytes()) ^ h64(pat)<<1 ^ uint64(len(buf))<<7
		}
		return acc
	case "ident":
		mcc, mnc := digits(r, 3), digits(r, 2+r.Intn(2))
		amf, tmsi := r.Uint32()&0xffffff, r.Uint32()
		p := nasConvert.PlmnIDToNas(models.PlmnId{Mcc: mcc, Mnc: mnc})
		g, err := nasConvert.GutiToNasWithError(refconv.GutiText(mcc, mnc, amf, tmsi))
		_, gs, err2 := nasConvert.GutiToStringWithError(g.Octet[:])
		su, _, err3 := nasConvert.SuciToStringWithError(refconv.SuciWire(mcc, mnc, digits(r, 2), 0, 1, digits(r, 9), nil))
		_, _, _, err4 := nasConvert.AmfIdToNasWithError("zz") // error path logs through the shared logger
		pe, _ := nasConvert.PeiToStringWithError(refconv.PeiWire(digits(r, 15), false))
		mi := nasType.NewMobileIdentity5GS(0)
		mi.SetLen(11)
		mi.SetMobileIdentity5GSContents(g.Octet[:])
		bad, _ := nasConvert.SuciToString([]byte{1, 2}) // warning path
		acc := h64(p) ^ hs(gs) ^ hs(su) ^ hs(pe) ^ hs(mi.Get5GGUTI()) ^ hs(bad) ^ hs(fmt.Sprint(err, err2, err3, err4 != nil))
		// every text getter on a private element of every identity kind
		for _, w := range [][]byte{
			refconv.SuciWire(mcc, mnc, digits(r, 3), 0, 2, digits(r, 10), nil),
			refconv.SuciWire(mcc, mnc, digits(r, 1), 1, 2, "", r.Bytes(20)),
			refconv.NaiWire(r.Bytes(12)),
			refconv.GutiWire(mcc, mnc, amf, tmsi),
			refconv.STmsiWire(uint16(amf>>6), uint8(amf), tmsi),
			refconv.PeiWire(digits(r, 15), false),
			refconv.PeiWire(digits(r, 16), true),
		} {
			e := nasType.NewMobileIdentity5GS(0)
			e.SetLen(uint16(len(w)))
			e.SetMobileIdentity5GSContents(w)
			s1, s2, e1 := e.GetMobileIdentity()
			s3, _, _ := e.Get5GSTMSI()
			acc ^= hs(s1) ^ hs(s2) ^ hs(fmt.Sprint(e1)) ^ hs(e.GetSUCI()) ^ hs(e.GetPlmnID()) ^ hs(e.Get5GGUTI()) ^ hs(e.GetAmfSetID()) ^ hs(e.GetAmfPointer()) ^ hs(e.Get5GTMSI()) ^ hs(e.GetIMEI()) ^ hs(e.GetIMEISV()) ^ hs(s3)
		}
		return acc
	case "lists":
		sn := nasConvert.SnssaiToNas(models.Snssai{Sst: int32(r.Byte()), Sd: hex.EncodeToString(r.Bytes(3))})
		tl, _ := c13RandTais(r, r.Range(1, 16), 1+r.Intn(2))
		tb := nasConvert.TaiListToNas(tl)
		lb := nasConvert.LadnToNas("internet", tl[:1])
		e := nasType.NewRequestedNSSAI(0x2f)
		e.SetLen(uint8(len(sn)))
		e.SetSNSSAIValue(sn)
		ms, err := nasConvert.RequestedNssaiToModels(e)
		rj := nasConvert.RejectedNssaiToNas([]models.Snssai{{Sst: 1}}, []models.Snssai{{Sst: 2, Sd: "010203"}})
		d := h64(sn) ^ h64(tb) ^ h64(lb) ^ uint64(len(ms)) ^ hs(fmt.Sprint(err)) ^ h64(rj.Buffer)
		scr(tb, lb, rj.Buffer)
		return d
	case "misc":
		t3 := nasConvert.GPRSTimer3ToNas(r.Intn(1116000))
		t2 := nasConvert.GPRSTimer2ToNas(r.Intn(11160)) // odd values take the error-log path
		a := nasConvert.ModelsToSessionAMBR(&models.Ambr{Uplink: fmt.Sprintf("%d Mbps", r.Intn(65536)), Downlink: fmt.Sprintf("%d Kbps", r.Intn(65536))})
		z := nasConvert.EncodeLocalTimeZoneToNas(fmtZone((r.Intn(159) - 79) * 900))
		nm := nasConvert.FullNetworkNameToNas(string(gsm7Plain[:r.Intn(40)]))
		ts := nasConvert.EncodeUniversalTimeAndLocalTimeZoneToNas(time.Unix(946684800+2*int64(r.Intn(1500000000))+int64(r.Intn(2)), 0).UTC())
		back := nasConvert.DecodeUniversalTimeAndLocalTimeZone(ts)
		psi := nasConvert.PSIToBuf(nasConvert.PSIToBooleanArray(r.Bytes(2)))
		d := uint64(t3)<<8 ^ uint64(t2) ^ h64(a.Octet[:]) ^ uint64(z.Octet)<<16 ^ h64(nm.Buffer) ^ uint64(back.Unix()) ^ h64(psi)
		scr(psi, nm.Buffer)
		return d
	case "qos":
		model := genRules(r, 1+r.Intn(3), r.Intn(18))
		lib := libRules(model)
		b, err := lib.MarshalBinary()
		var back nasType.QoSRules
		err2 := back.UnmarshalBinary(b)
		var fd nasType.QoSFlowDescs
		err3 := fd.UnmarshalBinary(refconv.SerializeDescs(genDescs(r, 2)))
		d := h64(b) ^ uint64(len(back)) ^ uint64(len(fd))<<4 ^ hs(fmt.Sprint(err, err2, err3))
		scr(b)
		return d
	case "handoff":
		switch r.Intn(4) {
		case 0:
			var rx nasType.QoSFlowDescs
			return c19Handoff(&rx, rx.UnmarshalBinary, refconv.SerializeDescs(genDescs(r, 1+r.Intn(4))), refconv.SerializeDescs(genDescs(r, 1+r.Intn(4))))
		case 1:
			var rx nasType.QoSRules
			return c19Handoff(&rx, rx.UnmarshalBinary, refconv.SerializeRules(genRules(r, 1+r.Intn(3), r.Intn(18))), refconv.SerializeRules(genRules(r, 1+r.Intn(3), r.Intn(18))))
		case 2:
			var rx uePolicyContainer.UEPolicySectionManagementListContent
			return c19Handoff(&rx, rx.UnmarshalBinary, refSubLists(genSubs(r, 1+r.Intn(3))), refSubLists(genSubs(r, 1+r.Intn(3))))
		default:
			rx := nasConvert.NewProtocolConfigurationOptions()
			return c19Handoff(rx, rx.UnMarshal, pcoContents(r, r.Intn(8)), pcoContents(r, r.Intn(8)))
		}
	case "uepolicy-result":
		// the reject path of the UE policy delivery service: sub results with their results
		var model []uSubRes
		for i := 1 + r.Intn(3); i > 0; i-- {
			sr := uSubRes{mcc: r.Range(99, 999), mnc: r.Range(9, 999)}
			for j := 1 + r.Intn(3); j > 0; j-- {
				sr.results = append(sr.results, uResult{uint16(r.Uint32()), uint16(r.Uint32())})
			}
			model = append(model, sr)
		}
		content := refSubResults(model)
		var back uePolicyContainer.UEPolicySectionManagementResultContent
		err := back.UnmarshalBinary(content)
		out, err2 := back.MarshalBinary()
		d := fingerprint(reflect.ValueOf(&back)) ^ h64(out) ^ hs(fmt.Sprint(err, err2)) ^ h64(content)
		scr(out)
		return d
	case "bad-input":
		// the error paths: malformed arguments, each goroutine its own
		mcc, mnc := digits(r, 3), digits(r, 2+r.Intn(2))
		bad := []byte(mcc + mnc)
		bad[r.Intn(len(bad))] = "abcdefxyz-+ "[r.Intn(12)]
		p := nasConvert.PlmnIDToNas(models.PlmnId{Mcc: string(bad[:3]), Mnc: string(bad[3:])})
		tl, _ := c13RandTais(r, 1, 1)
		tl[0].PlmnId = &models.PlmnId{Mcc: string(bad[:3]), Mnc: string(bad[3:])}
		tb := nasConvert.TaiListToNas(tl)
		_, err1 := nasConvert.GutiToNasWithError(string(bad) + "zz" + digits(r, 6))
		_, _, err2 := nasConvert.SuciToStringWithError(r.Bytes(r.Intn(6)))
		_, err3 := nasConvert.PeiToStringWithError(r.Bytes(r.Intn(3)))
		_, _, _, err4 := nasConvert.AmfIdToNasWithError(string(bad))
		_, _, err5 := nasConvert.GutiToStringWithError(r.Bytes(r.Intn(11)))
		var qr nasType.QoSRules
		err6 := qr.UnmarshalBinary(r.Bytes(r.Range(1, 12)))
		var qd nasType.QoSFlowDescs
		err7 := qd.UnmarshalBinary(r.Bytes(r.Range(1, 12)))
		var ul uePolicyContainer.UEPolicySectionManagementListContent
		err8 := ul.UnmarshalBinary(r.Bytes(r.Range(1, 12)))
		var ur uePolicyContainer.UEPolicySectionManagementResultContent
		err9 := ur.UnmarshalBinary(r.Bytes(r.Range(1, 12)))
		pc := nasConvert.NewProtocolConfigurationOptions()
		err10 := pc.UnMarshal(r.Bytes(r.Range(1, 12)))
		err11 := security.NASEncrypt(uint8(1+r.Intn(3)), sh.keys[0], 1, uint8(32+r.Intn(200)), 0, r.Bytes(8))
		_, err12 := security.NASMacCalculate(uint8(4+r.Intn(200)), sh.keys[0], 1, 1, 0, r.Bytes(8))
		def := sh.gmm[r.Intn(len(sh.gmm))]
		b := refcodec.RandomPlan(def, r, r.Intn(9), r.Intn(6)).Bytes()
		if len(b) > 3 {
			b = b[:3+r.Intn(len(b)-3)] // truncated
		}
		m := nas.NewMessage()
		err13 := m.PlainNasDecode(&b)
		return h64(p) ^ h64(tb)<<1 ^ hs(fmt.Sprint(err1, err2, err3, err4 != nil, err5, err6 != nil, err7 != nil, err8 != nil, err9 != nil, err10 != nil, err11 != nil, err12 != nil, err13 != nil))
	case "rx-handoff":
		// the receive loop of a server: every packet is read into ONE receive buffer,
		// decoded, and the decoded message handed to a worker, while the loop reads the
		// next packet into the same buffer. Half of the packets end with their last
		// mandatory element.
		rx := make([]byte, 4096)
		var acc uint64
		done := make(chan uint64, 4)
		n := 2 + r.Intn(3)
		for i := 0; i < n; i++ {
			def := sh.gmm[r.Intn(len(sh.gmm))]
			mode := 0
			if r.Bool() {
				mode = r.Intn(9)
			}
			pdu := refcodec.RandomPlan(def, r, mode, r.Intn(6)).Bytes()
			if len(pdu) > len(rx) {
				pdu = pdu[:len(rx)]
			}
			win := rx[:copy(rx, pdu)]
			m := nas.NewMessage()
			if err := m.PlainNasDecode(&win); err != nil {
				acc ^= hs(err.Error())
				done <- 0
				continue
			}
			go func() {
				out, err := m.PlainNasEncode()
				done <- h64(out) ^ hs(fmt.Sprint(err)) ^ fingerprint(reflect.ValueOf(m))
			}()
		}
		for i := range rx {
			rx[i] = 0xa5
		}
		for i := 0; i < n; i++ {
			acc ^= <-done
		}
		return acc
	case "zones":
		// instants in zones with daylight saving of one hour, thirty minutes and two hours
		loc := c17Loc(r.Intn(len(c17Locations)))
		t := time.Unix(946684800+2*int64(r.Intn(1500000000))+int64(r.Intn(2)), 0).In(loc)
		z := nasConvert.GetTimeZone(t)
		ts := nasConvert.EncodeUniversalTimeAndLocalTimeZoneToNas(t)
		back := nasConvert.DecodeUniversalTimeAndLocalTimeZone(ts)
		ds := nasConvert.EncodeDaylightSavingTimeToNas(z)
		return hs(z) ^ h64(ts.Octet[:]) ^ uint64(back.Unix())<<4 ^ uint64(ds.Octet)<<20
	case "pco":
		p := nasConvert.NewProtocolConfigurationOptions()
		p.AddDNSServerIPv4AddressRequest()
		_ = p.AddIPv4LinkMTU(uint16(r.Uint32()))
		pu := nasConvert.NewProtocolOrContainerUnit()
		pu.ProtocolOrContainerID, pu.Contents = uint16(r.Uint32()), r.Bytes(r.Intn(20))
		pu.LengthOfContents = uint8(len(pu.Contents))
		p.ProtocolOrContainerList = append(p.ProtocolOrContainerList, pu)
		b := p.Marshal()
		q := nasConvert.NewProtocolConfigurationOptions()
		err := q.UnMarshal(b)
		d := h64(b) ^ uint64(len(q.ProtocolOrContainerList)) ^ hs(fmt.Sprint(err))
		scr(b)
		return d
	case "uepolicy":
		lc, err := libSubLists(genSubs(r, 1+r.Intn(3)))
		if err != nil {
			return hs(err.Error())
		}
		b, err := lc.MarshalBinary()
		var back uePolicyContainer.UEPolicySectionManagementListContent
		err2 := back.UnmarshalBinary(b)
		d := h64(b) ^ uint64(len(back)) ^ hs(fmt.Sprint(err, err2))
		scr(b)
		return d
	case "count-alloc":
		var cnt security.Count
		cnt.Set(uint16(r.Uint32()), r.Byte())
		for i := r.Intn(600); i > 0; i-- {
			cnt.AddOne()
		}
		g := uePolicyContainer.NewGenerator(1, int64(r.Range(2, 20)))
		var acc int64
		for i := 0; i < 25; i++ {
			id, err := g.Allocate()
			if err == nil {
				acc = acc*31 + id
				if i%3 == 0 {
					g.FreeID(id)
				}
			}
		}
		return uint64(cnt.Get())<<20 ^ uint64(acc)
	case "shared-encode":
		m := sh.msgs[r.Intn(len(sh.msgs))]
		out, err := m.PlainNasEncode()
		var buf bytes.Buffer
		if m.GmmMessage != nil {
			_ = m.GmmMessageEncode(&buf)
		} else {
			_ = m.GsmMessageEncode(&buf)
		}
		return h64(out) ^ h64(buf.Bytes()) ^ hs(fmt.Sprint(err))
	case "shared-getters":
		m := sh.msgs[r.Intn(len(sh.msgs))]
		var acc uint64
		if m.GmmMessage != nil {
			acc ^= uint64(m.GmmMessage.GmmHeader.GetMessageType())
			if rr := m.GmmMessage.RegistrationRequest; rr != nil {
				s, t, err := rr.MobileIdentity5GS.GetMobileIdentity()
				acc ^= hs(s) ^ hs(t) ^ hs(fmt.Sprint(err)) ^ uint64(rr.MobileIdentity5GS.GetLen())
				if rr.RequestedNSSAI != nil {
					ms, err := nasConvert.RequestedNssaiToModels(rr.RequestedNSSAI)
					acc ^= uint64(len(ms)) ^ hs(fmt.Sprint(err))
				}
				if rr.UESecurityCapability != nil {
					a, b, cc, d := nasConvert.UESecurityCapabilityToByteArray(rr.UESecurityCapability.Buffer)
					acc ^= uint64(a[0]) ^ uint64(b[0])<<8 ^ uint64(cc[0])<<16 ^ uint64(d[0])<<24
					acc ^= uint64(rr.UESecurityCapability.GetEA0_5G())
				}
				if rr.PDUSessionStatus != nil {
					arr := nasConvert.PSIToBooleanArray(rr.PDUSessionStatus.Buffer)
					acc ^= h64(nasConvert.PSIToBuf(arr))
				}
			}
			if ra := m.GmmMessage.RegistrationAccept; ra != nil && ra.GUTI5G != nil {
				_, s, err := nasConvert.GutiToStringWithError(ra.GUTI5G.Octet[:])
				acc ^= hs(s) ^ hs(fmt.Sprint(err)) ^ uint64(ra.GUTI5G.GetAMFSetID())
			}
		}
		if m.GsmMessage != nil {
			acc ^= uint64(m.GsmMessage.GsmHeader.GetMessageType()) << 8
			if ea := m.GsmMessage.PDUSessionEstablishmentAccept; ea != nil {
				var rs nasType.QoSRules
				err := rs.UnmarshalBinary(ea.AuthorizedQosRules.GetQosRule())
				acc ^= uint64(len(rs)) ^ hs(fmt.Sprint(err)) ^ h64(ea.SessionAMBR.Octet[:])
				if ea.DNN != nil {
					acc ^= hs(ea.DNN.GetDNN())
				}
			}
		}
		return acc
	}
	return 0
}

func c19BuildShared(sp *refcodec.Spec, seed uint64) *c19Shared {
	sh := &c19Shared{sp: sp, gmm: dispatchable(sp)}
	r := prng.New(seed)
	for i := range sh.keys {
		copy(sh.keys[i][:], r.Bytes(16))
	}
	want := []string{"RegistrationRequest", "RegistrationAccept", "PDUSessionEstablishmentAccept", "ULNASTransport", "ConfigurationUpdateCommand", "SecurityModeCommand", "PDUSessionModificationCommand", "ServiceRequest"}
	for len(sh.msgs) < 64 {
		def := sp.Msg(want[len(sh.msgs)%len(want)])
		pl := refcodec.RandomPlan(def, r, 1+r.Intn(5), 3)
		if def.Name == "RegistrationRequest" {
			// a well-formed mobile identity: SUCI (IMSI format) and GUTI alternate
			w := refconv.SuciWire(digits(r, 3), digits(r, 2), digits(r, 2), 0, 1, digits(r, 10), nil)
			if len(sh.msgs)%16 >= 8 {
				w = refconv.GutiWire(digits(r, 3), digits(r, 3), r.Uint32()&0xffffff, r.Uint32())
			}
			for i := range pl.Mand {
				if def.Slots[pl.Mand[i].Slot].Name == "MobileIdentity5GS" {
					pl.Mand[i].Decl, pl.Mand[i].Val = len(w), w
				}
			}
		}
		b := pl.Bytes()
		m := nas.NewMessage()
		if err := m.PlainNasDecode(&b); err == nil {
			sh.msgs = append(sh.msgs, m)
		}
	}
	return sh
}

type c19Span struct {
	kind       int
	start, end int64
}

// oracle "round": I=[seed, goroutines, itemsPerGoroutine, kind] — kind < 0: all 18 kinds
// mixed; kind >= 0: a "storm" in which every goroutine runs only that kind, which
// maximises the overlap inside one function (pools and caches are per function).
// c19Writer is a log output that is NOT safe for concurrent use (a plain counter and a plain
// buffer index), installed with the logger's own SetOutput: logrus serialises writes to its
// output with the logger's mutex, so the library's log lines may come from any goroutine —
// unless the library switched that mutex off.
type c19Writer struct {
	n   int
	buf [256]byte
}

func (w *c19Writer) Write(p []byte) (int, error) {
	w.n += len(p)
	copy(w.buf[w.n%128:], p)
	return len(p), nil
}

var c19LogSink = &c19Writer{}

func c19Round(c *core.Ctx, k *core.Case) {
	logger.GetLogger().SetOutput(c19LogSink)
	sp := mustSpec(c)
	if sp == nil {
		return
	}
	seed, G, per := uint64(k.I[0]), int(k.I[1]), int(k.I[2])
	sh := c19BuildShared(sp, seed)
	// item list, pre-partitioned: goroutine g owns items[g]
	items := make([][]c19Item, G)
	nRegions := 0
	perG := make([]int, G)
	r := prng.New(seed ^ 0x9e37)
	for g := 0; g < G; g++ {
		for i := 0; i < per; i++ {
			it := c19Item{kind: c19Kinds[(g+i)%len(c19Kinds)], seed: r.Uint64(), region: -1}
			if len(k.I) > 4 && k.I[4] == 1 {
				it.light = true
			}
			if len(k.I) > 3 && k.I[3] >= 0 {
				it.kind = c19Kinds[k.I[3]]
			}
			if strings.HasPrefix(it.kind, "cipher") || strings.HasPrefix(it.kind, "mac") {
				// the j-th arena item of goroutine g gets region j*G+g: neighbours belong to other goroutines
				it.region = perG[g]*G + g
				perG[g]++
				if it.region+1 > nRegions {
					nRegions = it.region + 1
				}
			}
			items[g] = append(items[g], it)
		}
	}
	sh.arena = make([]byte, (nRegions+1)*c19RegionSize)
	// phase A: sequential results
	seq := make([][]uint64, G)
	for g := range items {
		seq[g] = make([]uint64, len(items[g]))
		for i, it := range items[g] {
			seq[g][i] = c19Run(sh, it)
		}
	}
	// phase B: concurrent, barrier-only
	conc := make([][]uint64, G)
	spans := make([][]c19Span, G)
	for g := range conc {
		conc[g] = make([]uint64, len(items[g]))
		spans[g] = make([]c19Span, len(items[g]))
	}
	kindIdx := map[string]int{}
	for i, kn := range c19Kinds {
		kindIdx[kn] = i
	}
	t0 := time.Now()
	start := make(chan struct{})
	var wg sync.WaitGroup
	for g := 0; g < G; g++ {
		wg.Add(1)
		go func(g int) {
			defer wg.Done()
			<-start
			for i, it := range items[g] {
				s := time.Since(t0).Nanoseconds()
				conc[g][i] = c19Run(sh, it)
				spans[g][i] = c19Span{kind: kindIdx[it.kind], start: s, end: time.Since(t0).Nanoseconds()}
			}
		}(g)
	}
	close(start)
	wg.Wait()
	// judge results
	var n int64
	for g := range items {
		for i := range items[g] {
			n++
			if conc[g][i] != seq[g][i] {
				kk := &core.Case{Oracle: "item", Target: "nas/" + items[g][i].kind, S: []string{items[g][i].kind}, I: []int64{int64(items[g][i].seed >> 1), int64(items[g][i].seed & 1)}}
				c.Fail(kk, "result-differs-from-sequential:"+items[g][i].kind, fmt.Sprintf("item kind %s seed %#x: concurrent digest %#x, sequential digest %#x (round of %d goroutines)", items[g][i].kind, items[g][i].seed, conc[g][i], seq[g][i], G))
			}
			c.Cover("kind_items", items[g][i].kind)
		}
	}
	c.Eval(2 * n)
	// overlap accounting (evidence only): sweep over interval end points
	type ev struct {
		t    int64
		open bool
		g, k int
	}
	var evs []ev
	for g := range spans {
		for _, s := range spans[g] {
			evs = append(evs, ev{s.start, true, g, s.kind}, ev{s.end, false, g, s.kind})
		}
	}
	sort.Slice(evs, func(i, j int) bool {
		if evs[i].t != evs[j].t {
			return evs[i].t < evs[j].t
		}
		return !evs[i].open && evs[j].open
	})
	active := map[int]int{} // goroutine -> kind
	maxDeg := 0
	for _, e := range evs {
		if e.open {
			for _, ok := range active {
				a, b := ok, e.k
				if a > b {
					a, b = b, a
				}
				c.Cover("overlap_pairs", c19Kinds[a]+"+"+c19Kinds[b])
			}
			active[e.g] = e.k
			if len(active) > maxDeg {
				maxDeg = len(active)
			}
		} else {
			delete(active, e.g)
		}
	}
	c.Cover("overlap_degree", fmt.Sprintf("%03d", maxDeg))
	c.Count("rounds", 1)
	c.CoverN("goroutines", fmt.Sprint(G), 1)
}

// oracle "item": S=[kind] I=[seed>>1, seed&1] — a single item run twice sequentially and on 8 goroutines
func c19Item1(c *core.Ctx, k *core.Case) {
	sp := mustSpec(c)
	if sp == nil {
		return
	}
	seed := uint64(k.I[0])<<1 | uint64(k.I[1])
	sh := c19BuildShared(sp, 1)
	it := c19Item{kind: k.S[0], seed: seed, region: -1}
	want := c19Run(sh, it)
	res := make([]uint64, 8)
	var wg sync.WaitGroup
	start := make(chan struct{})
	for g := 0; g < 8; g++ {
		wg.Add(1)
		go func(g int) { defer wg.Done(); <-start; res[g] = c19Run(sh, it) }(g)
	}
	close(start)
	wg.Wait()
	c.Eval(9)
	for _, v := range res {
		if v != want {
			c.Fail(k, "result-differs-from-sequential:"+it.kind, fmt.Sprintf("digest %#x vs sequential %#x", v, want))
			return
		}
	}
}

// c19Post parses the race detector's logs written by the shards.
func c19Post(pi *core.PostInfo) (vios []*core.Violation, inconcl []string) {
	files, _ := filepath.Glob(filepath.Join(pi.Work, "race.*"))
	seen := map[string]bool{}
	blocks := 0
	for _, f := range files {
		d, err := os.ReadFile(f)
		if err != nil {
			continue
		}
		for _, blk := range strings.Split(string(d), "==================") {
			if !strings.Contains(blk, "WARNING: DATA RACE") {
				continue
			}
			blocks++
			// first library frame of each of the two access stacks
			var frames []string
			for _, part := range strings.Split(blk, "\n\n") {
				if !(strings.Contains(part, "Write at") || strings.Contains(part, "Read at") || strings.Contains(part, "Previous write") || strings.Contains(part, "Previous read")) {
					continue
				}
				fr := "?"
				for _, ln := range strings.Split(part, "\n") {
					t := strings.TrimSpace(ln)
					if strings.HasPrefix(t, "github.com/free5gc/nas") {
						if i := strings.LastIndex(t, "("); i > 0 {
							t = t[:i]
						}
						fr = strings.TrimPrefix(strings.TrimPrefix(t, "github.com/free5gc/nas"), "/")
						break
					}
				}
				frames = append(frames, fr)
			}
			sort.Strings(frames)
			key := strings.Join(frames, " <-> ")
			if seen[key] {
				continue
			}
			seen[key] = true
			hasNas := false
			for _, fr := range frames {
				if fr != "?" {
					hasNas = true
				}
			}
			if strings.Contains(blk, "github.com/free5gc/nas") {
				hasNas = true
			}
			if !hasNas {
				inconcl = append(inconcl, "data race with no library frame (harness defect):\n"+blk)
				continue
			}
			if len(blk) > 6000 {
				blk = blk[:6000]
			}
			pid := pi.Property
			if pid == "" {
				pid = "C19"
			}
			kase := &core.Case{Oracle: "round", Target: "nas", I: []int64{int64(pi.Seed), 16, 72}}
			if pid != "C19" {
				kase = &core.Case{Oracle: "race-side", Target: pid}
			}
			vios = append(vios, &core.Violation{Property: pid, Oracle: "race-detector", Target: "nas", Signature: "data-race:" + key, Detail: blk, Seed: pi.Seed, Case: kase})
		}
	}
	pi.Counters["race_report_blocks"] = int64(blocks)
	pi.Counters["race_logs_read"] = int64(len(files))
	return
}

func init() { core.RacePost = c19Post }

func init() {
	p := &core.Property{
		ID:   "C19",
		Race: true,
		Rule: "rounds of G in {2,4,16,64} goroutines, each owning a pre-partitioned list of items of 18 kinds (decode, encode, ciphering and MAC with each algorithm, accessors, identity/list/misc converters incl. their logging error paths, QoS, PCO, UE policy, counter and allocator on private values; encoders, getters and read-only converters on 64 shared decoded messages), released by one barrier and joined by one WaitGroup, worker built with -race; every concurrent result digest is compared with the digest from a sequential pre-run. Non-trivial = every item that ran while another goroutine was active (all items of a round; overlap is reported); distinct by (kind, seed).",
		Assumptions: []string{
			"the Go race detector reports conflicting accesses that are not ordered by happens-before; the barrier-only structure leaves every pair of items on different goroutines unordered",
			"values that a call writes (security.Count, MarshalBinary receivers in uePolicyContainer) are never shared — the statement covers distinct values or read-only sharing of a decoded message",
			"schedules are sampled, not enumerated; a race needs only to be unordered, not to coincide in time",
		},
		Oracles: map[string]func(*core.Ctx, *core.Case){"cold-entries": coldEntries, "cold-concurrent": coldConcurrent, "round": c19Round, "item": c19Item1},
		Shards:  4,
		Post:    c19Post,
		Floors: func(tier string, cov map[string]map[string]int64, cnt map[string]int64) []string {
			var f []string
			for _, kn := range c19Kinds {
				if cov["kind_items"][kn] == 0 {
					f = append(f, "kind never ran: "+kn)
				}
			}
			deg2 := false
			for d := range cov["overlap_degree"] {
				if d >= "002" {
					deg2 = true
				}
			}
			if !deg2 || len(cov["overlap_pairs"]) == 0 {
				f = append(f, "no two items ever overlapped in time (starved machine?)")
			}
			for _, g := range []string{"2", "4", "16", "64"} {
				if cov["goroutines"][g] == 0 {
					f = append(f, "no round with "+g+" goroutines")
				}
			}
			if os.Getenv("VERIF_NORACE") == "" && cnt["race_detector_active"] == 0 {
				f = append(f, "the worker was not built with the race detector")
			}
			return f
		},
		StallSeconds: 300,
	}
	p.Units = func(tier string) []core.Unit {
		var us []core.Unit
		rounds := 3
		if tier == "thorough" {
			rounds = 24
		}
		// cold starts under the race detector: the first use of each group of operations in a
		// process is made by 32 goroutines at once (lazily built tables and caches are then built
		// under contention, and the detector sees the unsynchronised publication)
		for gi, g := range [][]string{{"mac1", "cipher1"}, {"mac2", "cipher2"}, {"mac3", "cipher3", "mac0"}, {"getters", "ident", "shared-parse"}, {"lists", "misc", "zones", "bad-input"}, {"qos", "pco", "uepolicy", "handoff", "rx-handoff", "uepolicy-result"}, {"decode", "encode", "accessor"}} {
			us = append(us, coldUnitN("nas", gi+1, 32, g...))
		}
		// long storms of the keyed algorithms: 32 goroutines x 200 (thorough 2000) light items of one
		// cipher / MAC kind, each item calling twice with its parameters — state kept per
		// (key, IV) across calls needs many overlapping initialisations to go wrong
		for ki, kind := range c19Kinds {
			if !strings.HasPrefix(kind, "cipher") && !strings.HasPrefix(kind, "mac") {
				continue
			}
			ki, kind := ki, kind
			us = append(us, core.Unit{Name: "long-storm-" + kind, Weight: 120, Run: func(c *core.Ctx) {
				k := &core.Case{Oracle: "round", Target: "nas", I: []int64{int64(c.R.Uint64() >> 1), 32, int64(c.Pick(200, 2000)), int64(ki), 1}}
				c.Do(k)
				c.NonTrivial(k.Hash())
				c.Cover("storm", kind)
			}})
		}
		for _, G := range []int{2, 4, 16, 64} {
			for rd := 0; rd < rounds; rd++ {
				G, rd := G, rd
				if G == 16 && rd == 0 {
					for ki := range c19Kinds {
						ki := ki
						for st := 0; st < map[bool]int{false: 1, true: 6}[tier == "thorough"]; st++ {
							st := st
							us = append(us, core.Unit{Name: fmt.Sprintf("storm-%s-%d", c19Kinds[ki], st), Weight: 60, Run: func(c *core.Ctx) {
								if raceEnabled {
									c.Count("race_detector_active", 1)
								}
								k := &core.Case{Oracle: "round", Target: "nas", I: []int64{int64(c.R.Uint64() >> 1), 16, 24, int64(ki)}}
								c.Do(k)
								c.NonTrivial(k.Hash())
								c.Cover("storm", c19Kinds[ki])
							}})
						}
					}
				}
				us = append(us, core.Unit{Name: fmt.Sprintf("round-g%02d-%02d", G, rd), Weight: 100, Run: func(c *core.Ctx) {
					per := 18 * 4
					if G >= 16 {
						per = 18 * 2
					}
					if raceEnabled {
						c.Count("race_detector_active", 1)
					}
					k := &core.Case{Oracle: "round", Target: "nas", I: []int64{int64(c.R.Uint64() >> 1), int64(G), int64(per), -1}}
					c.Do(k)
					c.NonTrivial(k.Hash())
					for i := 0; i < G*per && i < 4000; i += 7 {
						c.NonTrivial(core.HashU64(uint64(k.I[0]), uint64(i)))
					}
					c.Sample(map[string]interface{}{"oracle": "round", "seed": k.I[0], "goroutines": G, "items_per_goroutine": per, "kinds": len(c19Kinds)})
				}})
			}
		}
		us = append(us, coldEntryUnits(tier, "nas", "ident", "lists", "misc", "mac", "cipher", "qos", "pco", "uepolicy", "count")...)
		return us
	}
	core.Register(p)
}
