package monitor

import (
	"bytes"
	"fmt"
	"net"
	"reflect"

	"github.com/free5gc/nas/nasConvert"

	"verifharness/internal/core"
	"verifharness/internal/prng"
	"verifharness/internal/reg"
)

// C16 — protocol configuration options and PDU session bitmaps round-trip.

type pcoUnit struct {
	id  uint16
	val []byte
}

func pcoRef(units []pcoUnit) []byte {
	out := []byte{0x80}
	for _, u := range units {
		out = append(out, byte(u.id>>8), byte(u.id), byte(len(u.val)))
		out = append(out, u.val...)
	}
	return out
}

// oracle "pco-roundtrip": I=[seed, n]
func c16Roundtrip(c *core.Ctx, k *core.Case) {
	r := prng.New(uint64(k.I[0]))
	var units []pcoUnit
	p := nasConvert.NewProtocolConfigurationOptions()
	for i := 0; i < int(k.I[1]); i++ {
		u := pcoUnit{id: uint16(r.Uint32())}
		switch r.Intn(6) {
		case 0:
		case 1:
			u.val = r.Bytes(255)
		case 2:
			u.val = r.Bytes(1)
		default:
			u.val = r.Bytes(r.Intn(40))
		}
		if r.Chance(1, 4) {
			u.id = []uint16{0x0000, 0xffff, 0x000d, 0x0003, 0x8021, 0x0010, 0x0001, 0x000a}[r.Intn(8)]
		}
		if r.Chance(1, 4) {
			// the identifiers the sources of the tree mention (protocol ids, container ids) and
			// contents shaped as what such a unit carries: a PPP packet (code, identifier,
			// 16-bit length, data) with consistent or short length field and zero / non-zero
			// padding behind it, or an address / MTU sized value
			ids := pcoIDs
			for _, v := range reg.DictInts {
				if v > 0 && v <= 0xffff {
					ids = append(ids[:len(ids):len(ids)], uint16(v))
				}
			}
			u.id = ids[r.Intn(len(ids))]
			switch r.Intn(4) {
			case 0:
				u.val = pppUnit(r, u.id, r.Range(4, 40), r.Range(1, 12), true)[3:]
			case 1:
				u.val = pppUnit(r, u.id, r.Range(4, 40), r.Range(1, 12), false)[3:]
			case 2:
				u.val = pppUnit(r, u.id, r.Range(4, 40), 0, true)[3:]
			default:
				u.val = r.Bytes([]int{0, 1, 2, 4, 8, 16}[r.Intn(6)])
			}
			c.Cover("pco_contents", "protocol-shaped")
		}
		units = append(units, u)
		pu := nasConvert.NewProtocolOrContainerUnit()
		pu.ProtocolOrContainerID = u.id
		pu.LengthOfContents = uint8(len(u.val))
		pu.Contents = cloneB(u.val)
		p.ProtocolOrContainerList = append(p.ProtocolOrContainerList, pu)
	}
	c.Eval(1)
	want := pcoRef(units)
	got := p.Marshal()
	c.Hold(k, "nasConvert.ProtocolConfigurationOptions.Marshal", got)
	if len(got) == 0 || got[0] != 0x80 {
		c.Fail(k, "pco-first-octet", fmt.Sprintf("Marshal starts with %x, want 80", got))
		return
	}
	if again := p.Marshal(); !bytes.Equal(again, got) {
		c.Fail(k, "pco-marshal-not-repeatable", fmt.Sprintf("a second Marshal of the same list gives %s, the first gave %s", hx(again), hx(got)))
	}
	if _, owned := ownedTwice(p.Marshal); owned != "" {
		c.Fail(k, "result-not-owned:Marshal", owned)
	}
	if !bytes.Equal(got, want) {
		c.Fail(k, "pco-layout", fmt.Sprintf("Marshal = %s, TS 24.008 10.5.6.3 layout %s", hx(got), hx(want)))
		return
	}
	back := nasConvert.NewProtocolConfigurationOptions()
	if err := thenScribble(back.UnMarshal, got); err != nil {
		c.Fail(k, "pco-unmarshal-error", fmt.Sprintf("UnMarshal(Marshal(l)): %v (bytes %s)", err, hx(got)))
		return
	}
	if ch, _ := appendProbe(reflect.ValueOf(back)); ch || probeLists(reflect.ValueOf(back)) {
		c.Fail(k, "decoded-slices-share-capacity:PCO", fmt.Sprintf("appending to the contents of one unit parsed from %s changed another unit", hx(got)))
	}
	if len(back.ProtocolOrContainerList) != len(units) {
		c.Fail(k, "pco-roundtrip", fmt.Sprintf("%d units parsed, %d marshalled (bytes %s)", len(back.ProtocolOrContainerList), len(units), hx(got)))
		return
	}
	for i, u := range units {
		b := back.ProtocolOrContainerList[i]
		if b.ProtocolOrContainerID != u.id || int(b.LengthOfContents) != len(u.val) || !bytes.Equal(b.Contents, u.val) {
			c.Fail(k, "pco-roundtrip", fmt.Sprintf("unit %d: id %#04x len %d contents %x, want id %#04x contents %x", i, b.ProtocolOrContainerID, b.LengthOfContents, b.Contents, u.id, u.val))
			return
		}
	}
}

// pcoJudgeParse checks a nil-error parse result against the input octets.
func pcoJudgeParse(c *core.Ctx, k *core.Case, in []byte) {
	p := nasConvert.NewProtocolConfigurationOptions()
	snapshot := cloneB(in)
	err := p.UnMarshal(in)
	if !bytes.Equal(in, snapshot) {
		c.Fail(k, "pco-input-mutated", "UnMarshal changed its input")
	}
	if err != nil {
		return
	}
	off := 1
	for i, u := range p.ProtocolOrContainerList {
		if off+3 > len(in) {
			c.Fail(k, "pco-contents-not-in-input", fmt.Sprintf("unit %d (id %#04x, %d octets) has no header left in the input %s", i, u.ProtocolOrContainerID, u.LengthOfContents, hx(in)))
			return
		}
		id := uint16(in[off])<<8 | uint16(in[off+1])
		l := int(in[off+2])
		if u.ProtocolOrContainerID != id || int(u.LengthOfContents) != l || off+3+l > len(in) || !bytes.Equal(u.Contents, in[off+3:off+3+l]) {
			c.Fail(k, "pco-contents-not-in-input", fmt.Sprintf("unit %d = {id %#04x len %d contents %x} is not what the input holds at offset %d (input %s)", i, u.ProtocolOrContainerID, u.LengthOfContents, u.Contents, off, hx(in)))
			return
		}
		off += 3 + l
	}
	// what was parsed is serialised again: the configuration-protocol octet is 0x80 whatever the
	// first octet of the input was, followed by exactly the units found
	var units []pcoUnit
	for _, u := range p.ProtocolOrContainerList {
		units = append(units, pcoUnit{u.ProtocolOrContainerID, u.Contents})
	}
	if out := p.Marshal(); !bytes.Equal(out, pcoRef(units)) {
		c.Fail(k, "pco-marshal-after-parse", fmt.Sprintf("Marshal of the list parsed from %s gives %s, 0x80 and the parsed units give %s", hx(in), hx(out), hx(pcoRef(units))))
	}
	if len(in)-off >= 3 {
		// a complete further header was available but not returned
		l := int(in[off+2])
		if off+3+l <= len(in) {
			c.Fail(k, "pco-unit-dropped", fmt.Sprintf("nil error but the complete unit at offset %d was not returned (input %s)", off, hx(in)))
		}
	}
}

// oracle "pco-parse": B=[bytes]
func c16Parse(c *core.Ctx, k *core.Case) {
	c.Eval(1)
	if !capacityIndependent(k.B[0], func(b []byte) uint64 {
		p := nasConvert.NewProtocolConfigurationOptions()
		err := p.UnMarshal(b)
		if err == nil {
			if ch, _ := appendProbe(reflect.ValueOf(p)); ch || probeLists(reflect.ValueOf(p)) {
				c.Fail(k, "decoded-slices-share-capacity:PCO", fmt.Sprintf("appending to the contents of one unit parsed from %s changed another unit", hx(k.B[0])))
			}
		}
		return digestOf(err, p)
	}) {
		c.Fail(k, "parse-depends-on-capacity", fmt.Sprintf("the %d octets %s parse differently from a slice of exactly that capacity and from the prefix of a larger array", len(k.B[0]), hx(k.B[0])))
	}
	pcoJudgeParse(c, k, cloneB(k.B[0]))
}

// oracle "pco-sweep": I=[len, lo, hi]
func c16Sweep(c *core.Ctx, k *core.Case) {
	n := int(k.I[0])
	cur := &core.Case{Oracle: "pco-parse", Target: k.Target, B: [][]byte{make([]byte, n)}}
	var cnt int64
	var rec func(pos int)
	rec = func(pos int) {
		if pos == n {
			c.J.Write(cur)
			func() {
				defer func() {
					if r := recover(); r != nil {
						c.Fail(&core.Case{Oracle: "pco-parse", Target: k.Target, B: [][]byte{cloneB(cur.B[0])}}, "panic:"+core.PanicClass(r), fmt.Sprintf("panic on %x: %v", cur.B[0], r))
					}
				}()
				pcoJudgeParse(c, cur, cloneB(cur.B[0]))
			}()
			cnt++
			return
		}
		lo, hi := 0, 256
		if pos == 0 {
			lo, hi = int(k.I[1]), int(k.I[2])
		}
		for v := lo; v < hi; v++ {
			cur.B[0][pos] = byte(v)
			rec(pos + 1)
		}
	}
	rec(0)
	c.Eval(cnt)
	c.CoverN("sweep", fmt.Sprint(n), cnt)
}

// oracle "psi": I=[lo, hi) of the 16-bit bitmap value (octet0 = low byte)
func c16Psi(c *core.Ctx, k *core.Case) {
	var n int64
	for v := int(k.I[0]); v < int(k.I[1]); v++ {
		b := []byte{byte(v), byte(v >> 8)}
		arr := nasConvert.PSIToBooleanArray(cloneB(b))
		kk := &core.Case{Oracle: "psi", Target: "nasConvert.PSIToBooleanArray", I: []int64{int64(v), int64(v) + 1}}
		for i := 0; i < 16; i++ {
			if arr[i] != (b[i/8]>>(uint(i)%8)&1 == 1) {
				c.Fail(kk, "psi-bit-order", fmt.Sprintf("PSIToBooleanArray(%x)[%d] = %v, bit %d of octet %d is %d", b, i, arr[i], i%8, i/8, b[i/8]>>(uint(i)%8)&1))
				break
			}
		}
		back0, owned := ownedTwice(func() []byte { return nasConvert.PSIToBuf(arr) })
		if owned != "" {
			c.Fail(kk, "result-not-owned:PSIToBuf", fmt.Sprintf("PSIToBuf(bits of %x): %s", b, owned))
		}
		if v%257 == 0 {
			c.Hold(kk, "nasConvert.PSIToBuf", nasConvert.PSIToBuf(arr))
		}
		if back := back0; !bytes.Equal(back, b) {
			c.Fail(kk, "psi-roundtrip", fmt.Sprintf("PSIToBuf(PSIToBooleanArray(%x)) = %x", b, back))
		}
		// converse: array built independently from the value
		var a2 [16]bool
		for i := 0; i < 16; i++ {
			a2[i] = v>>uint(i)&1 == 1
		}
		buf := nasConvert.PSIToBuf(a2)
		if len(buf) != 2 || buf[0] != byte(v) || buf[1] != byte(v>>8) {
			c.Fail(kk, "psi-buf", fmt.Sprintf("PSIToBuf(bits of %#04x) = %x", v, buf))
		} else if nasConvert.PSIToBooleanArray(buf) != a2 {
			c.Fail(kk, "psi-roundtrip", fmt.Sprintf("PSIToBooleanArray(PSIToBuf(a)) != a for %#04x", v))
		}
		n += 4
	}
	c.Eval(n)
	c.Count("psi_values", k.I[1]-k.I[0])
}

// oracle "errcause": I=[seed, n]
func c16ErrCause(c *core.Ctx, k *core.Case) {
	r := prng.New(uint64(k.I[0]))
	n := int(k.I[1])
	ids, causes := r.Bytes(n), r.Bytes(n)
	c.Eval(1)
	out, owned := ownedTwice(func() []byte {
		return nasConvert.PDUSessionReactivationResultErrorCauseToBuf(cloneB(ids), cloneB(causes))
	})
	if owned != "" {
		c.Fail(k, "result-not-owned:PDUSessionReactivationResultErrorCauseToBuf", owned)
	}
	if len(out) != 2*n {
		c.Fail(k, "errcause-layout", fmt.Sprintf("%d pairs gave %d octets", n, len(out)))
		return
	}
	for i := 0; i < n; i++ {
		if out[2*i] != ids[i] || out[2*i+1] != causes[i] {
			c.Fail(k, "errcause-layout", fmt.Sprintf("pair %d = %x %x, want %x %x", i, out[2*i], out[2*i+1], ids[i], causes[i]))
			return
		}
	}
	if n > 0 {
		if o2 := nasConvert.PDUSessionReactivationResultErrorCauseToBuf(ids, causes[:n-1]); o2 != nil {
			c.Fail(k, "errcause-mismatch-accepted", "lists of different length gave a result")
		}
	}
	// every other way the two lists can disagree in length
	for _, d := range [][2]int{{n, n + 1}, {n, n + 3}, {n + 1, n}, {n, 2 * n}, {1, n + 1}} {
		a, b := r.Bytes(d[0]), r.Bytes(d[1])
		if len(a) == len(b) || len(a) == 0 {
			continue
		}
		if o2 := nasConvert.PDUSessionReactivationResultErrorCauseToBuf(a, b); o2 != nil {
			c.Fail(k, "errcause-mismatch-accepted", fmt.Sprintf("%d identities and %d causes gave the result %x", len(a), len(b), o2))
			break
		}
	}
}

// oracle "pco-helpers": I=[seed] — the Add* helpers build units with the TS 24.008
// Table 10.5.154 container identifiers and raw address / MTU contents.
func c16Helpers(c *core.Ctx, k *core.Case) {
	r := prng.New(uint64(k.I[0]))
	p := nasConvert.NewProtocolConfigurationOptions()
	v4a, v4b := net.IP(r.Bytes(4)), net.IP(r.Bytes(4))
	v6 := net.IP(r.Bytes(16))
	v4aArg, v4bArg := v4a, v4b
	switch r.Intn(3) {
	case 1: // the 16-octet form net.ParseIP and net.IPv4 return for an IPv4 address
		v4aArg, v4bArg = net.IPv4(v4a[0], v4a[1], v4a[2], v4a[3]), net.IPv4(v4b[0], v4b[1], v4b[2], v4b[3])
	case 2:
		v4aArg = net.ParseIP(v4a.String())
	}
	if r.Chance(1, 3) {
		// an IPv4-mapped IPv6 address is a 16-octet address like any other
		v6 = net.IPv4(r.Byte(), r.Byte(), r.Byte(), r.Byte())
	}
	mtu := uint16(r.Uint32())
	var want []pcoUnit
	mode := 0
	if len(k.I) > 1 {
		mode = int(k.I[1])
	}
	reqUnits := func() []pcoUnit {
		var us []pcoUnit
		for n := r.Range(1, 6); n > 0; n-- {
			u := pcoUnit{id: []uint16{0x000d, 0x0003, 0x000a, 0x000c, 0x0010, 0x0001, 0x8021}[r.Intn(7)]}
			if r.Chance(1, 3) {
				u.val = r.Bytes([]int{1, 2, 4, 16, 3}[r.Intn(5)])
			}
			us = append(us, u)
		}
		return us
	}
	if mode&2 != 0 {
		// a recycled object: it parsed other options before and its list was cut back to
		// length 0 (the units stay in the array behind the list)
		old := reqUnits()
		for i := range old {
			if len(old[i].val) == 0 {
				old[i].val = r.Bytes(r.Range(1, 8))
			}
		}
		_ = p.UnMarshal(pcoRef(old))
		p.ProtocolOrContainerList = p.ProtocolOrContainerList[:0]
	}
	if mode&1 != 0 {
		// the object first parses the peer's request (mostly empty units: "please send me ...")
		// and is then completed with the helpers
		req := reqUnits()
		if err := p.UnMarshal(pcoRef(req)); err != nil {
			c.Fail(k, "pco-helper-error", "a well-formed request list does not parse: "+err.Error())
			return
		}
		want = append(want, req...)
	}
	p.AddDNSServerIPv4AddressRequest()
	want = append(want, pcoUnit{0x000d, nil})
	p.AddDNSServerIPv6AddressRequest()
	want = append(want, pcoUnit{0x0003, nil})
	p.AddIPAddressAllocationViaNASSignallingUL()
	want = append(want, pcoUnit{0x000a, nil})
	e1 := p.AddDNSServerIPv4Address(v4aArg)
	want = append(want, pcoUnit{0x000d, v4a})
	e2 := p.AddPCSCFIPv4Address(v4bArg)
	want = append(want, pcoUnit{0x000c, v4b})
	e3 := p.AddDNSServerIPv6Address(v6)
	want = append(want, pcoUnit{0x0003, []byte(v6.To16())})
	e4 := p.AddIPv4LinkMTU(mtu)
	want = append(want, pcoUnit{0x0010, []byte{byte(mtu >> 8), byte(mtu)}})
	c.Eval(1)
	if e1 != nil || e2 != nil || e3 != nil || e4 != nil {
		c.Fail(k, "pco-helper-error", fmt.Sprint(e1, e2, e3, e4))
		return
	}
	if got, w := p.Marshal(), pcoRef(want); !bytes.Equal(got, w) {
		c.Fail(k, "pco-helper-layout", fmt.Sprintf("list built with the Add* helpers marshals to %s, TS 24.008 identifiers and raw contents give %s", hx(got), hx(w)))
	}
	back := nasConvert.NewProtocolConfigurationOptions()
	if mode != 0 {
		c.Count("helpers_on_parsed_or_recycled_object", 1)
	}
	if err := back.UnMarshal(p.Marshal()); err != nil || len(back.ProtocolOrContainerList) != len(want) {
		c.Fail(k, "pco-helper-roundtrip", fmt.Sprintf("a list built with the Add* helpers does not parse back: %v, %d of %d units (bytes %s)", err, len(back.ProtocolOrContainerList), len(want), hx(p.Marshal())))
	}
	for i, u := range p.ProtocolOrContainerList {
		if int(u.LengthOfContents) != len(u.Contents) {
			c.Fail(k, "pco-helper-length", fmt.Sprintf("unit %d: LengthOfContents %d, %d content octets", i, u.LengthOfContents, len(u.Contents)))
		}
	}
	// an IPv6 address where IPv4 is required (and the converse) must be refused
	if v6.To4() == nil && (p.AddDNSServerIPv4Address(v6) == nil || p.AddPCSCFIPv4Address(v6) == nil) {
		c.Fail(k, "pco-helper-accepts-wrong-family", "an IPv6 address was accepted by an IPv4 helper")
	}
}

func init() {
	p := &core.Property{
		ID:          "C16",
		Interleave:  []string{"pco-roundtrip", "pco-parse", "errcause", "pco-helpers"},
		Rule:        "PCO: lists of 0..20 units with any 16-bit identifier and contents of 0..255 octets: Marshal = 0x80 + (id, length, contents)*, UnMarshal(Marshal(l)) = l in order; parsing every byte string of length <= 2 (thorough 3) and mutated/truncated serialisations: no panic, and every unit of a nil-error result is exactly the (id, length, contents) found at its offset in the input, no complete unit dropped. PSI: all 65 536 two-octet bitmaps both ways, bit i = bit i%8 of octet i/8. Non-trivial = list with at least one unit / a mutated string; distinct by seed / bytes.",
		Assumptions: []string{"LengthOfContents equals len(Contents) in well-formed lists", "an incomplete trailing header dropped without error is 'a value', not a violation"},
		Oracles:     map[string]func(*core.Ctx, *core.Case){"cold-entries": coldEntries, "cold-concurrent": coldConcurrent, "pco-roundtrip": c16Roundtrip, "pco-parse": c16Parse, "pco-sweep": c16Sweep, "psi": c16Psi, "errcause": c16ErrCause, "pco-helpers": c16Helpers},
		Exhaustive: func(tier string) (bool, string) {
			return true, "all 65 536 PDU session bitmaps in both directions; all PCO byte strings up to 2 (thorough 3) octets; container lists sampled"
		},
		StallSeconds: 30,
		Floors: func(tier string, cov map[string]map[string]int64, cnt map[string]int64) []string {
			var f []string
			if cnt["psi_values"] != 65536 {
				f = append(f, fmt.Sprintf("%d of 65536 bitmaps", cnt["psi_values"]))
			}
			for n, want := range []int64{1, 256, 65536} {
				if cov["sweep"][fmt.Sprint(n)] != want {
					f = append(f, fmt.Sprintf("PCO sweep length %d incomplete", n))
				}
			}
			if cov["units"]["0"] == 0 || cov["units"]["20"] == 0 {
				f = append(f, "PCO lists of 0 and 20 units not both seen")
			}
			return f
		},
	}
	p.Units = func(tier string) []core.Unit {
		var us []core.Unit
		for v := 0; v < 65536; v += 4096 {
			v := v
			us = append(us, core.Unit{Name: fmt.Sprintf("psi-%04x", v), Weight: 5, Run: func(c *core.Ctx) {
				c.Do(&core.Case{Oracle: "psi", Target: "nasConvert.PSIToBooleanArray", I: []int64{int64(v), int64(v + 4096)}})
				for i := 0; i < 4096; i += 64 {
					c.NonTrivial(core.HashU64(7, uint64(v+i)))
				}
			}})
		}
		for u := 0; u < 16; u++ {
			us = append(us, core.Unit{Name: fmt.Sprintf("pco-%02d", u), Weight: 30, Run: func(c *core.Ctx) {
				for i := 0; i < c.Pick(1200, 40000); i++ {
					n := i % 21
					k := &core.Case{Oracle: "pco-roundtrip", Target: "nasConvert.ProtocolConfigurationOptions", I: []int64{int64(c.R.Uint64() >> 1), int64(n)}}
					c.Do(k)
					c.Cover("units", fmt.Sprint(n))
					if n > 0 {
						c.NonTrivial(k.Hash())
					}
					c.Sample(k.Brief())
					// mutated serialisation
					r2 := prng.New(uint64(k.I[0]))
					var units []pcoUnit
					for j := 0; j < 1+n%4; j++ {
						units = append(units, pcoUnit{id: uint16(r2.Uint32()), val: r2.Bytes(r2.Intn(12))})
					}
					b := pcoRef(units)
					switch i % 4 {
					case 0:
						b = b[:c.R.Intn(len(b)+1)]
					case 1:
						b[c.R.Intn(len(b))] = c.R.Byte()
					case 2:
						b = append(b, c.R.Bytes(c.R.Intn(5))...)
					case 3:
						b[c.R.Intn(len(b))] = 0xff
					}
					kp := &core.Case{Oracle: "pco-parse", Target: "nasConvert.ProtocolConfigurationOptions.UnMarshal", B: [][]byte{b}}
					c.Do(kp)
					c.NonTrivial(kp.Hash())
					if i%8 == 0 {
						kh := &core.Case{Oracle: "pco-helpers", Target: "nasConvert.ProtocolConfigurationOptions.Add*", I: []int64{int64(c.R.Uint64() >> 1), int64(i / 8 % 4)}}
						c.Do(kh)
						c.NonTrivial(kh.Hash())
					}
					ke := &core.Case{Oracle: "errcause", Target: "nasConvert.PDUSessionReactivationResultErrorCauseToBuf", I: []int64{int64(c.R.Uint64() >> 1), int64(c.R.Intn(17))}}
					c.Do(ke)
				}
			}})
		}
		top := 2
		if tier == "thorough" {
			top = 3
		}
		for n := 0; n <= top; n++ {
			n := n
			chunks := 1
			if n == 3 {
				chunks = 16
			}
			for ch := 0; ch < chunks; ch++ {
				lo, hi := ch*256/chunks, (ch+1)*256/chunks
				us = append(us, core.Unit{Name: fmt.Sprintf("sweep-%d-%d", n, ch), Weight: 1 + n*n*n*20, Run: func(c *core.Ctx) {
					c.Do(&core.Case{Oracle: "pco-sweep", Target: "nasConvert.ProtocolConfigurationOptions.UnMarshal", I: []int64{int64(n), int64(lo), int64(hi)}})
				}})
			}
		}
		us = append(us, coldUnits(tier, "nasConvert", "pco", "misc", "shared-parse", "bad-input")...)
		us = append(us, coldEntryUnits(tier, "nasConvert", "pco", "misc")...)
		return us
	}
	core.Register(p)
}
