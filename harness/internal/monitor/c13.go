package monitor

import (
	"bytes"
	"encoding/hex"
	"fmt"

	"github.com/free5gc/nas/nasConvert"
	"github.com/free5gc/nas/nasType"
	"github.com/free5gc/openapi/models"

	"verifharness/internal/core"
	"verifharness/internal/prng"
	"verifharness/internal/refconv"
)

// C13 — slice and area lists encode to the specified layout and decode back.

func sdHex(b [3]byte) string { return hex.EncodeToString(b[:]) }

// mixCase renders hex text with the letter digits in lower, upper or mixed case
// (variant 0 lower, 1 upper, otherwise per-letter by the bits of variant); the
// octets a hex string denotes do not depend on its case.
func mixCase(s string, variant uint64) string {
	b := []byte(s)
	for i := range b {
		if b[i] >= 'a' && b[i] <= 'f' && (variant == 1 || (variant > 1 && variant>>uint(i%60)&1 == 1)) {
			b[i] -= 'a' - 'A'
		}
	}
	return string(b)
}

// dnnOctets draws a DNN value: text-like (letters, digits, '-', '.') or arbitrary
// octets 0..255 — the DNN value is an octet string for the encoders.
func dnnOctets(r *prng.Rand, n int) []byte {
	d := make([]byte, n)
	switch r.Intn(3) {
	case 0:
		r.Fill(d)
	case 1:
		for j := range d {
			d[j] = []byte{0x80, 0xff, 0xc3, 0xa9, 0x00, 0x7f, 0xfe, 0xe2}[r.Intn(8)]
		}
	default:
		for j := range d {
			d[j] = "abcdefghijklmnopqrstuvwxyz0123456789-."[r.Intn(38)]
		}
	}
	return d
}

// oracle "snssai": I=[sst, hasSD, sd(24 bit), cause]
func c13Snssai(c *core.Ctx, k *core.Case) {
	sst, hasSD, sd, cause := uint8(k.I[0]), k.I[1] == 1, uint32(k.I[2]), uint8(k.I[3])
	m := models.Snssai{Sst: int32(sst)}
	want := refconv.Snssai{SST: sst, HasSD: hasSD}
	if hasSD {
		want.SD = [3]byte{byte(sd >> 16), byte(sd >> 8), byte(sd)}
		m.Sd = mixCase(sdHex(want.SD), uint64(sd>>3)%5)
	}
	c.Eval(1)
	if _, owned := ownedTwice(func() []byte { return nasConvert.SnssaiToNas(m) }); owned != "" {
		c.Fail(k, "result-not-owned:SnssaiToNas", owned)
	}
	enc := nasConvert.SnssaiToNas(m)
	c.Hold(k, "nasConvert.SnssaiToNas", enc)
	got, err := refconv.ParseNssai(enc)
	if err != nil || len(got) != 1 || got[0] != want {
		c.Fail(k, "snssai-layout", fmt.Sprintf("SnssaiToNas(%+v) = %x; spec decoder: %+v %v, want %+v", m, enc, got, err, want))
	}
	if _, owned := ownedTwice(func() []byte { return nasConvert.RejectedSnssaiToNas(m, cause) }); owned != "" {
		c.Fail(k, "result-not-owned:RejectedSnssaiToNas", owned)
	}
	rej := nasConvert.RejectedSnssaiToNas(m, cause)
	c.Hold(k, "nasConvert.RejectedSnssaiToNas", rej)
	rg, err := refconv.ParseRejectedNssai(rej)
	if err != nil || len(rg) != 1 || rg[0] != (refconv.Rejected{SST: sst, HasSD: hasSD, SD: want.SD, Cause: cause}) {
		c.Fail(k, "rejected-snssai-layout", fmt.Sprintf("RejectedSnssaiToNas(%+v, %d) = %x; spec decoder: %+v %v", m, cause, rej, rg, err))
	}
}

func c13RandSnssai(r *prng.Rand, variant int) refconv.Snssai {
	s := refconv.Snssai{SST: r.Byte()}
	fill := func(b *[3]byte) { copy(b[:], r.Bytes(3)) }
	switch variant {
	case 1:
	case 2:
		s.HasMappedSST, s.MappedSST = true, r.Byte()
	case 4:
		s.HasSD = true
		fill(&s.SD)
	case 5:
		s.HasSD, s.HasMappedSST, s.MappedSST = true, true, r.Byte()
		fill(&s.SD)
	case 8:
		s.HasSD, s.HasMappedSST, s.MappedSST, s.HasMappedSD = true, true, r.Byte(), true
		fill(&s.SD)
		fill(&s.MappedSD)
	}
	return s
}

// oracle "nssai-decode": B=[contents] I=[wellformed]
func c13NssaiDecode(c *core.Ctx, k *core.Case) {
	b := k.B[0]
	want, werr := refconv.ParseNssai(b)
	e := nasType.NewRequestedNSSAI(0x2f)
	if core.HashBytes(0x13, b)&1 == 1 && len(b) > 0 && len(b) < 200 {
		// the element held a longer, well-formed list before (one more entry of length 1 or 4)
		longer := append(cloneB(b), []byte{1, 0x55}...)
		if core.HashBytes(0x13, b)&2 == 2 {
			longer = append(cloneB(b), []byte{4, 0x66, 1, 2, 3}...)
		}
		e.SetLen(uint8(len(longer)))
		e.SetSNSSAIValue(longer)
		c.Count("elements_filled_twice", 1)
	}
	e.SetLen(uint8(len(b)))
	e.SetSNSSAIValue(b)
	c.Eval(1)
	got, err := nasConvert.RequestedNssaiToModels(e)
	if werr != nil {
		if err == nil {
			c.Fail(k, "nssai-malformed-accepted", fmt.Sprintf("RequestedNssaiToModels(%x) returned no error; spec decoder: %v", b, werr))
		}
		return
	}
	if err != nil {
		c.Fail(k, "nssai-wellformed-rejected", fmt.Sprintf("RequestedNssaiToModels(%x): %v", b, err))
		return
	}
	if len(got) != len(want) {
		c.Fail(k, "nssai-decode", fmt.Sprintf("RequestedNssaiToModels(%x): %d entries, want %d", b, len(got), len(want)))
		return
	}
	for i, w := range want {
		g := got[i]
		ok := g.ServingSnssai != nil && uint8(g.ServingSnssai.Sst) == w.SST && (g.ServingSnssai.Sd != "") == w.HasSD && (!w.HasSD || g.ServingSnssai.Sd == sdHex(w.SD))
		if w.HasMappedSST {
			ok = ok && g.HomeSnssai != nil && uint8(g.HomeSnssai.Sst) == w.MappedSST && (g.HomeSnssai.Sd != "") == w.HasMappedSD && (!w.HasMappedSD || g.HomeSnssai.Sd == sdHex(w.MappedSD))
		} else {
			ok = ok && g.HomeSnssai == nil
		}
		if !ok {
			c.Fail(k, "nssai-decode", fmt.Sprintf("RequestedNssaiToModels(%x) entry %d = serving %+v home %+v, want %+v", b, i, g.ServingSnssai, g.HomeSnssai, w))
			return
		}
	}
}

// oracle "snssai-element": B=[value octets of one S-NSSAI (1,2,4,5 or 8)]
func c13SnssaiElement(c *core.Ctx, k *core.Case) {
	v := k.B[0]
	w, err := refconv.ParseSnssaiValue(v)
	if err != nil {
		return
	}
	e := nasType.NewSNSSAI(0x22)
	e.SetLen(uint8(len(v)))
	copy(e.Octet[:], v)
	c.Eval(1)
	m := nasConvert.SnssaiToModels(e)
	if uint8(m.Sst) != w.SST || (m.Sd != "") != w.HasSD || (w.HasSD && m.Sd != sdHex(w.SD)) {
		c.Fail(k, fmt.Sprintf("snssai-element:len%d", len(v)), fmt.Sprintf("SnssaiToModels(Len %d, %x) = %+v, S-NSSAI is %+v", len(v), v, m, w))
	}
}

// oracle "rejected-nssai": I=[seed, nPlmn, nTa]
func c13RejectedNssai(c *core.Ctx, k *core.Case) {
	r := prng.New(uint64(k.I[0]))
	var inPlmn, inTa []models.Snssai
	var want []refconv.Rejected
	mk := func(cause uint8) models.Snssai {
		w := refconv.Rejected{SST: r.Byte(), Cause: cause}
		m := models.Snssai{Sst: int32(w.SST)}
		if r.Bool() {
			w.HasSD = true
			copy(w.SD[:], r.Bytes(3))
			m.Sd = sdHex(w.SD)
		}
		want = append(want, w)
		return m
	}
	for i := 0; i < int(k.I[1]); i++ {
		inPlmn = append(inPlmn, mk(0))
	}
	for i := 0; i < int(k.I[2]); i++ {
		inTa = append(inTa, mk(1))
	}
	c.Eval(1)
	if _, owned := ownedTwice(func() []byte { return nasConvert.RejectedNssaiToNas(inPlmn, inTa).Buffer }); owned != "" {
		c.Fail(k, "result-not-owned:RejectedNssaiToNas", owned)
	}
	e := nasConvert.RejectedNssaiToNas(inPlmn, inTa)
	c.Hold(k, "nasConvert.RejectedNssaiToNas", e.Buffer)
	got, err := refconv.ParseRejectedNssai(e.GetRejectedNSSAIContents())
	if err != nil || int(e.GetLen()) != len(e.Buffer) || len(got) != len(want) {
		c.Fail(k, "rejected-nssai-layout", fmt.Sprintf("RejectedNssaiToNas: Len %d Buffer %x; spec decoder %+v %v; want %+v", e.GetLen(), e.Buffer, got, err, want))
		return
	}
	for i := range want {
		if got[i] != want[i] {
			c.Fail(k, "rejected-nssai-layout", fmt.Sprintf("entry %d: %+v, want %+v (contents %x)", i, got[i], want[i], e.Buffer))
			return
		}
	}
}

func c13RandTais(r *prng.Rand, n, nPlmn int) ([]models.Tai, []refconv.Tai) {
	type pl struct{ mcc, mnc string }
	var pls []pl
	for i := 0; i < nPlmn; i++ {
		pls = append(pls, pl{digits(r, 3), digits(r, 2+r.Intn(2))})
	}
	var ms []models.Tai
	var ws []refconv.Tai
	for i := 0; i < n; i++ {
		p := pls[0]
		if i > 0 {
			p = pls[r.Intn(nPlmn)]
		}
		if nPlmn > 1 && i == n-1 {
			p = pls[nPlmn-1]
		}
		var tac [3]byte
		copy(tac[:], r.Bytes(3))
		if r.Chance(1, 8) {
			tac = [][3]byte{{0xff, 0xff, 0xfe}, {0, 0, 0}, {0xff, 0xff, 0xff}, {0xab, 0xcd, 0xef}}[r.Intn(4)]
		}
		ms = append(ms, models.Tai{PlmnId: &models.PlmnId{Mcc: p.mcc, Mnc: p.mnc}, Tac: mixCase(hex.EncodeToString(tac[:]), r.Uint64()%4)})
		ws = append(ws, refconv.Tai{MCC: p.mcc, MNC: p.mnc, TAC: tac})
	}
	return ms, ws
}

func taisEqual(a, b []refconv.Tai) bool {
	if len(a) != len(b) {
		return false
	}
	for i := range a {
		if a[i] != b[i] {
			return false
		}
	}
	return true
}

// oracle "tailist": I=[seed, n, nPlmn]
func c13TaiList(c *core.Ctx, k *core.Case) {
	r := prng.New(uint64(k.I[0]))
	ms, want := c13RandTais(r, int(k.I[1]), int(k.I[2]))
	c.Eval(1)
	if _, owned := ownedTwice(func() []byte { return nasConvert.TaiListToNas(ms) }); owned != "" {
		c.Fail(k, "result-not-owned:TaiListToNas", owned)
	}
	enc := nasConvert.TaiListToNas(ms)
	c.Hold(k, "nasConvert.TaiListToNas", enc)
	got, err := refconv.ParseTaiList(enc)
	if err != nil || !taisEqual(got, want) {
		c.Fail(k, "tailist-layout", fmt.Sprintf("TaiListToNas of %d TAIs over %d PLMNs = %x; spec decoder: %+v %v; want %+v", len(ms), k.I[2], enc, got, err, want))
	}
}

// oracle "servicearea": I=[seed, nAreas, allowed]  — TACs spread over the areas, 1..16 in total
func c13ServiceArea(c *core.Ctx, k *core.Case) {
	r := prng.New(uint64(k.I[0]))
	mcc, mnc := digits(r, 3), digits(r, 2+r.Intn(2))
	var areas []models.Area
	var want [][3]byte
	total := 0
	for a := 0; a < int(k.I[1]); a++ {
		var ar models.Area
		n := 1 + r.Intn(4)
		for j := 0; j < n && total < 16; j++ {
			var t [3]byte
			copy(t[:], r.Bytes(3))
			if r.Chance(1, 8) {
				t = [][3]byte{{0xff, 0xff, 0xfe}, {0, 0, 0}, {0xff, 0xff, 0xff}, {0xab, 0xcd, 0xef}}[r.Intn(4)]
			}
			ar.Tacs = append(ar.Tacs, mixCase(hex.EncodeToString(t[:]), r.Uint64()%4))
			want = append(want, t)
			total++
		}
		if len(ar.Tacs) > 0 {
			areas = append(areas, ar)
		}
	}
	rt := models.RestrictionType_ALLOWED_AREAS
	if k.I[2] == 0 {
		rt = models.RestrictionType_NOT_ALLOWED_AREAS
	}
	// In every second case the areas' TAC lists are windows into ONE pool of strings, laid out
	// in another order than the areas and with gaps, each window keeping the rest of the pool as
	// spare capacity (a caller that cuts its areas out of one configuration array). The pool
	// is the caller's: it must be unchanged afterwards.
	var pool, poolSnap []string
	if k.I[0]&1 == 1 && len(areas) > 1 {
		order := r.Perm(len(areas))
		for _, ai := range order {
			pool = append(pool, "gap-"+fmt.Sprint(ai))
			start := len(pool)
			pool = append(pool, areas[ai].Tacs...)
			areas[ai].Tacs = nil
			_ = start
		}
		pool = append(pool, "end", "end")
		// second pass: now that the pool no longer moves, cut the windows
		off := 0
		for _, ai := range order {
			off++ // the gap entry
			n := 0
			for off+n < len(pool) && len(pool[off+n]) == 6 {
				n++
			}
			areas[ai].Tacs = pool[off : off+n] // capacity runs to the end of the pool
			off += n
		}
		poolSnap = append([]string(nil), pool...)
	}
	c.Eval(1)
	sar := models.ServiceAreaRestriction{RestrictionType: rt, Areas: areas}
	if k.I[0]&2 == 2 {
		// the members the conversion does not name (maximum numbers of tracking areas, area
		// codes) hold what the subscription data gave them
		n := fillUnmodelled(&sar, r, "RestrictionType", "Areas")
		for i := range sar.Areas {
			n += fillUnmodelled(&sar.Areas[i], r, "Tacs")
		}
		c.Count("inputs_with_unmodelled_members_set", int64(n))
	}
	if _, owned := ownedTwice(func() []byte {
		return nasConvert.PartialServiceAreaListToNas(models.PlmnId{Mcc: mcc, Mnc: mnc}, sar)
	}); owned != "" {
		c.Fail(k, "result-not-owned:PartialServiceAreaListToNas", owned)
	}
	enc := nasConvert.PartialServiceAreaListToNas(models.PlmnId{Mcc: mcc, Mnc: mnc}, sar)
	c.Hold(k, "nasConvert.PartialServiceAreaListToNas", enc)
	got, err := refconv.ParseServiceAreaList(enc)
	ok := err == nil && got.MCC == mcc && got.MNC == mnc && got.Allowed == (k.I[2] == 1) && len(got.TACs) == len(want)
	if ok {
		for i := range want {
			if got.TACs[i] != want[i] {
				ok = false
			}
		}
	}
	for i := range poolSnap {
		if pool[i] != poolSnap[i] {
			c.Fail(k, "input-mutated:PartialServiceAreaListToNas", fmt.Sprintf("the caller's pool of TAC strings changed at index %d: %q -> %q (areas are windows into one pool)", i, poolSnap[i], pool[i]))
			break
		}
	}
	if !ok {
		c.Fail(k, "servicearea-layout", fmt.Sprintf("PartialServiceAreaListToNas(%s %s, %d areas / %d TACs, allowed=%d) = %x; spec decoder: %+v %v", mcc, mnc, len(areas), len(want), k.I[2], enc, got, err))
	}
}

// oracle "ladn": I=[seed, nTai, nPlmn, dnnLen]
func c13Ladn(c *core.Ctx, k *core.Case) {
	r := prng.New(uint64(k.I[0]))
	ms, want := c13RandTais(r, int(k.I[1]), int(k.I[2]))
	dnn := dnnOctets(r, int(k.I[3]))
	c.Eval(1)
	if _, owned := ownedTwice(func() []byte { return nasConvert.LadnToNas(string(dnn), ms) }); owned != "" {
		c.Fail(k, "result-not-owned:LadnToNas", owned)
	}
	enc := nasConvert.LadnToNas(string(dnn), ms)
	c.Hold(k, "nasConvert.LadnToNas", enc)
	got, err := refconv.ParseLadnInformation(enc)
	if err != nil || len(got) != 1 || !bytes.Equal(got[0].DNN, dnn) || !taisEqual(got[0].TAIs, want) {
		c.Fail(k, "ladn-layout", fmt.Sprintf("LadnToNas(%q, %d TAIs) = %x; spec decoder: %+v %v", dnn, len(ms), enc, got, err))
	}
}

// oracle "ladn-indication": I=[seed, n]
func c13LadnIndication(c *core.Ctx, k *core.Case) {
	r := prng.New(uint64(k.I[0]))
	var dnns [][]byte
	for i := 0; i < int(k.I[1]); i++ {
		n := r.Range(1, 100)
		if i%3 == 0 {
			n = r.Range(1, 8)
		}
		dnns = append(dnns, dnnOctets(r, n))
	}
	wire := refconv.LadnIndication(dnns)
	c.Eval(1)
	lbuf := cloneB(wire)
	got := nasConvert.LadnToModels(lbuf)
	if !bytes.Equal(lbuf, wire) {
		c.Fail(k, "input-mutated", "LadnToModels changed the caller's buffer")
	}
	for i := range lbuf {
		lbuf[i] = 0xa5 // the receive buffer is reused once the converter has returned
	}
	ok := len(got) == len(dnns)
	if ok {
		for i := range dnns {
			if got[i] != string(dnns[i]) {
				ok = false
			}
		}
	}
	if !ok {
		c.Fail(k, "ladn-indication-decode", fmt.Sprintf("LadnToModels(%x) = %q, well-formed list holds %q", wire, got, dnns))
	}
}

func init() {
	p := &core.Property{
		ID:         "C13",
		Interleave: []string{"snssai", "nssai-decode", "snssai-element", "rejected-nssai", "tailist", "servicearea", "ladn", "ladn-indication"},
		Rule:       "S-NSSAI: every SST with SD absent and with sampled (thorough: all 2^24 for SST strides) SDs through SnssaiToNas/RejectedSnssaiToNas, decoded by a spec decoder; RejectedNssaiToNas lists of 0..8+0..8 entries; RequestedNssaiToModels on reference encodings of 1..8 entries over the variants 1/2/4/5/8 and on malformed lengths; SnssaiToModels on elements of every variant; TaiListToNas for 1..16 TAIs over 1..3 PLMNs; PartialServiceAreaListToNas for 1..16 TACs over 1..5 areas, both restriction types; LadnToNas and LadnToModels with DNNs of 1..100 octets (the input buffer is overwritten after LadnToModels returned, the kept strings compared afterwards). Non-trivial = more than one entry, or an SD/mapped part present; distinct by the generated list.",
		Assumptions: []string{
			"spec decoders written from TS 24.501 9.11.2.8, 9.11.3.9, 9.11.3.29, 9.11.3.30, 9.11.3.46, 9.11.3.49 (number of elements is coded n−1)",
			"the DNN inside LADN elements is opaque octets in both directions (LadnToNas writes it as given)",
			"TAC and SD text is valid hex of the right size, in lower, upper or mixed case (the octets a hex string denotes do not depend on its case)",
		},
		Oracles: map[string]func(*core.Ctx, *core.Case){"cold-entries": coldEntries, "cold-concurrent": coldConcurrent, "snssai": c13Snssai, "nssai-decode": c13NssaiDecode, "snssai-element": c13SnssaiElement, "rejected-nssai": c13RejectedNssai, "tailist": c13TaiList, "servicearea": c13ServiceArea, "ladn": c13Ladn, "ladn-indication": c13LadnIndication},
		Floors: func(tier string, cov map[string]map[string]int64, cnt map[string]int64) []string {
			var f []string
			for _, kd := range []string{"snssai", "nssai-decode", "nssai-malformed", "snssai-element", "rejected-nssai", "tailist-1plmn", "tailist-nplmn", "servicearea", "ladn", "ladn-indication"} {
				if cov["kind"][kd] == 0 {
					f = append(f, "kind not exercised: "+kd)
				}
			}
			for n := 1; n <= 16; n++ {
				if cov["tai_count"][fmt.Sprint(n)] == 0 || cov["tac_count"][fmt.Sprint(n)] == 0 {
					f = append(f, fmt.Sprintf("no TAI list / service area list with %d entries", n))
				}
			}
			return f
		},
	}
	p.Units = func(tier string) []core.Unit {
		var us []core.Unit
		for u := 0; u < 16; u++ {
			u := u
			us = append(us, core.Unit{Name: fmt.Sprintf("snssai-%02d", u), Weight: 40, Run: func(c *core.Ctx) {
				for sst := u * 16; sst < u*16+16; sst++ {
					c.Do(&core.Case{Oracle: "snssai", Target: "nasConvert.SnssaiToNas", I: []int64{int64(sst), 0, 0, int64(sst % 3)}})
					nsd := c.Pick(64, 4096)
					for i := 0; i < nsd; i++ {
						sd := c.R.Uint32() & 0xffffff
						switch i {
						case 0:
							sd = 0
						case 1:
							sd = 0xffffff
						case 2:
							sd = 1
						case 3:
							sd = 0x010203
						}
						k := &core.Case{Oracle: "snssai", Target: "nasConvert.SnssaiToNas", I: []int64{int64(sst), 1, int64(sd), int64(i % 3)}}
						c.Do(k)
						c.NonTrivial(k.Hash())
					}
					c.Cover("kind", "snssai")
				}
				if c.Thorough() && u < 2 {
					// the whole SD space for two SST values
					for sd := 0; sd < 1<<24; sd++ {
						c13Snssai(c, &core.Case{Oracle: "snssai", Target: "nasConvert.SnssaiToNas", I: []int64{int64(u*127 + 1), 1, int64(sd), 0}})
						if sd&0xfffff == 0 {
							c.J.Tick()
						}
					}
					c.Count("full_sd_sweeps", 1)
				}
			}})
			us = append(us, core.Unit{Name: fmt.Sprintf("lists-%02d", u), Weight: 40, Run: func(c *core.Ctx) {
				n := c.Pick(400, 12000)
				variants := []int{1, 2, 4, 5, 8}
				for i := 0; i < n; i++ {
					// requested NSSAI, well-formed
					ne := 1 + i%8
					var b []byte
					var prev []refconv.Snssai
					for j := 0; j < ne; j++ {
						sn := c13RandSnssai(c.R, variants[c.R.Intn(5)])
						if len(prev) > 0 && c.R.Chance(1, 3) {
							// the slice of an earlier entry again, in this entry's variant
							p := prev[c.R.Intn(len(prev))]
							sn.SST = p.SST
							if sn.HasSD && p.HasSD {
								sn.SD = p.SD
							}
						}
						prev = append(prev, sn)
						b = append(b, refconv.SnssaiContents(sn)...)
					}
					k := &core.Case{Oracle: "nssai-decode", Target: "nasConvert.RequestedNssaiToModels", B: [][]byte{b}}
					c.Do(k)
					c.Cover("kind", "nssai-decode")
					c.NonTrivial(k.Hash())
					c.Sample(k.Brief())
					// malformed: a bad length somewhere, or truncated
					mb := cloneB(b)
					switch i % 3 {
					case 0:
						mb[0] = []byte{0, 3, 6, 7, 9, 200}[c.R.Intn(6)]
					case 1:
						mb = mb[:len(mb)-1]
					case 2:
						mb = append(mb, byte(variants[c.R.Intn(5)]))
					}
					km := &core.Case{Oracle: "nssai-decode", Target: "nasConvert.RequestedNssaiToModels", B: [][]byte{mb}}
					c.Do(km)
					c.Cover("kind", "nssai-malformed")
					c.NonTrivial(km.Hash())
					// single element of each variant
					v := variants[i%5]
					ke := &core.Case{Oracle: "snssai-element", Target: "nasConvert.SnssaiToModels", B: [][]byte{refconv.SnssaiContents(c13RandSnssai(c.R, v))[1:]}}
					c.Do(ke)
					c.Cover("kind", "snssai-element")
					c.Cover("snssai_variant", fmt.Sprint(v))
					c.NonTrivial(ke.Hash())
					kr := &core.Case{Oracle: "rejected-nssai", Target: "nasConvert.RejectedNssaiToNas", I: []int64{int64(c.R.Uint64() >> 1), int64(c.R.Intn(9)), int64(c.R.Intn(9))}}
					c.Do(kr)
					c.Cover("kind", "rejected-nssai")
					c.NonTrivial(kr.Hash())
					nt := 1 + i%16
					np := 1 + (i/16)%3
					if np > nt {
						np = nt
					}
					kt := &core.Case{Oracle: "tailist", Target: "nasConvert.TaiListToNas", I: []int64{int64(c.R.Uint64() >> 1), int64(nt), int64(np)}}
					c.Do(kt)
					if np == 1 {
						c.Cover("kind", "tailist-1plmn")
					} else {
						c.Cover("kind", "tailist-nplmn")
					}
					c.Cover("tai_count", fmt.Sprint(nt))
					c.NonTrivial(kt.Hash())
					ks := &core.Case{Oracle: "servicearea", Target: "nasConvert.PartialServiceAreaListToNas", I: []int64{int64(c.R.Uint64() >> 1), int64(1 + c.R.Intn(5)), int64(i % 2)}}
					c.Do(ks)
					c.Cover("kind", "servicearea")
					c.NonTrivial(ks.Hash())
					kl := &core.Case{Oracle: "ladn", Target: "nasConvert.LadnToNas", I: []int64{int64(c.R.Uint64() >> 1), int64(1 + c.R.Intn(16)), int64(1 + c.R.Intn(2)), int64(c.R.Range(1, 100))}}
					c.Do(kl)
					c.Cover("kind", "ladn")
					c.NonTrivial(kl.Hash())
					ki := &core.Case{Oracle: "ladn-indication", Target: "nasConvert.LadnToModels", I: []int64{int64(c.R.Uint64() >> 1), int64(c.R.Intn(9))}}
					c.Do(ki)
					c.Cover("kind", "ladn-indication")
					c.NonTrivial(ki.Hash())
				}
				// service area lists with every TAC count 1..16
				for nt := 1; nt <= 16; nt++ {
					for rep := 0; rep < 4; rep++ {
						seed := int64(c.R.Uint64() >> 1)
						// find an area count that yields exactly nt TACs is not needed: one area per TAC group of 1..4; use nAreas = nt (each area >= 1 TAC, capped at 16)
						ks := &core.Case{Oracle: "servicearea", Target: "nasConvert.PartialServiceAreaListToNas", I: []int64{seed, int64((nt + 1) / 2), int64(rep % 2)}}
						c.Do(ks)
					}
					c.Cover("tac_count", fmt.Sprint(nt))
				}
			}})
		}
		us = append(us, coldUnits(tier, "nasConvert", "lists", "bad-input")...)
		us = append(us, coldEntryUnits(tier, "nasConvert", "lists")...)
		return us
	}
	core.Register(p)
}
