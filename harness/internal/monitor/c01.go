package monitor

import (
	"bytes"
	"fmt"
	"runtime"
	"syscall"

	nas "github.com/free5gc/nas"
	"github.com/free5gc/nas/nasMessage"

	"verifharness/internal/core"
	"verifharness/internal/refcodec"
)

// C01 — decoding arbitrary bytes never panics, hangs or over-allocates.
// Resource monitor: every call is journalled before it runs (a fatal error or a
// hang is attributed by the driver), wrapped in recover(), and — on the solo
// metering shard — bracketed by runtime.ReadMemStats.

const (
	epPlain = 0
	epGmm   = 1
	epGsm   = 2
)

var epNames = []string{"PlainNasDecode", "GmmMessageDecode", "GsmMessageDecode"}

func decode3(b []byte, ep int) (*nas.Message, error) {
	m := nas.NewMessage()
	if h := core.HashBytes(0x12, b); h&3 == 0 && len(b) > 1 {
		// a quarter of the receivers carry a security header recorded by their caller,
		// half of those the one octet 2 of this input names
		m.SecurityHeader = nas.SecurityHeader{ProtocolDiscriminator: 0x7e, SecurityHeaderType: uint8(h>>8) % 5, MessageAuthenticationCode: uint32(h >> 16), SequenceNumber: uint8(h >> 48)}
		if h&4 == 0 {
			m.SecurityHeaderType = b[1] & 0x0f
		}
	}
	in := b
	var err error
	switch ep {
	case epPlain:
		err = m.PlainNasDecode(&in)
	case epGmm:
		err = m.GmmMessageDecode(&in)
	case epGsm:
		err = m.GsmMessageDecode(&in)
	}
	return m, err
}

// classify records which decoder the input reached, for the coverage floors.
func c01Cover(c *core.Ctx, b []byte, ep int, err error) {
	sp, _ := codecSpec()
	if sp == nil {
		return
	}
	fam := ""
	off := 0
	switch {
	case ep == epGmm || (ep == epPlain && len(b) > 0 && b[0] == 0x7e):
		fam, off = "GMM", 2
	case ep == epGsm || (ep == epPlain && len(b) > 0 && b[0] == 0x2e):
		fam, off = "GSM", 3
	}
	if fam == "" || len(b) <= off {
		c.Cover("reach", epNames[ep]+":no-dispatch")
		return
	}
	for _, d := range dispatchable(sp) {
		if d.Family == fam && int(b[off]) == *d.MsgType {
			c.Cover("reach", epNames[ep]+":"+d.Name)
			if err == nil {
				c.Cover("accepted", d.Name)
			}
			return
		}
	}
	c.Cover("reach", epNames[ep]+":unknown-type-"+fam)
}

// decodeUsed decodes into a receiver that has been used before, the way a
// caller that keeps one Message per UE context does: its SecurityHeader still
// describes the outer header of a protected PDU (type 1..4, chosen to match the
// input's own security header type nibble when that is one of them) and both
// family bodies are populated from an earlier decode.
func decodeUsed(b []byte, ep int) error {
	m := nas.NewMessage()
	t := uint8(1 + len(b)%4)
	if len(b) > 1 && b[1]&0x0f >= 1 && b[1]&0x0f <= 4 {
		t = b[1] & 0x0f
	}
	m.SecurityHeader = nas.SecurityHeader{ProtocolDiscriminator: 0x7e, SecurityHeaderType: t, MessageAuthenticationCode: 0x01020304, SequenceNumber: 9}
	m.GmmMessage = nas.NewGmmMessage()
	m.GmmMessage.RegistrationComplete = nasMessage.NewRegistrationComplete(0)
	m.GsmMessage = nas.NewGsmMessage()
	m.GsmMessage.PDUSessionReleaseComplete = nasMessage.NewPDUSessionReleaseComplete(0)
	in := b
	switch ep {
	case epPlain:
		return m.PlainNasDecode(&in)
	case epGmm:
		return m.GmmMessageDecode(&in)
	}
	return m.GsmMessageDecode(&in)
}

// oracle "total": B=[input] I=[entry]
func c01Total(c *core.Ctx, k *core.Case) {
	b, ep := k.B[0], int(k.I[0])
	if len(k.I) > 1 && k.I[1]&2 == 2 && c.Scratch["verbose"] == nil { // library logging at Trace level
		c.Scratch["verbose"] = true
		defer delete(c.Scratch, "verbose")
		withVerboseLogging(func() { c01Total(c, k) })
		return
	}
	_, err := decode3(b, ep)
	c.Eval(1)
	if uerr := decodeUsed(b, ep); (uerr == nil) != (err == nil) {
		c.Fail(k, "used-receiver-changes-verdict:"+epNames[ep], fmt.Sprintf("%s on %s: fresh receiver err=%v, a receiver used before err=%v", epNames[ep], hx(b), err, uerr))
	}
	if !c.Replay {
		c01Cover(c, b, ep, err)
	}
}

const (
	allocBase     = 8 << 10
	allocPerOctet = 64
	allocIE       = 3 * 65536
	mallocBase    = 256
	mallocPerOct  = 4
)

func cpuNanos() int64 {
	var ru syscall.Rusage
	if syscall.Getrusage(syscall.RUSAGE_SELF, &ru) != nil {
		return 0
	}
	return ru.Utime.Nano() + ru.Stime.Nano()
}

const (
	cpuBaseNs     = 50e6 // 50 ms
	cpuPerOctetNs = 5e3  // 5 µs per input octet (normal cost is about 0.08 µs)
)

// oracle "meter": B=[input] I=[entry] — allocation bound. Meaningful only when no
// other goroutine allocates (solo shard, GOMAXPROCS=1) and in replay.
func c01Meter(c *core.Ctx, k *core.Case) {
	b, ep := k.B[0], int(k.I[0])
	in := cloneB(b)
	var m0, m1 runtime.MemStats
	runtime.ReadMemStats(&m0)
	_, err := decode3(in, ep)
	runtime.ReadMemStats(&m1)
	_ = err
	c.Eval(1)
	dA := int64(m1.TotalAlloc - m0.TotalAlloc)
	dM := int64(m1.Mallocs - m0.Mallocs)
	limA := int64(allocBase + allocPerOctet*len(b) + allocIE)
	limM := int64(mallocBase + mallocPerOct*len(b))
	c.Count("metered_calls", 1)
	if len(b) > 0 {
		if r := dA * 100 / int64(len(b)+1); r > c.Report().Counters["max_alloc_centibytes_per_octet"] && len(b) >= 64 {
			c.Report().Counters["max_alloc_centibytes_per_octet"] = r
		}
	}
	if dA > c.Report().Counters["max_alloc_bytes_one_call"] {
		c.Report().Counters["max_alloc_bytes_one_call"] = dA
	}
	if dA > limA {
		c.Fail(k, "over-allocation:bytes:"+epNames[ep], fmt.Sprintf("%s on %d octets allocated %d bytes (bound %d = 8KiB + 64·len + 3·64KiB); input %s", epNames[ep], len(b), dA, limA, hx(b)))
	}
	if dM > limM {
		c.Fail(k, "over-allocation:mallocs:"+epNames[ep], fmt.Sprintf("%s on %d octets made %d allocations (bound %d = 256 + 4·len); input %s", epNames[ep], len(b), dM, limM, hx(b)))
	}
	// work bound, in CPU time of this process (not wall-clock: descheduling does not
	// count; the shard is alone in its process with GOMAXPROCS=1). Only long inputs
	// are judged, the bound is ~400 times the normal cost, and an excess must
	// repeat three times (minimum taken) before it is reported.
	if len(b) >= 4096 {
		limC := int64(cpuBaseNs + cpuPerOctetNs*float64(len(b)))
		best := int64(1) << 62
		for try := 0; try < 3; try++ {
			in2 := cloneB(b)
			t0 := cpuNanos()
			_, _ = decode3(in2, ep)
			d := cpuNanos() - t0
			if d < best {
				best = d
			}
			if best <= limC {
				break
			}
		}
		c.Count("cpu_metered_calls", 1)
		if best > c.Report().Counters["max_cpu_ns_one_call"] {
			c.Report().Counters["max_cpu_ns_one_call"] = best
		}
		if best > limC {
			c.Fail(k, "over-work:cpu:"+epNames[ep], fmt.Sprintf("%s on %d octets burned %.0f ms CPU in the best of three runs (bound %.0f ms = 50 ms + 5 µs·len; normal cost is a few ms)", epNames[ep], len(b), float64(best)/1e6, float64(limC)/1e6))
		}
	}
}

// c01SlotLens lists the declared lengths enumerated for a slot.
func c01SlotLens(sl *refcodec.Slot, thorough bool) []int {
	if sl.LenSize() == 0 {
		return []int{sl.Max}
	}
	set := map[int]bool{}
	for _, n := range refcodec.BoundaryLens(sl) {
		set[n] = true
	}
	top := sl.Max + 1
	if top > 300 {
		top = 300
	}
	if top > sl.TypeMax() {
		top = sl.TypeMax()
	}
	step := 1
	if !thorough {
		step = 5
	}
	for n := 0; n <= top; n += step {
		set[n] = true
	}
	for _, n := range []int{4095, 65534, 65535} {
		if n <= sl.TypeMax() && thorough {
			set[n] = true
		}
	}
	var out []int
	for n := range set {
		out = append(out, n)
	}
	sortInts(out)
	return out
}

func sortInts(a []int) {
	for i := 1; i < len(a); i++ {
		for j := i; j > 0 && a[j] < a[j-1]; j-- {
			a[j], a[j-1] = a[j-1], a[j]
		}
	}
}

func init() {
	p := &core.Property{
		ID:         "C01",
		Interleave: []string{"total"},
		Rule:       "inputs: for every message × slot × declared length (thorough: 0..min(max+1,300) and boundaries, 4095, 65534, 65535; quick: every 5th + boundaries) the string with the element alone and among all other optionals, and every truncation of it; byte-level mutations (truncate, flip, overwrite, insert, delete, splice, unknown identifiers, type-1 look-alikes, extreme lengths, random tails) of random plans and of the repository samples; random strings 0..64 octets behind every valid header; long inputs of 1k/16k/70000 octets in five shapes. Each through PlainNasDecode, GmmMessageDecode and GsmMessageDecode. A solo shard meters ΔTotalAlloc/ΔMallocs per call. Non-trivial = input passes header dispatch (reaches a message decoder); distinct by entry point and bytes.",
		Assumptions: []string{
			"'work' is observed through termination (journal + two-stage hang rule) and allocation counters; a purely computational slowdown that allocates nothing and finishes within the watchdog is not observable",
			"allocation bound: ΔTotalAlloc <= 8 KiB + 64·len + 3·65536, ΔMallocs <= 256 + 4·len, measured with GOMAXPROCS=1 and no other goroutine",
			"work bound for inputs of 4096 octets and more: process CPU time (getrusage) of one call <= 50 ms + 5 µs·len, best of three runs — about 60× the normal cost, so only super-linear behaviour exceeds it",
		},
		Oracles:      map[string]func(*core.Ctx, *core.Case){"cold-entries": coldEntries, "cold-concurrent": coldConcurrent, "total": c01Total, "meter": c01Meter},
		StallSeconds: 30,
	}
	p.Floors = func(tier string, cov map[string]map[string]int64, cnt map[string]int64) []string {
		sp, err := codecSpec()
		if err != nil {
			return []string{"messages.json unreadable"}
		}
		var f []string
		for _, d := range dispatchable(sp) {
			eps := []int{epPlain, epGmm}
			if d.Family == "GSM" {
				eps = []int{epPlain, epGsm}
			}
			for _, ep := range eps {
				if cov["reach"][epNames[ep]+":"+d.Name] == 0 {
					f = append(f, fmt.Sprintf("%s never reached through %s", d.Name, epNames[ep]))
				}
			}
			if cov["accepted"][d.Name] == 0 {
				f = append(f, d.Name+" never decoded successfully")
			}
		}
		for _, k := range []string{"PlainNasDecode:unknown-type-GMM", "PlainNasDecode:unknown-type-GSM", "GmmMessageDecode:unknown-type-GMM", "GsmMessageDecode:unknown-type-GSM"} {
			if cov["reach"][k] == 0 {
				f = append(f, "path never reached: "+k)
			}
		}
		if cnt["metered_calls"] == 0 || cnt["cpu_metered_calls"] == 0 {
			f = append(f, "allocation / CPU meter did not run")
		}
		if cnt["inputs_ge_65536"] == 0 {
			f = append(f, "no input of 65536 octets or more")
		}
		if cnt["slot_len_cases"] == 0 {
			f = append(f, "slot × length enumeration did not run")
		}
		if len(f) > 10 {
			f = append(f[:10], fmt.Sprintf("… and %d more", len(f)-10))
		}
		return f
	}
	p.Units = func(tier string) []core.Unit {
		sp, err := codecSpec()
		if err != nil {
			return []core.Unit{{Name: "spec", Weight: 1, Run: func(c *core.Ctx) { c.Inconclusive("messages.json: " + err.Error()) }}}
		}
		thorough := tier == "thorough"
		var us []core.Unit
		msgs := dispatchable(sp)
		entryFor := func(def *refcodec.Msg, i int) int64 {
			if i%2 == 0 {
				return epPlain
			}
			if def.Family == "GSM" {
				return epGsm
			}
			return epGmm
		}
		for _, def := range msgs {
			def := def
			for si := range def.Slots {
				si := si
				sl := &def.Slots[si]
				if si < def.HeaderLen() && sl.LenSize() == 0 {
					continue
				}
				us = append(us, core.Unit{Name: fmt.Sprintf("slot-%s.%s", def.Name, sl.Name), Weight: 10 + len(c01SlotLens(sl, thorough)), Run: func(c *core.Ctx) {
					i := 0
					for _, n := range c01SlotLens(sl, thorough) {
						for ctx := 0; ctx < 2; ctx++ {
							if n > 5000 && ctx == 1 {
								continue
							}
							var pl *refcodec.Plan
							val := refcodec.Content(c.R, def, c.R.Intn(6), n)
							if sl.Mandatory {
								pl = refcodec.RandomPlan(def, c.R, ctx, 3)
								pl.Mand[si].Decl, pl.Mand[si].Val = n, val
							} else {
								pl = refcodec.NewPlan(def, c.R, 3)
								probe := refcodec.OptElem(def, si, n, val, c.R)
								if ctx == 0 {
									pl.Opt = append(pl.Opt, probe)
								} else {
									for _, sj := range def.OptSlots() {
										if sj == si {
											pl.Opt = append(pl.Opt, probe)
										} else {
											pl.Opt = append(pl.Opt, refcodec.LegalOpt(def, sj, c.R, 3))
										}
									}
								}
							}
							b := pl.Bytes()
							c.Count("slot_len_cases", 1)
							c.Cover("slot_len_class", lenClass(sl, n))
							pts := truncationPoints(len(b), thorough || len(b) < 200)
							pts = append(pts, len(b))
							for _, cut := range pts {
								i++
								k := &core.Case{Oracle: "total", Target: "nas.Message." + epNames[entryFor(def, i)], B: [][]byte{b[:cut]}, I: []int64{entryFor(def, i)}}
								c.Do(k)
								if cut >= def.HeaderLen() {
									c.NonTrivial(k.Hash())
								}
							}
							if i < 40 {
								c.Sample((&core.Case{Oracle: "total", Target: "nas.Message.PlainNasDecode", B: [][]byte{b}, I: []int64{0}}).Brief())
							}
						}
					}
				}})
			}
			us = append(us, core.Unit{Name: "mutate-" + def.Name, Weight: 40, Run: func(c *core.Ctx) {
				n := c.Pick(400, 20000)
				other := refcodec.RandomPlan(msgs[c.R.Intn(len(msgs))], c.R, 1, 3).Bytes()
				for i := 0; i < n; i++ {
					b := refcodec.RandomPlan(def, c.R, i, c.R.Intn(6)).Bytes()
					for d := c.R.Range(0, 3); d > 0; d-- {
						b = mutate(c.R, def, b, c.R.Intn(10), other)
					}
					ep := entryFor(def, i)
					if i%11 == 0 {
						ep = int64(c.R.Intn(3)) // also the wrong family's entry point
					}
					k := &core.Case{Oracle: "total", Target: "nas.Message." + epNames[ep], B: [][]byte{b}, I: []int64{ep}}
					c.Do(k)
					c.NonTrivial(k.Hash())
				}
				// uniformly random strings of 0..64 octets behind the valid header
				hdr := refcodec.MinimalBody(def, c.R)[:def.HeaderLen()]
				for i := 0; i < c.Pick(200, 5000); i++ {
					b := append(cloneB(hdr), c.R.Bytes(c.R.Intn(65))...)
					ep := entryFor(def, i)
					k := &core.Case{Oracle: "total", Target: "nas.Message." + epNames[ep], B: [][]byte{b}, I: []int64{ep}}
					c.Do(k)
					c.NonTrivial(k.Hash())
				}
			}})
		}
		us = append(us, domainUnits(sp, msgs, tier, 30, func(c *core.Ctx, d *domainPDU, i int) {
			ep := entryFor(d.Def, i)
			k := &core.Case{Oracle: "total", Target: "nas.Message." + epNames[ep], B: [][]byte{d.B}, I: []int64{ep}}
			c.Do(k)
			if i%16 == 0 {
				c.NonTrivial(k.Hash())
			}
		})...)
		us = append(us, bigUnits(msgs, tier, 60, func(c *core.Ctx, d *domainPDU, i int) {
			ep := entryFor(d.Def, i)
			k := &core.Case{Oracle: "total", Target: "nas.Message." + epNames[ep], B: [][]byte{d.B}, I: []int64{ep}}
			c.Do(k)
			if i%4 == 0 {
				c.NonTrivial(k.Hash())
			}
		})...)
		for _, def := range msgs {
			def := def
			if len(def.OptSlots()) == 0 {
				continue
			}
			us = append(us, core.Unit{Name: "many-" + def.Name, Weight: 5, Run: func(c *core.Ctx) {
				for _, n := range manyCounts(c.Thorough()) {
					b := manyOpts(def, c.R, n).Bytes()
					for cut := len(b); cut > len(b)-6 && cut > 0; cut-- {
						ep := entryFor(def, cut)
						k := &core.Case{Oracle: "total", Target: "nas.Message." + epNames[ep], B: [][]byte{b[:cut]}, I: []int64{ep}}
						c.Do(k)
						c.NonTrivial(k.Hash())
					}
				}
			}})
		}
		us = append(us, core.Unit{Name: "verbose-logging", Weight: 40, Run: func(c *core.Ctx) {
			// the seven long shapes at 70 000 octets, metered for every message that dispatches
			// (a scan that does work proportional to the rest of the input per element)
			for mi, def := range msgs {
				for shape := 0; shape < 7; shape++ {
					if !c.Thorough() && (mi+shape)%2 == 1 && shape != 0 {
						continue
					}
					ep := entryFor(def, mi)
					c.Do(&core.Case{Oracle: "meter", Target: "nas.Message." + epNames[ep], B: [][]byte{longInput(c.R, def, shape, 70000)}, I: []int64{ep}})
					c.Count("meter_long_inputs", 1)
				}
			}
			for mi, def := range msgs {
				other := refcodec.RandomPlan(msgs[(mi+1)%len(msgs)], c.R, 1, 3).Bytes()
				for i := 0; i < c.Pick(150, 3000); i++ {
					b := refcodec.RandomPlan(def, c.R, i, c.R.Intn(6)).Bytes()
					for d := c.R.Range(0, 2); d > 0; d-- {
						b = mutate(c.R, def, b, c.R.Intn(10), other)
					}
					if i%10 == 0 {
						b = b[:c.R.Intn(len(b)+1)]
					}
					ep := entryFor(def, i)
					c.Do(&core.Case{Oracle: "total", Target: "nas.Message." + epNames[ep], B: [][]byte{b}, I: []int64{ep, 2}})
				}
			}
		}})
		us = append(us, core.Unit{Name: "headers-and-samples", Weight: 40, Run: func(c *core.Ctx) {
			// unknown types / discriminators, short inputs
			for b0 := 0; b0 < 256; b0++ {
				for _, mt := range []int{0, 1, 0x40, 0x41, 0x5d, 0x63, 0x69, 0xc0, 0xc1, 0xd6, 0xd7, 0xff} {
					for ep := 0; ep < 3; ep++ {
						for _, b := range [][]byte{{byte(b0)}, {byte(b0), 0, byte(mt)}, {byte(b0), 0, 0, byte(mt)}, {byte(b0), 0, byte(mt), byte(mt), 1, 2, 3}} {
							c.Do(&core.Case{Oracle: "total", Target: "nas.Message." + epNames[ep], B: [][]byte{b}, I: []int64{int64(ep)}})
						}
					}
				}
			}
			// every security header type nibble x every short length, three fillers
			for sht := 0; sht < 16; sht++ {
				for n := 0; n <= 14; n++ {
					for fill := 0; fill < 3; fill++ {
						b := make([]byte, n)
						switch fill {
						case 1:
							c.R.Fill(b)
						case 2:
							for i := range b {
								b[i] = 0x7e
							}
						}
						if n > 0 {
							b[0] = 0x7e
						}
						if n > 1 {
							b[1] = byte(sht) | byte(fill)<<6
						}
						for ep := 0; ep < 3; ep++ {
							c.Do(&core.Case{Oracle: "total", Target: "nas.Message." + epNames[ep], B: [][]byte{b}, I: []int64{int64(ep)}})
						}
					}
				}
			}
			for i, s := range repositorySamples() {
				def := msgs[i%len(msgs)]
				for ep := 0; ep < 3; ep++ {
					c.Do(&core.Case{Oracle: "total", Target: "nas.Message." + epNames[ep], B: [][]byte{s}, I: []int64{int64(ep)}})
				}
				for j := 0; j < c.Pick(20, 400); j++ {
					b := mutate(c.R, def, s, c.R.Intn(10), s)
					k := &core.Case{Oracle: "total", Target: "nas.Message.PlainNasDecode", B: [][]byte{b}, I: []int64{0}}
					c.Do(k)
					c.NonTrivial(k.Hash())
				}
				c.Count("repository_samples", 1)
			}
		}})
		for shape := 0; shape < 7; shape++ {
			shape := shape
			us = append(us, core.Unit{Name: fmt.Sprintf("long-%d", shape), Weight: 60, Run: func(c *core.Ctx) {
				for i, def := range msgs {
					if !thorough && i%4 != shape%4 && shape < 5 {
						continue
					}
					for _, n := range []int{1000, 1713, 16000, 65530, 70000} {
						b := longInput(c.R, def, shape, n)
						if len(b) >= 65536 {
							c.Count("inputs_ge_65536", 1)
						}
						ep := entryFor(def, i)
						k := &core.Case{Oracle: "total", Target: "nas.Message." + epNames[ep], B: [][]byte{b}, I: []int64{ep}}
						c.Do(k)
						c.NonTrivial(k.Hash())
					}
				}
			}})
		}
		// the metering shard runs alone in its process
		us = append(us, core.Unit{Name: "meter", Weight: 1, Solo: true, Run: func(c *core.Ctx) {
			n := c.Pick(30000, 200000)
			per := n / len(msgs)
			// resource-hostile shapes, every one of them: each legal element header repeated
			// without contents, and every message nested in its own container to the bottom
			for i, def := range msgs {
				ep := entryFor(def, i)
				for _, h := range truncHeaders(def) {
					for _, sz := range []int{1713, 6000} {
						c.Do(&core.Case{Oracle: "meter", Target: "nas.Message." + epNames[ep], B: [][]byte{truncHeaderInput(def, c.R, h, sz)}, I: []int64{ep}})
						c.Count("meter_truncated_header_inputs", 1)
					}
				}
				for _, csi := range containerSlots(def) {
					for _, sz := range []int{4000, 16000, 65530} {
						if b := nestedDeep(def, c.R, sz, csi); b != nil {
							c.Do(&core.Case{Oracle: "meter", Target: "nas.Message." + epNames[ep], B: [][]byte{b}, I: []int64{ep}})
							c.Count("meter_nested_inputs", 1)
						}
					}
				}
			}
			for mi, def := range msgs {
				other := refcodec.RandomPlan(msgs[(mi+1)%len(msgs)], c.R, 1, 3).Bytes()
				for i := 0; i < per; i++ {
					var b []byte
					switch i % 6 {
					case 0, 1:
						b = refcodec.RandomPlan(def, c.R, i, c.R.Intn(6)).Bytes()
					case 2, 3:
						b = refcodec.RandomPlan(def, c.R, i, c.R.Intn(6)).Bytes()
						for d := c.R.Range(1, 3); d > 0; d-- {
							b = mutate(c.R, def, b, c.R.Intn(10), other)
						}
					case 4:
						// one length-bearing slot declared huge, content absent or short
						pl := refcodec.NewPlan(def, c.R, 3)
						opts := def.OptSlots()
						if len(opts) > 0 {
							si := opts[c.R.Intn(len(opts))]
							sl := &def.Slots[si]
							decl := sl.TypeMax()
							if c.R.Bool() {
								decl = sl.Max
							}
							pl.Opt = append(pl.Opt, refcodec.OptElem(def, si, decl, c.R.Bytes(c.R.Intn(20)), c.R))
						}
						b = pl.Bytes()
					case 5:
						if i%60 == 5 {
							// every long shape with every size over the rounds (the two indices
							// run with coprime periods)
							b = longInput(c.R, def, i/60%7, []int{5000, 16000, 70000, 1713, 65530}[(i/60+mi)%5])
						} else {
							b = append(refcodec.MinimalBody(def, c.R)[:def.HeaderLen()], c.R.Bytes(c.R.Intn(65))...)
						}
					}
					ep := entryFor(def, i)
					k := &core.Case{Oracle: "meter", Target: "nas.Message." + epNames[ep], B: [][]byte{b}, I: []int64{ep}}
					c.Do(k)
				}
			}
		}})
		_ = bytes.Equal
		us = append(us, coldUnits(tier, "nas.Message", "decode")...)
		us = append(us, coldEntryUnits(tier, "nas.Message", "codec")...)
		return us
	}
	core.Register(p)
}

func lenClass(sl *refcodec.Slot, n int) string {
	switch {
	case sl.LenSize() == 0:
		return "fixed"
	case sl.LenOK(n):
		return "in-range"
	case n < sl.Min:
		return "below-min"
	case n > sl.Max:
		return "above-max"
	}
	return "not-allowed"
}
