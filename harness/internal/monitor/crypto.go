package monitor

import (
	"bytes"
	"encoding/hex"
	"fmt"
	"io"
	"os"
	"sync"

	"github.com/free5gc/nas/logger"
	"github.com/free5gc/nas/security"
	"github.com/free5gc/nas/security/snow3g"
	"github.com/free5gc/nas/security/zuc"

	"verifharness/internal/core"
	"verifharness/internal/prng"
	"verifharness/internal/refcrypto"
)

// C06 / C07 / C08 — reference-model and law monitors for the security package.

var (
	refOnce sync.Once
	refErr  error
	refN    int
)

func verifDir() string {
	if d := os.Getenv("VERIF_DIR"); d != "" {
		return d
	}
	return "/verif"
}

// refReady validates the reference models against the published test sets once
// per process. A reference that fails its KATs makes the run inconclusive.
func refReady(c *core.Ctx) bool {
	refOnce.Do(func() {
		refN, refErr = refcrypto.SelfTest(verifDir())
		if refErr != nil {
			c.Inconclusive("reference crypto failed its self-test: " + refErr.Error())
		} else {
			c.Count("reference_kat_vectors_passed", int64(refN))
		}
	})
	return refErr == nil
}

// cloneB copies a byte slice; the copy of an empty slice is empty, not nil.
func cloneB(b []byte) []byte {
	o := make([]byte, len(b))
	copy(o, b)
	return o
}

func key16(b []byte) (k [16]byte) { copy(k[:], b); return }

func firstBitsEqual(a, b []byte, nbits int) bool {
	nb := (nbits + 7) / 8
	if len(a) < nb || len(b) < nb {
		return false
	}
	for i := 0; i < nb; i++ {
		x, y := a[i], b[i]
		if i == nb-1 && nbits%8 != 0 {
			m := byte(0xff << (8 - uint(nbits%8)))
			x, y = x&m, y&m
		}
		if x != y {
			return false
		}
	}
	return true
}

func hx(b []byte) string {
	if len(b) > 64 {
		return hex.EncodeToString(b[:64]) + fmt.Sprintf("…(%d)", len(b))
	}
	return hex.EncodeToString(b)
}

const (
	apiNAS  = 0 // security.NASEncrypt / NASMacCalculate (octet lengths)
	apiAlg  = 1 // security.NEAx / NIAx (bit lengths)
	apiCore = 2 // snow3g.GetKeyStream / zuc.Zuc
)

// ---- C06 -------------------------------------------------------------------

// oracle "cipher": I=[alg, count, bearer, direction, nbits, api]  B=[key, payload]
func c06Cipher(c *core.Ctx, k *core.Case) {
	if !refReady(c) {
		return
	}
	alg, count, bearer, dir, nbits, api := int(k.I[0]), uint32(k.I[1]), uint32(k.I[2]), uint32(k.I[3]), int(k.I[4]), int(k.I[5])
	key := key16(k.B[0])
	in := k.B[1]
	var want []byte
	switch alg {
	case 1:
		want = refcrypto.EEA1(key, count, bearer, dir, in, nbits)
	case 2:
		want = refcrypto.EEA2(key, count, bearer, dir, in[:(nbits+7)/8])
	case 3:
		want = refcrypto.EEA3(key, count, bearer, dir, in, nbits)
	}
	var got []byte
	var err error
	switch api {
	case apiNAS:
		buf, intact := guarded(in)
		err = security.NASEncrypt(uint8(alg), key, count, uint8(bearer), uint8(dir), buf)
		got = buf
		if !intact() {
			c.Fail(k, fmt.Sprintf("writes-outside-payload:alg%d", alg), "NASEncrypt wrote into the caller's buffer outside the payload slice")
		}
	case apiAlg:
		buf := cloneB(in)
		switch alg {
		case 1:
			got, err = security.NEA1(key, count, bearer, dir, buf, uint32(nbits))
		case 2:
			got, err = security.NEA2(key, count, uint8(bearer), uint8(dir), buf)
		case 3:
			got, err = security.NEA3(key, count, uint8(bearer), uint8(dir), buf, uint32(nbits))
		}
		if !bytes.Equal(buf, in) {
			c.Fail(k, "input-modified", fmt.Sprintf("NEA%d modified its input buffer", alg))
		}
		c.Hold(k, fmt.Sprintf("security.NEA%d", alg), got)
		if nbits > 0 && nbits <= 4096 {
			if _, owned := ownedTwice(func() []byte {
				var o []byte
				switch alg {
				case 1:
					o, _ = security.NEA1(key, count, bearer, dir, cloneB(in), uint32(nbits))
				case 2:
					o, _ = security.NEA2(key, count, uint8(bearer), uint8(dir), cloneB(in))
				case 3:
					o, _ = security.NEA3(key, count, uint8(bearer), uint8(dir), cloneB(in), uint32(nbits))
				}
				return o
			}); owned != "" {
				c.Fail(k, fmt.Sprintf("result-not-owned:NEA%d", alg), owned)
			}
		}
	}
	c.Eval(1)
	if err != nil {
		c.Fail(k, "unexpected-error", fmt.Sprintf("alg %d api %d: %v", alg, api, err))
		return
	}
	if !firstBitsEqual(got, want, nbits) {
		c.Fail(k, fmt.Sprintf("ciphertext-mismatch:alg%d:api%d", alg, api),
			fmt.Sprintf("alg=%d count=%#x bearer=%d dir=%d nbits=%d key=%x\n in=%s\n got=%s\nwant=%s", alg, count, bearer, dir, nbits, key, hx(in), hx(got), hx(want)))
	}
}

// oracle "keystream": I=[alg(1|3), nwords]  B=[key, iv(16 octets)]
func c06Keystream(c *core.Ctx, k *core.Case) {
	if !refReady(c) {
		return
	}
	alg, n := int(k.I[0]), int(k.I[1])
	var got, want []uint32
	if alg == 1 {
		var kw, iv [4]uint32
		for i := 0; i < 4; i++ {
			kw[i] = uint32(k.B[0][4*i])<<24 | uint32(k.B[0][4*i+1])<<16 | uint32(k.B[0][4*i+2])<<8 | uint32(k.B[0][4*i+3])
			iv[i] = uint32(k.B[1][4*i])<<24 | uint32(k.B[1][4*i+1])<<16 | uint32(k.B[1][4*i+2])<<8 | uint32(k.B[1][4*i+3])
		}
		got = snow3g.GetKeyStream(kw, iv, n)
		want = refcrypto.Snow3G(kw, iv, n)
	} else {
		kb := append([]byte(nil), k.B[0]...)
		ib := append([]byte(nil), k.B[1]...)
		got = zuc.Zuc(kb, ib, uint32(n))
		want = refcrypto.ZUC(k.B[0], k.B[1], n)
		if !bytes.Equal(kb, k.B[0]) || !bytes.Equal(ib, k.B[1]) {
			c.Fail(k, "input-modified", "zuc.Zuc modified key or iv")
		}
	}
	c.Eval(1)
	if len(got) != n {
		c.Fail(k, "keystream-length", fmt.Sprintf("asked %d words, got %d", n, len(got)))
		return
	}
	for i := range got {
		if got[i] != want[i] {
			c.Fail(k, fmt.Sprintf("keystream-mismatch:alg%d", alg), fmt.Sprintf("word %d of %d: got %08x want %08x (key %x iv %x)", i, n, got[i], want[i], k.B[0], k.B[1]))
			return
		}
	}
}

// c06SeqLens derives the length sequence of a same-parameter series: a long
// unaligned length, shorter ones, longer again, the first again, zero, aligned.
func c06SeqLens(r *prng.Rand, octets bool) []int {
	a := r.Range(200, 1600)
	ls := []int{a, r.Range(1, a-1), r.Range(a/2, a+200), a, r.Range(1, 64), 0, (a/32 + 1) * 32, r.Range(a, a+400), r.Range(1, a)}
	if octets {
		for i := range ls {
			ls[i] = (ls[i] + 7) / 8 * 8
		}
	}
	return ls
}

// oracle "cipher-seq": I=[alg, count, bearer, direction, api, seed] B=[key] — a series of
// calls with IDENTICAL parameters and varying lengths; every call is compared with
// the reference. Hidden state kept between calls (keystream caches, reused
// buffers) shows as a mismatch on a later call of the series.
func c06CipherSeq(c *core.Ctx, k *core.Case) {
	if !refReady(c) {
		return
	}
	alg, api := int(k.I[0]), int(k.I[4])
	r := prng.New(uint64(k.I[5]))
	lens := c06SeqLens(r, api == apiNAS || alg == 2)
	for step, nbits := range lens {
		in := r.Bytes((nbits + 7) / 8)
		kk := &core.Case{Oracle: "cipher", Target: k.Target, I: []int64{k.I[0], k.I[1], k.I[2], k.I[3], int64(nbits), k.I[4]}, B: [][]byte{k.B[0], in}}
		before := c.Report().Counters["violating_cases"]
		c06Cipher(c, kk)
		if c.Report().Counters["violating_cases"] > before {
			c.Fail(k, fmt.Sprintf("series-mismatch:alg%d:api%d", alg, api), fmt.Sprintf("call %d of a same-parameter series (bit lengths %v) differs from the standard function although the call is correct in isolation or earlier in the series", step, lens))
			return
		}
	}
	// raw keystream generators: same key/IV, varying word counts, result slices scribbled on in between
	if alg != 2 && api == apiAlg {
		key, iv := k.B[0], r.Bytes(16)
		for step, n := range []int{9, 3, 9, 17, 1, 17} {
			kk := &core.Case{Oracle: "keystream", Target: "keystream", I: []int64{int64(alg), int64(n)}, B: [][]byte{key, iv}}
			before := c.Report().Counters["violating_cases"]
			c06Keystream(c, kk)
			// scribble: a returned slice that aliases internal state would poison the next call
			if alg == 1 {
				var kw, ivw [4]uint32
				for i := 0; i < 4; i++ {
					kw[i] = uint32(key[4*i])<<24 | uint32(key[4*i+1])<<16 | uint32(key[4*i+2])<<8 | uint32(key[4*i+3])
					ivw[i] = uint32(iv[4*i])<<24 | uint32(iv[4*i+1])<<16 | uint32(iv[4*i+2])<<8 | uint32(iv[4*i+3])
				}
				ks := snow3g.GetKeyStream(kw, ivw, n)
				for i := range ks {
					ks[i] = 0xdeadbeef
				}
			} else {
				ks := zuc.Zuc(cloneB(key), cloneB(iv), uint32(n))
				for i := range ks {
					ks[i] = 0xdeadbeef
				}
			}
			if c.Report().Counters["violating_cases"] > before {
				c.Fail(k, fmt.Sprintf("series-mismatch:keystream:alg%d", alg), fmt.Sprintf("keystream call %d of a same-key/IV series differs from the standard generator", step))
				return
			}
		}
	}
}

// cryptoParams draws key/count for case index i: structured values first.
func cryptoParams(r *prng.Rand, i int) (key []byte, count uint32) {
	key = make([]byte, 16)
	switch i % 11 {
	case 0: // all zero
	case 1:
		for j := range key {
			key[j] = 0xff
		}
	case 2:
		key[r.Intn(16)] = 1 << uint(r.Intn(8))
	default:
		r.Fill(key)
	}
	switch i % 7 {
	case 0:
		count = 0
	case 1:
		count = 0x00ffffff
	case 2:
		count = 0xffffffff
	case 3:
		count = 1 << uint(r.Intn(32))
	default:
		count = r.Uint32()
	}
	return
}

// cryptoLengths is the list of bit lengths judged by C06/C07.
func cryptoLengths(tier string) []int {
	var ls []int
	top := 1100
	if tier == "thorough" {
		top = 2200
	}
	for n := 0; n <= top; n++ {
		ls = append(ls, n)
	}
	bigs := []int{2048, 4096, 8192, 16384, 32768, 65536, 131072, 262144}
	if tier == "thorough" {
		bigs = append(bigs, 393216, 524288, 600000, 1048576, 2097152)
	}
	for _, b := range bigs {
		for _, d := range []int{-64, -63, -32, -31, -8, -7, -1, 0, 1, 7, 8, 31, 32, 63, 64} {
			ls = append(ls, b+d)
		}
	}
	return ls
}

func cryptoPayload(r *prng.Rand, i, nbits int, extra bool) []byte {
	nb := (nbits + 7) / 8
	if extra {
		nb += r.Range(1, 9)
	}
	return r.Pattern([]int{3, 3, 0, 1, 2, 3, 4}[i%7], nb)
}

func cryptoCoverLen(c *core.Ctx, alg, nbits, mod int) {
	c.Cover("residue", fmt.Sprintf("alg%d/r%02d/q%d", alg, nbits%mod, min3(nbits/mod, 40)))
	if nbits%8 == 0 && nbits/8 <= 8 {
		c.Cover("short_octets", fmt.Sprintf("alg%d/%d", alg, nbits/8))
	}
}

func min3(a, b int) int {
	if a < b {
		return a
	}
	return b
}

func init() {
	p := &core.Property{
		ID:         "C06",
		Interleave: []string{"cipher"},
		Rule:       "cases (alg, key, count, bearer, direction, payload, bit length) through NASEncrypt (octet lengths), NEA1/2/3 (bit lengths) and the raw keystream generators; every bit length 0..1100 (thorough 0..2200) plus 2^k±{0,1,7,8,31,32,63,64}; all 64 bearer×direction values; structured and random keys/counts/payloads. Non-trivial = alg in {1,2,3} and length > 0; distinct by the full parameter tuple.",
		Assumptions: []string{
			"reference SNOW 3G / ZUC / AES-CTR written in /verif from the specifications, validated at start-up on 43 published vectors (UEA2/UIA2, EEA2/EIA2, EEA3/EIA3, keystream sets, SP 800-38B)",
			"only the first LENGTH bits of the output are compared; bit lengths are within 0..8*len(buffer)",
			"crypto/aes is the trusted AES block primitive",
		},
		Oracles: map[string]func(*core.Ctx, *core.Case){"cold-entries": coldEntries, "cipher": c06Cipher, "keystream": c06Keystream, "cipher-seq": c06CipherSeq, "mac": c07Mac, "mixed-seq": cryptoMixedSeq, "concurrent": c06Concurrent, "many-keys": c06ManyKeys, "cold-concurrent": coldConcurrent},
		Floors: func(tier string, cov map[string]map[string]int64, cnt map[string]int64) []string {
			var f []string
			if cnt["reference_kat_vectors_passed"] == 0 {
				f = append(f, "reference self-test did not run")
			}
			if cnt["zuc_zero_rule_inputs"] == 0 || cnt["concurrent_calls"] == 0 {
				f = append(f, "no ZUC zero-rule input / no concurrent probe was executed")
			}
			for alg := 1; alg <= 3; alg++ {
				if alg != 2 {
					for r := 0; r < 32; r++ {
						q := 0
						for key := range cov["residue"] {
							var a, rr, qq int
							if _, err := fmt.Sscanf(key, "alg%d/r%d/q%d", &a, &rr, &qq); err == nil && a == alg && rr == r {
								q++
							}
						}
						if q < 3 {
							f = append(f, fmt.Sprintf("alg %d: length residue %d mod 32 seen at %d quotients (<3)", alg, r, q))
						}
					}
				}
				for o := 0; o <= 7; o++ {
					if cov["short_octets"][fmt.Sprintf("alg%d/%d", alg, o)] == 0 {
						f = append(f, fmt.Sprintf("alg %d: payload of %d octets never ciphered", alg, o))
					}
				}
				for _, api := range []string{"nas", "alg"} {
					if cov["api"][fmt.Sprintf("alg%d/%s", alg, api)] == 0 {
						f = append(f, fmt.Sprintf("alg %d never reached through API layer %s", alg, api))
					}
				}
			}
			if len(cov["bearer_dir"]) < 64 {
				f = append(f, fmt.Sprintf("only %d of 64 bearer×direction values seen", len(cov["bearer_dir"])))
			}
			if len(cov["series"]) < 6 {
				f = append(f, "same-parameter series did not run for every algorithm and API layer")
			}
			return f
		},
	}
	p.Units = func(tier string) []core.Unit {
		var us []core.Unit
		lens := cryptoLengths(tier)
		reps := 12
		if tier == "thorough" {
			reps = 160
		}
		for alg := 1; alg <= 3; alg++ {
			alg := alg
			const chunks = 24
			for ch := 0; ch < chunks; ch++ {
				ch := ch
				us = append(us, core.Unit{Name: fmt.Sprintf("cipher-alg%d-%02d", alg, ch), Weight: 100, Run: func(c *core.Ctx) {
					idx := 0
					for li := ch; li < len(lens); li += chunks {
						nbits := lens[li]
						for rep := 0; rep < reps; rep++ {
							if nbits > 20000 && rep > 0 {
								break
							}
							idx++
							key, count := cryptoParams(c.R, idx+rep)
							bd := (li*reps + rep + alg*7) % 64
							bearer, dir := int64(bd>>1), int64(bd&1)
							api := apiAlg
							useBits := nbits
							if rep%3 == 0 || alg == 2 {
								// octet-length API; bit length rounded up
								if rep%2 == 0 || alg != 2 {
									api = apiNAS
								}
								useBits = (nbits + 7) / 8 * 8
							}
							extra := api == apiAlg && alg != 2 && rep%5 == 4
							pl := cryptoPayload(c.R, idx, useBits, extra)
							k := &core.Case{Oracle: "cipher", Target: fmt.Sprintf("security.NEA%d", alg), I: []int64{int64(alg), int64(count), bearer, dir, int64(useBits), int64(api)}, B: [][]byte{key, pl}}
							if api == apiNAS {
								k.Target = "security.NASEncrypt"
							}
							c.Do(k)
							c.Cover("api", fmt.Sprintf("alg%d/%s", alg, []string{"nas", "alg"}[api]))
							c.Cover("bearer_dir", fmt.Sprintf("%d/%d", bearer, dir))
							cryptoCoverLen(c, alg, useBits, 32)
							if useBits > 0 {
								c.NonTrivial(k.Hash())
							}
							c.Sample(k.Brief())
						}
					}
				}})
			}
		}
		for alg := 1; alg <= 3; alg++ {
			alg := alg
			for ch := 0; ch < 4; ch++ {
				us = append(us, core.Unit{Name: fmt.Sprintf("series-alg%d-%d", alg, ch), Weight: 80, Run: func(c *core.Ctx) {
					for i := 0; i < c.Pick(40, 1200); i++ {
						key, count := cryptoParams(c.R, i)
						api := int64(i % 2)
						k := &core.Case{Oracle: "cipher-seq", Target: fmt.Sprintf("security.NEA%d", alg), I: []int64{int64(alg), int64(count), int64(c.R.Intn(32)), int64(c.R.Intn(2)), api, int64(c.R.Uint64() >> 1)}, B: [][]byte{key}}
						if api == apiNAS {
							k.Target = "security.NASEncrypt"
						}
						c.Do(k)
						c.Cover("series", fmt.Sprintf("alg%d/api%d", alg, api))
						c.NonTrivial(k.Hash())
					}
				}})
			}
		}
		for _, alg := range []int{1, 3} {
			alg := alg
			for ch := 0; ch < 8; ch++ {
				ch := ch
				us = append(us, core.Unit{Name: fmt.Sprintf("keystream-alg%d-%d", alg, ch), Weight: 60, Run: func(c *core.Ctx) {
					n := 150
					if c.Thorough() {
						n = 1500
					}
					for i := 0; i < n; i++ {
						key, _ := cryptoParams(c.R, i)
						iv := c.R.Pattern([]int{3, 0, 1, 3, 3}[i%5], 16)
						words := []int{0, 1, 2, 3, 5, 16, 33, 64}[i%8]
						if i%50 == 49 {
							words = 300 + c.R.Intn(300)
						}
						k := &core.Case{Oracle: "keystream", Target: []string{"", "snow3g.GetKeyStream", "", "zuc.Zuc"}[alg], I: []int64{int64(alg), int64(words)}, B: [][]byte{key, iv}}
						c.Do(k)
						c.Cover("api", fmt.Sprintf("alg%d/core", alg))
						if words > 0 {
							c.NonTrivial(k.Hash())
						}
					}
				}})
			}
		}
		us = append(us, cryptoConcurrentUnits("concurrent")...)
		us = append(us, zeroRuleUnit(false), cryptoManyKeysUnit(), mixedSeqUnit())
		us = append(us, coldUnits(tier, "security", "cipher1", "cipher2", "cipher3")...)
		us = append(us, coldEntryUnits(tier, "security", "cipher")...)
		return us
	}
	core.Register(p)
}

// ---- C07 -------------------------------------------------------------------

// oracle "mac": I=[alg, count, bearer, direction, nbits, api]  B=[key, msg]
func c07Mac(c *core.Ctx, k *core.Case) {
	if !refReady(c) {
		return
	}
	alg, count, bearer, dir, nbits, api := int(k.I[0]), uint32(k.I[1]), uint32(k.I[2]), uint32(k.I[3]), int(k.I[4]), int(k.I[5])
	key := key16(k.B[0])
	msg := k.B[1]
	var want uint32
	switch alg {
	case 1:
		want = refcrypto.EIA1(key, count, bearer, dir, msg, nbits)
	case 2:
		want = refcrypto.EIA2(key, count, bearer, dir, msg[:nbits/8])
	case 3:
		want = refcrypto.EIA3(key, count, bearer, dir, msg, nbits)
	}
	buf, bufIntact := guarded(msg)
	var mac []byte
	var err error
	defer func() {
		if !bufIntact() {
			c.Fail(k, fmt.Sprintf("writes-outside-message:alg%d", alg), "the MAC function wrote into the caller's buffer outside the message slice")
		}
	}()
	switch api {
	case apiNAS:
		mac, err = security.NASMacCalculate(uint8(alg), key, count, uint8(bearer), uint8(dir), buf)
	case apiAlg:
		switch alg {
		case 1:
			mac, err = security.NIA1(key, count, byte(bearer), dir, buf, uint64(nbits))
		case 2:
			mac, err = security.NIA2(key, count, uint8(bearer), uint8(dir), buf)
		case 3:
			mac, err = security.NIA3(key, count, uint8(bearer), uint8(dir), buf, uint32(nbits))
		}
	}
	c.Eval(1)
	if !bytes.Equal(buf, msg) {
		c.Fail(k, "input-modified", fmt.Sprintf("MAC alg %d modified the message", alg))
	}
	if err != nil {
		c.Fail(k, "unexpected-error", fmt.Sprintf("alg %d api %d: %v", alg, api, err))
		return
	}
	if len(mac) != 4 {
		c.Fail(k, "mac-length", fmt.Sprintf("alg %d: MAC of %d octets", alg, len(mac)))
		return
	}
	got := uint32(mac[0])<<24 | uint32(mac[1])<<16 | uint32(mac[2])<<8 | uint32(mac[3])
	c.Hold(k, k.Target, mac)
	if nbits <= 4096 && nbits%8 == 0 {
		if _, owned := ownedTwice(func() []byte {
			o, _ := security.NASMacCalculate(uint8(alg), key, count, uint8(bearer), uint8(dir), cloneB(msg[:nbits/8]))
			return o
		}); owned != "" {
			c.Fail(k, fmt.Sprintf("result-not-owned:NASMacCalculate:alg%d", alg), owned)
		}
	}
	if got != want {
		tail := "clean"
		if k.I[6] != 0 {
			tail = "dirty"
		}
		c.Fail(k, fmt.Sprintf("mac-mismatch:alg%d:api%d:%s-tail", alg, api, tail),
			fmt.Sprintf("alg=%d count=%#x bearer=%d dir=%d nbits=%d key=%x msg=%s: got %08x want %08x", alg, count, bearer, dir, nbits, key, hx(msg), got, want))
	}
}

// oracle "mixed-seq": I=[count, bearer, direction, seed, steps] B=[key] — ciphering and
// integrity calls of all six algorithms with ONE key and one (COUNT, BEARER, DIRECTION),
// in a random order, short lengths that are mostly not multiples of four octets; every
// call is compared with the reference. The two families share their stream generators:
// anything one call leaves behind in them for the next one shows as a mismatch.
func cryptoMixedSeq(c *core.Ctx, k *core.Case) {
	if !refReady(c) {
		return
	}
	r := prng.New(uint64(k.I[3]))
	var trace []string
	// the caller's receive area: now and then an EMPTY message is ciphered in place at its
	// start (rx[:0], the whole area as spare capacity); the area stays the caller's
	rx := make([]byte, 96)
	for i := range rx {
		rx[i] = 0xa5
	}
	rxIntact := func() bool {
		for _, x := range rx {
			if x != 0xa5 {
				return false
			}
		}
		return true
	}
	for step := 0; step < int(k.I[4]); step++ {
		alg := int64(1 + r.Intn(3))
		n := r.Intn(41)
		if r.Chance(1, 4) {
			n = r.Range(40, 300)
		}
		// the same COUNT and DIRECTION, or their "twin": COUNT with bit 31 flipped and the other
		// DIRECTION - the two tuples agree in the words of the 128-EIA1/EEA1 IV that are built
		// as COUNT xor DIRECTION<<31
		count, dir := k.I[0], k.I[2]
		if r.Chance(1, 3) {
			count, dir = count^0x80000000, dir^1
		}
		if r.Chance(1, 6) {
			_ = security.NASEncrypt(uint8(alg), key16(k.B[0]), uint32(count), uint8(k.I[1]), uint8(dir), rx[:0])
			trace = append(trace, fmt.Sprintf("NEA%d/empty-in-place", alg))
		}
		before := c.Report().Counters["violating_cases"]
		if r.Bool() {
			trace = append(trace, fmt.Sprintf("NEA%d/%d", alg, n))
			c06Cipher(c, &core.Case{Oracle: "cipher", Target: fmt.Sprintf("security.NEA%d", alg), I: []int64{alg, count, k.I[1], dir, int64(8 * n), apiNAS}, B: [][]byte{k.B[0], r.Bytes(n)}})
			if r.Chance(1, 3) {
				// ... and through the per-algorithm function, whose result the caller keeps
				c06Cipher(c, &core.Case{Oracle: "cipher", Target: fmt.Sprintf("security.NEA%d", alg), I: []int64{alg, count, k.I[1], dir, int64(8 * n), apiAlg}, B: [][]byte{k.B[0], r.Bytes(n)}})
			}
		} else {
			trace = append(trace, fmt.Sprintf("NIA%d/%d", alg, n))
			c07Mac(c, &core.Case{Oracle: "mac", Target: fmt.Sprintf("security.NIA%d", alg), I: []int64{alg, count, k.I[1], dir, int64(8 * n), apiNAS, 0}, B: [][]byte{k.B[0], r.Bytes(n)}})
		}
		if !rxIntact() {
			c.Fail(k, "empty-message-area-written-later", fmt.Sprintf("an empty message had been ciphered in place at the start of a 96-octet receive area; after later calls (%v) the area reads %s", trace[max(0, len(trace)-4):], hx(rx)))
			return
		}
		if c.Report().Counters["violating_cases"] > before {
			if len(trace) > 6 {
				trace = trace[len(trace)-6:]
			}
			c.Fail(k, "mixed-series-mismatch:"+trace[len(trace)-1][:4], fmt.Sprintf("call %d of a series of ciphering and integrity calls with one key, COUNT %#x, BEARER %d, DIRECTION %d differs from the standard function; the last calls (algorithm/octets): %v", step, k.I[0], k.I[1], k.I[2], trace))
			return
		}
	}
	c.Count("mixed_series_calls", k.I[4])
}

func mixedSeqUnit() core.Unit {
	return core.Unit{Name: "mixed-series", Weight: 30, Run: func(c *core.Ctx) {
		for i := 0; i < c.Pick(60, 1500); i++ {
			k := &core.Case{Oracle: "mixed-seq", Target: "security", I: []int64{int64(c.R.Uint32()), int64(c.R.Intn(32)), int64(i % 2), int64(c.R.Uint64() >> 1), 40}, B: [][]byte{c.R.Bytes(16)}}
			c.Do(k)
			c.NonTrivial(k.Hash())
		}
	}}
}

// oracle "mac-seq": I=[alg, count, bearer, direction, api, seed] B=[key] — a series of MAC
// calls with identical parameters and varying message lengths (see cipher-seq).
func c07MacSeq(c *core.Ctx, k *core.Case) {
	if !refReady(c) {
		return
	}
	alg, api := int(k.I[0]), int(k.I[4])
	r := prng.New(uint64(k.I[5]))
	lens := c06SeqLens(r, api == apiNAS || alg == 2)
	for step, nbits := range lens {
		msg := r.Bytes((nbits + 7) / 8)
		kk := &core.Case{Oracle: "mac", Target: k.Target, I: []int64{k.I[0], k.I[1], k.I[2], k.I[3], int64(nbits), k.I[4], 0}, B: [][]byte{k.B[0], msg}}
		before := c.Report().Counters["violating_cases"]
		c07Mac(c, kk)
		if c.Report().Counters["violating_cases"] > before {
			c.Fail(k, fmt.Sprintf("series-mismatch:alg%d:api%d", alg, api), fmt.Sprintf("call %d of a same-parameter series (bit lengths %v) differs from the standard function", step, lens))
			return
		}
	}
}

func init() {
	p := &core.Property{
		ID:         "C07",
		Interleave: []string{"mac"},
		Rule:       "cases (alg, key, count, bearer, direction, message, bit length) through NASMacCalculate (octet lengths) and NIA1/2/3 (bit lengths); every bit length 0..1100 (thorough 0..2200) plus 2^k±{0,1,7,8,31,32,63,64}; all 64 bearer×direction values; each non-octet length both with a zero tail and with a dirty tail (bits after the message end set, and extra octets after it). Non-trivial = alg in {1,2,3} and length > 0; distinct by the full parameter tuple.",
		Assumptions: []string{
			"reference UIA2-f9 / AES-CMAC / EIA3 written in /verif from the specifications, validated at start-up on the published vectors",
			"the MAC of a zero-length message is the value the specifications' formulae give (f9: D=1, no message block; CMAC over the 8-octet header; EIA3: z[0] xor z[32])",
			"bit lengths are within 0..8*len(buffer); the message is the first LENGTH bits of the buffer",
		},
		Oracles: map[string]func(*core.Ctx, *core.Case){"cold-entries": coldEntries, "mac": c07Mac, "mac-seq": c07MacSeq, "cipher": c06Cipher, "mixed-seq": cryptoMixedSeq, "concurrent": c07Concurrent, "many-keys": c07ManyKeys, "cold-concurrent": coldConcurrent},
		Floors: func(tier string, cov map[string]map[string]int64, cnt map[string]int64) []string {
			var f []string
			if cnt["reference_kat_vectors_passed"] == 0 {
				f = append(f, "reference self-test did not run")
			}
			if cnt["zuc_zero_rule_inputs"] == 0 || cnt["concurrent_calls"] == 0 {
				f = append(f, "no ZUC zero-rule input / no concurrent probe was executed")
			}
			for alg := 1; alg <= 3; alg++ {
				if alg != 2 {
					for r := 0; r < 64; r++ {
						q := 0
						for key := range cov["residue"] {
							var a, rr, qq int
							if _, err := fmt.Sscanf(key, "alg%d/r%d/q%d", &a, &rr, &qq); err == nil && a == alg && rr == r {
								q++
							}
						}
						if q < 3 {
							f = append(f, fmt.Sprintf("alg %d: length residue %d mod 64 seen at %d quotients (<3)", alg, r, q))
						}
					}
				}
				for o := 0; o <= 7; o++ {
					if cov["short_octets"][fmt.Sprintf("alg%d/%d", alg, o)] == 0 {
						f = append(f, fmt.Sprintf("alg %d: message of %d octets never MACed", alg, o))
					}
				}
				for _, api := range []string{"nas", "alg"} {
					if cov["api"][fmt.Sprintf("alg%d/%s", alg, api)] == 0 {
						f = append(f, fmt.Sprintf("alg %d never reached through API layer %s", alg, api))
					}
				}
			}
			if len(cov["bearer_dir"]) < 64 {
				f = append(f, fmt.Sprintf("only %d of 64 bearer×direction values seen", len(cov["bearer_dir"])))
			}
			if cov["tail"]["dirty"] == 0 || cov["tail"]["clean"] == 0 {
				f = append(f, "tail shapes not both exercised")
			}
			if len(cov["series"]) < 6 {
				f = append(f, "same-parameter series did not run for every algorithm and API layer")
			}
			return f
		},
	}
	p.Units = func(tier string) []core.Unit {
		var us []core.Unit
		lens := cryptoLengths(tier)
		reps := 12
		if tier == "thorough" {
			reps = 160
		}
		for alg := 1; alg <= 3; alg++ {
			alg := alg
			const chunks = 24
			for ch := 0; ch < chunks; ch++ {
				ch := ch
				if ch < 4 {
					us = append(us, core.Unit{Name: fmt.Sprintf("series-alg%d-%d", alg, ch), Weight: 80, Run: func(c *core.Ctx) {
						for i := 0; i < c.Pick(40, 1200); i++ {
							key, count := cryptoParams(c.R, i)
							api := int64(i % 2)
							k := &core.Case{Oracle: "mac-seq", Target: fmt.Sprintf("security.NIA%d", alg), I: []int64{int64(alg), int64(count), int64(c.R.Intn(32)), int64(c.R.Intn(2)), api, int64(c.R.Uint64() >> 1)}, B: [][]byte{key}}
							if api == apiNAS {
								k.Target = "security.NASMacCalculate"
							}
							c.Do(k)
							c.Cover("series", fmt.Sprintf("alg%d/api%d", alg, api))
							c.NonTrivial(k.Hash())
						}
					}})
				}
				us = append(us, core.Unit{Name: fmt.Sprintf("mac-alg%d-%02d", alg, ch), Weight: 100, Run: func(c *core.Ctx) {
					idx := 0
					for li := ch; li < len(lens); li += chunks {
						nbits := lens[li]
						for rep := 0; rep < reps; rep++ {
							if nbits > 20000 && rep > 1 {
								break
							}
							idx++
							key, count := cryptoParams(c.R, idx+rep)
							bd := (li*reps + rep + alg*5) % 64
							bearer, dir := int64(bd>>1), int64(bd&1)
							api := apiAlg
							useBits := nbits
							if rep%3 == 0 || alg == 2 {
								if rep%2 == 0 || alg != 2 {
									api = apiNAS
								}
								useBits = (nbits + 7) / 8 * 8
							}
							dirty := int64(0)
							nb := (useBits + 7) / 8
							msg := c.R.Pattern([]int{3, 3, 0, 1, 2, 3, 4}[idx%7], nb)
							if api == apiAlg && alg != 2 {
								switch rep % 3 {
								case 1: // zero tail inside the last octet
									if r := useBits % 8; r != 0 {
										msg[nb-1] &= 0xff << (8 - uint(r))
									}
								case 2: // dirty tail: bits after the end set, plus extra octets
									if r := useBits % 8; r != 0 {
										msg[nb-1] |= 0xff >> uint(r)
										dirty = 1
									}
									if c.R.Bool() {
										msg = append(msg, c.R.Bytes(c.R.Range(1, 12))...)
										dirty = 1
									}
								}
							}
							k := &core.Case{Oracle: "mac", Target: fmt.Sprintf("security.NIA%d", alg), I: []int64{int64(alg), int64(count), bearer, dir, int64(useBits), int64(api), dirty}, B: [][]byte{key, msg}}
							if api == apiNAS {
								k.Target = "security.NASMacCalculate"
							}
							c.Do(k)
							c.Cover("api", fmt.Sprintf("alg%d/%s", alg, []string{"nas", "alg"}[api]))
							c.Cover("bearer_dir", fmt.Sprintf("%d/%d", bearer, dir))
							c.Cover("tail", map[int64]string{0: "clean", 1: "dirty"}[dirty])
							cryptoCoverLen(c, alg, useBits, 64)
							if useBits > 0 {
								c.NonTrivial(k.Hash())
							}
							c.Sample(k.Brief())
						}
					}
				}})
			}
		}
		us = append(us, cryptoConcurrentUnits("concurrent")...)
		us = append(us, zeroRuleUnit(true), cryptoManyKeysUnit())
		us = append(us, mixedSeqUnit())
		us = append(us, coldUnits(tier, "security", "mac1", "mac2", "mac3", "mac0")...)
		us = append(us, coldEntryUnits(tier, "security", "mac")...)
		return us
	}
	core.Register(p)
}

// ---- C08 -------------------------------------------------------------------

func c08Valid(alg, bearer, dir int) bool { return alg <= 3 && bearer <= 31 && dir <= 1 }

// guarded places a copy of in inside a larger buffer, 16 guard octets before it
// and 24 after it, and returns the inner slice WITH the trailing guard as spare
// capacity — an append or an out-of-range write by the callee lands in the guard.
func guarded(in []byte) (inner []byte, intact func() bool) {
	buf := make([]byte, 16+len(in)+24)
	for i := range buf {
		buf[i] = 0xa5
	}
	copy(buf[16:], in)
	inner = buf[16 : 16+len(in)]
	intact = func() bool {
		for i := 0; i < 16; i++ {
			if buf[i] != 0xa5 {
				return false
			}
		}
		for i := 16 + len(in); i < len(buf); i++ {
			if buf[i] != 0xa5 {
				return false
			}
		}
		return true
	}
	return
}

// withVerboseLogging runs fn with the library logger at Trace level (output
// discarded), then restores the level. The level is an exported knob of the
// library (logger.SetLogLevel); what the functions compute must not depend on it.
func init() { core.VerboseHook = withLogLevel }

// withLogLevel runs fn with the library logger at the given logrus level (output discarded).
func withLogLevel(level int, fn func()) {
	lg := logger.GetLogger()
	old := lg.GetLevel()
	lg.SetOutput(io.Discard)
	lv := old // a value of the logger's own level type, counted up to the wanted level
	lv = 0
	for i := 0; i < level; i++ {
		lv++
	}
	lg.SetLevel(lv)
	defer lg.SetLevel(old)
	fn()
}

var verboseFlip int

// withVerboseLogging alternates between Trace and Debug level from call to call.
func withVerboseLogging(fn func()) {
	verboseFlip++
	withLogLevel(6-verboseFlip%2, fn)
}

// oracle "laws": I=[alg, count, bearer, dir, (tight)]  B=[key, payload, other-payload-of-same-length]
// With tight=1 the payload slices have exactly the capacity of their length.
func c08Laws(c *core.Ctx, k *core.Case) {
	alg, count, bearer, dir := uint8(k.I[0]), uint32(k.I[1]), uint8(k.I[2]), uint8(k.I[3])
	key := key16(k.B[0])
	p, q := k.B[1], k.B[2]
	tight := len(k.I) > 4 && k.I[4]&1 == 1
	verbose := len(k.I) > 4 && k.I[4]&2 == 2
	if verbose && c.Scratch["verbose"] == nil {
		c.Scratch["verbose"] = true
		defer delete(c.Scratch, "verbose")
		withVerboseLogging(func() { c08Laws(c, k) })
		return
	}
	enc := func(in []byte) ([]byte, error) {
		if tight {
			b := make([]byte, len(in))
			copy(b, in)
			err := security.NASEncrypt(alg, key, count, bearer, dir, b)
			return b, err
		}
		b, intact := guarded(in)
		err := security.NASEncrypt(alg, key, count, bearer, dir, b)
		if !intact() {
			c.Fail(k, fmt.Sprintf("writes-outside-payload:alg%d", alg), fmt.Sprintf("NASEncrypt on a %d-octet payload wrote into the caller's buffer outside the payload slice", len(in)))
		}
		return b, err
	}
	c.Eval(1)
	e1, err := enc(p)
	if err != nil {
		c.Fail(k, "unexpected-error", fmt.Sprintf("valid parameters rejected: %v", err))
		return
	}
	if len(e1) != len(p) {
		c.Fail(k, "length-changed", "ciphering changed the payload length")
		return
	}
	if alg == 0 && !bytes.Equal(e1, p) {
		c.Fail(k, "null-cipher-changes-payload", fmt.Sprintf("NEA0: %s -> %s", hx(p), hx(e1)))
	}
	e2, _ := enc(e1)
	if !bytes.Equal(e2, p) {
		c.Fail(k, fmt.Sprintf("not-involution:alg%d", alg), fmt.Sprintf("E(E(p)) != p for len %d: p=%s E(E(p))=%s", len(p), hx(p), hx(e2)))
	}
	// prefix stability at a few cut points incl. word and block boundaries
	for _, cut := range []int{0, 1, 3, 4, 5, 15, 16, 17, 31, 32, 33, len(p) / 2, len(p) - 1} {
		if cut < 0 || cut > len(p) {
			continue
		}
		ep, err := enc(p[:cut])
		if err != nil || !bytes.Equal(ep, e1[:cut]) {
			c.Fail(k, fmt.Sprintf("prefix-unstable:alg%d", alg), fmt.Sprintf("E(p[:%d]) != E(p)[:%d] (len %d, err %v)", cut, cut, len(p), err))
			break
		}
	}
	// keystream independence of the plaintext
	eq, _ := enc(q)
	for i := range p {
		if e1[i]^p[i] != eq[i]^q[i] {
			c.Fail(k, fmt.Sprintf("keystream-depends-on-plaintext:alg%d", alg), fmt.Sprintf("octet %d of %d", i, len(p)))
			break
		}
	}
	// determinism
	e1b, _ := enc(p)
	if !bytes.Equal(e1, e1b) {
		c.Fail(k, "nondeterministic", "two ciphering runs on equal arguments differ")
	}
	// the result is a function of the octets, not of where they live: the same payload at
	// every offset 1..7 of a larger array (what ciphering msg[7:] behind a security header does)
	for off := 1; off <= 7 && len(p) > 0; off++ {
		arr := make([]byte, off+len(p)+3)
		w := arr[off : off+len(p)]
		copy(w, p)
		err := security.NASEncrypt(alg, key, count, bearer, dir, w)
		if err != nil || !bytes.Equal(w, e1) {
			c.Fail(k, fmt.Sprintf("result-depends-on-placement:alg%d", alg), fmt.Sprintf("NASEncrypt of the same %d octets at offset %d of an array gives %s (err %v), in a slice of their own %s", len(p), off, hx(w), err, hx(e1)))
			break
		}
		if off < 3 {
			m1, e1m := security.NASMacCalculate(alg, key, count, bearer, dir, w)
			m2, e2m := security.NASMacCalculate(alg, key, count, bearer, dir, cloneB(w))
			if (e1m == nil) != (e2m == nil) || !bytes.Equal(m1, m2) {
				c.Fail(k, fmt.Sprintf("mac-depends-on-placement:alg%d", alg), fmt.Sprintf("NASMacCalculate of the same %d octets at offset %d of an array gives %x, in a slice of their own %x", len(p), off, m1, m2))
				break
			}
		}
	}
	// MAC laws
	msg, msgIntact := guarded(p)
	mac, err := security.NASMacCalculate(alg, key, count, bearer, dir, msg)
	if !msgIntact() {
		c.Fail(k, fmt.Sprintf("mac-writes-outside-message:alg%d", alg), fmt.Sprintf("NASMacCalculate on a %d-octet message wrote into the caller's buffer outside the message slice (e.g. padding appended into spare capacity)", len(p)))
	}
	if err != nil {
		c.Fail(k, "unexpected-error", fmt.Sprintf("MAC with valid parameters rejected: %v", err))
		return
	}
	if len(mac) != 4 {
		c.Fail(k, "mac-length", fmt.Sprintf("MAC has %d octets", len(mac)))
	}
	if !bytes.Equal(msg, p) {
		c.Fail(k, "mac-modifies-message", "message differs from its snapshot after NASMacCalculate")
	}
	if alg == 0 && !bytes.Equal(mac, []byte{0, 0, 0, 0}) {
		c.Fail(k, "null-mac-nonzero", fmt.Sprintf("NIA0 MAC %x", mac))
	}
	// the caller owns the returned MAC: scribbling on it must not influence later calls
	macValue := cloneB(mac)
	for i := range mac {
		mac[i] = 0xde
	}
	mac2, _ := security.NASMacCalculate(alg, key, count, bearer, dir, cloneB(p))
	if !bytes.Equal(macValue, mac2) {
		sig := "nondeterministic"
		if bytes.Equal(mac2, mac) {
			sig = fmt.Sprintf("mac-result-aliased:alg%d", alg)
		}
		c.Fail(k, sig, fmt.Sprintf("a second MAC run on equal arguments gave %x, the first gave %x (the first result was overwritten with de.. in between)", mac2, macValue))
	}
	c.Hold(k, "security.NASMacCalculate", mac2)
}

// oracle "grid": I=[algLo, algHi, dirHi]  — all alg in [algLo,algHi) × bearer 0..255 × dir 0..dirHi-1 × 3 payload lengths
func c08Grid(c *core.Ctx, k *core.Case) {
	var key [16]byte
	for i := range key {
		key[i] = byte(i*17 + 3)
	}
	pl := [][]byte{{}, {0xa5}, {1, 2, 3, 4, 5, 6, 7, 8, 9, 10, 11, 12, 13, 14, 15, 16, 17, 18, 19, 20, 21}}
	buf := make([]byte, 32)
	var n int64
	for alg := int(k.I[0]); alg < int(k.I[1]); alg++ {
		for bearer := 0; bearer < 256; bearer++ {
			for dir := 0; dir < int(k.I[2]); dir++ {
				valid := c08Valid(alg, bearer, dir)
				for _, p := range pl {
					b := buf[:len(p)]
					copy(b, p)
					err := security.NASEncrypt(uint8(alg), key, 0x1234567, uint8(bearer), uint8(dir), b)
					n++
					kk := func() *core.Case {
						return &core.Case{Oracle: "point", Target: "security.NASEncrypt", I: []int64{int64(alg), int64(bearer), int64(dir)}, B: [][]byte{cloneB(p)}}
					}
					if valid && err != nil {
						c.Fail(kk(), "valid-rejected", fmt.Sprintf("alg %d bearer %d dir %d: %v", alg, bearer, dir, err))
					}
					if !valid {
						if err == nil {
							c.Fail(kk(), "invalid-accepted:"+c08Which(alg, bearer, dir), fmt.Sprintf("NASEncrypt(alg %d, bearer %d, dir %d) returned nil error", alg, bearer, dir))
						}
						if !bytes.Equal(b, p) {
							c.Fail(kk(), "payload-touched-on-error:"+c08Which(alg, bearer, dir), fmt.Sprintf("NASEncrypt(alg %d, bearer %d, dir %d): payload %x -> %x", alg, bearer, dir, p, b))
						}
					} else if alg == 0 && !bytes.Equal(b, p) {
						c.Fail(kk(), "null-cipher-changes-payload", fmt.Sprintf("%x -> %x", p, b))
					}
					copy(b, p)
					mac, err := security.NASMacCalculate(uint8(alg), key, 0x1234567, uint8(bearer), uint8(dir), b)
					n++
					km := func() *core.Case {
						kc := kk()
						kc.Target = "security.NASMacCalculate"
						return kc
					}
					if valid {
						if err != nil || len(mac) != 4 {
							c.Fail(km(), "valid-rejected", fmt.Sprintf("MAC alg %d bearer %d dir %d: err %v mac %x", alg, bearer, dir, err, mac))
						}
					} else if err == nil {
						c.Fail(km(), "invalid-accepted:"+c08Which(alg, bearer, dir), fmt.Sprintf("NASMacCalculate(alg %d, bearer %d, dir %d) returned nil error", alg, bearer, dir))
					}
					if !bytes.Equal(b, p) {
						c.Fail(km(), "mac-modifies-message", fmt.Sprintf("alg %d bearer %d dir %d", alg, bearer, dir))
					}
				}
			}
		}
		c.J.Tick()
	}
	c.Eval(n)
	c.Count("grid_points", n/6)
}

func c08Which(alg, bearer, dir int) string {
	switch {
	case bearer > 31:
		return "bearer"
	case dir > 1:
		return "direction"
	}
	return "algorithm"
}

// oracle "point": one grid point, I=[alg,bearer,dir] B=[payload] (replay of grid violations; also nil payload when I[3]==1)
func c08Point(c *core.Ctx, k *core.Case) {
	alg, bearer, dir := int(k.I[0]), int(k.I[1]), int(k.I[2])
	var key [16]byte
	for i := range key {
		key[i] = byte(i*17 + 3)
	}
	nilPayload := len(k.I) > 3 && k.I[3] == 1
	if len(k.I) > 4 && k.I[4]&2 == 2 && c.Scratch["verbose"] == nil {
		c.Scratch["verbose"] = true
		defer delete(c.Scratch, "verbose")
		withVerboseLogging(func() { c08Point(c, k) })
		return
	}
	var b []byte
	if !nilPayload {
		b = cloneB(k.B[0])
	}
	c.Eval(2)
	valid := c08Valid(alg, bearer, dir) && !nilPayload
	err := security.NASEncrypt(uint8(alg), key, 0x1234567, uint8(bearer), uint8(dir), b)
	if valid && err != nil {
		c.Fail(k, "valid-rejected", err.Error())
	}
	if !valid && err == nil {
		w := c08Which(alg, bearer, dir)
		if nilPayload {
			w = "nil-payload"
		}
		c.Fail(k, "invalid-accepted:"+w, fmt.Sprintf("NASEncrypt(alg %d, bearer %d, dir %d, nil=%v) returned nil error", alg, bearer, dir, nilPayload))
	}
	if !valid && !nilPayload && !bytes.Equal(b, k.B[0]) {
		c.Fail(k, "payload-touched-on-error:"+c08Which(alg, bearer, dir), fmt.Sprintf("%x -> %x", k.B[0], b))
	}
	var m []byte
	if !nilPayload {
		m = cloneB(k.B[0])
	}
	mac, err := security.NASMacCalculate(uint8(alg), key, 0x1234567, uint8(bearer), uint8(dir), m)
	if valid && (err != nil || len(mac) != 4) {
		c.Fail(k, "valid-rejected", fmt.Sprintf("MAC err %v mac %x", err, mac))
	}
	if !valid && err == nil {
		w := c08Which(alg, bearer, dir)
		if nilPayload {
			w = "nil-payload"
		}
		c.Fail(k, "invalid-accepted:"+w, fmt.Sprintf("NASMacCalculate(alg %d, bearer %d, dir %d, nil=%v) returned nil error", alg, bearer, dir, nilPayload))
	}
	if !nilPayload && !bytes.Equal(m, k.B[0]) {
		c.Fail(k, "mac-modifies-message", "")
	}
}

func init() {
	p := &core.Property{
		ID:          "C08",
		Interleave:  []string{"laws", "point"},
		Rule:        "laws: for valid parameters (alg 0..3, all 64 bearer×direction values) and payload lengths 0..300 plus a few large: length preservation, involution, prefix stability at word/block boundaries, keystream independence of the plaintext, determinism, NULL algorithm, 4-octet MAC, message untouched. grid: quick alg 0..7 × bearer 0..255 × direction 0..3 (thorough: all 256×256×256) × 3 payload lengths through NASEncrypt and NASMacCalculate: invalid ⇒ error and untouched payload, valid ⇒ nil error; nil payload for every algorithm. Non-trivial = valid parameters with non-empty payload, or an invalid combination; distinct by the parameter tuple.",
		Assumptions: []string{"key arrays are passed by value, so key modification is unobservable by construction"},
		Oracles:     map[string]func(*core.Ctx, *core.Case){"cold-entries": coldEntries, "laws": c08Laws, "grid": c08Grid, "point": c08Point, "concurrent": c06Concurrent, "concurrent-neighbours": cryptoNeighbours, "cold-concurrent": coldConcurrent},
		Exhaustive: func(tier string) (bool, string) {
			if tier == "thorough" {
				return true, "the validation grid alg×bearer×direction is enumerated completely (2^24 points × 3 payload lengths × 2 functions); keys, counts and payloads are sampled"
			}
			return false, "quick covers alg 0..7 × bearer 0..255 × direction 0..3 completely"
		},
		Floors: func(tier string, cov map[string]map[string]int64, cnt map[string]int64) []string {
			var f []string
			want := int64(8 * 256 * 4)
			if tier == "thorough" {
				want = 256 * 256 * 256
			}
			if cnt["grid_points"] != want {
				f = append(f, fmt.Sprintf("grid covered %d of %d points", cnt["grid_points"], want))
			}
			for alg := 0; alg <= 3; alg++ {
				for _, l := range []string{"0", "1", "16", "17", "large"} {
					if cov["laws"][fmt.Sprintf("alg%d/len%s", alg, l)] == 0 {
						f = append(f, fmt.Sprintf("laws never checked for alg %d at length class %s", alg, l))
					}
				}
			}
			if cnt["nil_payload_points"] == 0 {
				f = append(f, "nil payload never tried")
			}
			return f
		},
	}
	p.Units = func(tier string) []core.Unit {
		var us []core.Unit
		if tier == "thorough" {
			for a := 0; a < 256; a += 2 {
				a := a
				us = append(us, core.Unit{Name: fmt.Sprintf("grid-%03d", a), Weight: 300, Run: func(c *core.Ctx) {
					c.Do(&core.Case{Oracle: "grid", Target: "security", I: []int64{int64(a), int64(a + 2), 256}})
				}})
			}
		} else {
			for a := 0; a < 8; a++ {
				a := a
				us = append(us, core.Unit{Name: fmt.Sprintf("grid-%03d", a), Weight: 5, Run: func(c *core.Ctx) {
					c.Do(&core.Case{Oracle: "grid", Target: "security", I: []int64{int64(a), int64(a + 1), 4}})
				}})
			}
			us = append(us, core.Unit{Name: "grid-random", Weight: 5, Run: func(c *core.Ctx) {
				for i := 0; i < 20000; i++ {
					k := &core.Case{Oracle: "point", Target: "security", I: []int64{int64(c.R.Intn(256)), int64(c.R.Intn(256)), int64(c.R.Intn(256))}, B: [][]byte{c.R.Bytes(c.R.Intn(24))}}
					c.Do(k)
					c.NonTrivial(k.Hash())
				}
			}})
		}
		// laws under concurrency: 8 goroutines ciphering under ONE key (uplink and downlink of
		// one context) or two, each result compared with the reference
		us = append(us, coldUnits(tier, "security", "cipher1", "mac2", "cipher3", "mac1", "cipher2", "mac3", "mac0")...)
		us = append(us, cryptoNeighbourUnit())
		us = append(us, core.Unit{Name: "concurrent-same-key", Weight: 40, Run: func(c *core.Ctx) {
			for alg := 1; alg <= 3; alg++ {
				for _, nk := range []int64{1, 2} {
					k := &core.Case{Oracle: "concurrent", Target: "security", I: []int64{int64(alg), int64(c.R.Uint64() >> 1), 8, int64(c.Pick(2000, 20000)), nk}}
					c.Do(k)
					c.NonTrivial(k.Hash())
				}
			}
		}})
		us = append(us, core.Unit{Name: "tight-and-verbose", Weight: 20, Run: func(c *core.Ctx) {
			// exact-capacity payloads, and the same laws with the library logging at Trace level
			idx := 0
			for mode := int64(1); mode <= 3; mode++ {
				for alg := 0; alg <= 3; alg++ {
					for n := 0; n <= 40; n++ {
						idx++
						key, count := cryptoParams(c.R, idx)
						k := &core.Case{Oracle: "laws", Target: "security.NASEncrypt", I: []int64{int64(alg), int64(count), int64(idx % 32), int64(idx & 1), mode}, B: [][]byte{key, c.R.Bytes(n), c.R.Bytes(n)}}
						c.Do(k)
						c.NonTrivial(k.Hash())
						c.Cover("laws_mode", fmt.Sprint(mode))
					}
				}
			}
			for i := 0; i < 3000; i++ {
				k := &core.Case{Oracle: "point", Target: "security", I: []int64{int64(c.R.Intn(8)), int64(c.R.Intn(40)), int64(c.R.Intn(3)), 0, 2}, B: [][]byte{c.R.Bytes(c.R.Intn(12))}}
				c.Do(k)
			}
		}})
		us = append(us, core.Unit{Name: "nil-payload", Weight: 1, Run: func(c *core.Ctx) {
			for alg := 0; alg < 256; alg++ {
				for _, bd := range [][2]int64{{0, 0}, {31, 1}, {32, 0}, {0, 2}, {255, 255}} {
					c.Do(&core.Case{Oracle: "point", Target: "security", I: []int64{int64(alg), bd[0], bd[1], 1}})
					c.Count("nil_payload_points", 1)
				}
			}
		}})
		for alg := 0; alg <= 3; alg++ {
			alg := alg
			for ch := 0; ch < 8; ch++ {
				ch := ch
				us = append(us, core.Unit{Name: fmt.Sprintf("laws-alg%d-%d", alg, ch), Weight: 80, Run: func(c *core.Ctx) {
					reps := 2
					if c.Thorough() {
						reps = 10
					}
					idx := 0
					for n := ch; n <= 300; n += 8 {
						for rep := 0; rep < reps; rep++ {
							idx++
							key, count := cryptoParams(c.R, idx)
							bd := (n*reps + rep) % 64
							pl := cryptoPayload(c.R, idx, 8*n, false)
							k := &core.Case{Oracle: "laws", Target: "security.NASEncrypt", I: []int64{int64(alg), int64(count), int64(bd >> 1), int64(bd & 1)}, B: [][]byte{key, pl, c.R.Bytes(n)}}
							c.Do(k)
							cl := "other"
							switch {
							case n == 0, n == 1, n == 16, n == 17:
								cl = fmt.Sprint(n)
							}
							c.Cover("laws", fmt.Sprintf("alg%d/len%s", alg, cl))
							if n > 0 {
								c.NonTrivial(k.Hash())
							}
							c.Sample(k.Brief())
						}
					}
					for _, n := range []int{1023, 8192, 8200, 4097, 16384, 70000}[:c.Pick(3, 6)] {
						key, count := cryptoParams(c.R, n+ch)
						k := &core.Case{Oracle: "laws", Target: "security.NASEncrypt", I: []int64{int64(alg), int64(count), int64(ch), int64(ch & 1)}, B: [][]byte{key, c.R.Bytes(n + ch), c.R.Bytes(n + ch)}}
						c.Do(k)
						c.Cover("laws", fmt.Sprintf("alg%d/lenlarge", alg))
						c.NonTrivial(k.Hash())
					}
				}})
			}
		}
		us = append(us, coldEntryUnits(tier, "security", "cipher", "mac")...)
		return us
	}
	core.Register(p)
}
