package monitor

import (
	"bytes"
	"encoding/json"
	"fmt"
	"os"
	"reflect"
	"sort"
	"strings"
	"sync"

	"verifharness/internal/core"
	"verifharness/internal/prng"
	"verifharness/internal/reg"
)

// C09 — every IE accessor reads and writes exactly its documented bits.
//
// State monitor: the element is put into an arbitrary prior state by reflection
// (Iei, Len, every data octet), the setter is called, and the complete
// post-state is compared with the prediction "prior with the field's bits
// replaced" computed from the frozen layout table. Getters are compared with the
// field's bits and must leave the state alone.

type layoutSpec struct {
	Where     string `json:"where"` // "struct" | "data"
	Name      string `json:"name"`
	Octet     int    `json:"octet"`
	Bit       int    `json:"bit"`
	Width     int    `json:"width"`
	OpenEnded bool   `json:"open_ended"`
}

type layoutField struct {
	Type  string     `json:"type"`
	Field string     `json:"field"`
	Has   []string   `json:"has"`
	VType string     `json:"vtype"`
	Spec  layoutSpec `json:"spec"`
}

type layoutFile struct {
	Fields   []layoutField `json:"fields"`
	NotPairs []string      `json:"not_pairs"`
}

var (
	layoutOnce sync.Once
	layoutData *layoutFile
	layoutErr  error
	layoutExt  map[string]int // declared extent (octets) per type
)

func loadLayout() (*layoutFile, error) {
	layoutOnce.Do(func() {
		d, err := os.ReadFile(verifDir() + "/spec/layout.json")
		if err != nil {
			layoutErr = err
			return
		}
		var lf layoutFile
		if err := json.Unmarshal(d, &lf); err != nil {
			layoutErr = err
			return
		}
		layoutData = &lf
		layoutExt = map[string]int{}
		for _, f := range lf.Fields {
			if f.Spec.Where != "data" {
				continue
			}
			end := f.Spec.Octet + 1
			if !f.Spec.OpenEnded {
				end = f.Spec.Octet + (8-f.Spec.Bit+f.Spec.Width-1)/8 + 1
			}
			if end > layoutExt[f.Type] {
				layoutExt[f.Type] = end
			}
		}
	})
	return layoutData, layoutErr
}

// elemView gives reflective access to Iei / Len / Octet / Buffer of an IE value.
type elemView struct {
	ptr                     reflect.Value
	iei, ln, octet, buffer  reflect.Value
	octetIsArray, hasBuffer bool
	lastBuf                 []byte // the Buffer the harness installed last (setData)
}

// freshAfterSetLen reports whether the element's current Buffer lies outside the
// memory of the Buffer installed before the setter ran.
func (e *elemView) freshAfterSetLen(_ *elemState) bool {
	if !e.hasBuffer || cap(e.lastBuf) == 0 || e.buffer.Cap() == 0 {
		return true
	}
	olo, ohi := sliceRange(reflect.ValueOf(e.lastBuf))
	nlo, nhi := sliceRange(e.buffer)
	return nhi <= olo || ohi <= nlo
}

func newElemView(p interface{}) *elemView {
	v := reflect.ValueOf(p)
	s := v.Elem()
	e := &elemView{ptr: v}
	if f := s.FieldByName("Iei"); f.IsValid() {
		e.iei = f
	}
	if f := s.FieldByName("Len"); f.IsValid() {
		e.ln = f
	}
	if f := s.FieldByName("Octet"); f.IsValid() {
		e.octet = f
		e.octetIsArray = f.Kind() == reflect.Array
	}
	if f := s.FieldByName("Buffer"); f.IsValid() && f.Kind() == reflect.Slice {
		e.buffer = f
		e.hasBuffer = true
	}
	return e
}

func (e *elemView) dataLen() int {
	switch {
	case e.hasBuffer:
		return e.buffer.Len()
	case e.octet.IsValid() && e.octetIsArray:
		return e.octet.Len()
	case e.octet.IsValid():
		return 1
	}
	return 0
}

func (e *elemView) getData(dst []byte) []byte {
	dst = dst[:0]
	switch {
	case e.hasBuffer:
		dst = append(dst, e.buffer.Bytes()...)
	case e.octet.IsValid() && e.octetIsArray:
		for i := 0; i < e.octet.Len(); i++ {
			dst = append(dst, byte(e.octet.Index(i).Uint()))
		}
	case e.octet.IsValid():
		dst = append(dst, byte(e.octet.Uint()))
	}
	return dst
}

func (e *elemView) setData(d []byte) {
	switch {
	case e.hasBuffer:
		b := make([]byte, len(d))
		copy(b, d)
		e.buffer.SetBytes(b)
		e.lastBuf = b
	case e.octet.IsValid() && e.octetIsArray:
		for i := 0; i < e.octet.Len(); i++ {
			e.octet.Index(i).SetUint(uint64(d[i]))
		}
	case e.octet.IsValid():
		e.octet.SetUint(uint64(d[0]))
	}
}

type elemState struct {
	iei  uint8
	ln   uint16
	data []byte
}

func (e *elemView) get(st *elemState) {
	st.iei, st.ln = 0, 0
	if e.iei.IsValid() {
		st.iei = uint8(e.iei.Uint())
	}
	if e.ln.IsValid() {
		st.ln = uint16(e.ln.Uint())
	}
	st.data = e.getData(st.data)
}

func (e *elemView) set(st *elemState) {
	if e.iei.IsValid() {
		e.iei.SetUint(uint64(st.iei))
	}
	if e.ln.IsValid() {
		e.ln.SetUint(uint64(st.ln))
	}
	e.setData(st.data)
}

func getBits(d []byte, start, width int) uint64 {
	var v uint64
	for i := 0; i < width; i++ {
		b := start + i
		v = v<<1 | uint64(d[b/8]>>(7-uint(b%8))&1)
	}
	return v
}

func putBits(d []byte, start, width int, v uint64) {
	for i := 0; i < width; i++ {
		b := start + i
		bit := byte(v>>uint(width-1-i)) & 1
		m := byte(0x80) >> uint(b%8)
		if bit != 0 {
			d[b/8] |= m
		} else {
			d[b/8] &^= m
		}
	}
}

func (s *elemState) String() string {
	return fmt.Sprintf("Iei=%#02x Len=%d data=%x", s.iei, s.ln, s.data)
}

func stateEq(a, b *elemState, ignoreData bool) bool {
	return a.iei == b.iei && a.ln == b.ln && (ignoreData || bytes.Equal(a.data, b.data))
}

func findField(lf *layoutFile, typ, field string) *layoutField {
	for i := range lf.Fields {
		if lf.Fields[i].Type == typ && lf.Fields[i].Field == field {
			return &lf.Fields[i]
		}
	}
	return nil
}

func c09Prior(r *prng.Rand, p int, n int, ev *elemView) *elemState {
	st := &elemState{data: make([]byte, n)}
	switch p {
	case 0:
	case 1:
		st.iei, st.ln = 0xff, 0xffff
		for i := range st.data {
			st.data[i] = 0xff
		}
	default:
		st.iei = r.Byte()
		st.ln = uint16(r.Uint32())
		r.Fill(st.data)
		// the first octet usually carries the selector bits of the element (type of
		// identity, type of list, unit): walk its low and high nibble through all values
		if len(st.data) > 0 {
			switch {
			case p >= 2 && p < 18:
				st.data[0] = st.data[0]&0xf0 | byte(p-2)
			case p >= 18 && p < 34:
				st.data[0] = st.data[0]&0x0f | byte(p-18)<<4
			}
		}
	}
	if ev.ln.IsValid() && ev.ln.Kind() == reflect.Uint8 {
		st.ln &= 0xff
	}
	if !ev.ln.IsValid() {
		st.ln = 0
	}
	if !ev.iei.IsValid() {
		st.iei = 0
	}
	return st
}

// oracle "field": S=[type, field] I=[priorSeed, nPriors, vLo, vHi, vStep, extraBuf]
func c09Field(c *core.Ctx, k *core.Case) {
	lf, err := loadLayout()
	if err != nil {
		c.Inconclusive("layout.json: " + err.Error())
		return
	}
	typ, field := k.S[0], k.S[1]
	f := findField(lf, typ, field)
	ctor := reg.IETypes[typ]
	if f == nil || ctor == nil {
		c.Inconclusive(fmt.Sprintf("accessor pair %s.%s: layout entry %v, type in tree %v", typ, field, f != nil, ctor != nil))
		return
	}
	obj := ctor()
	ev := newElemView(obj)
	getM := ev.ptr.MethodByName("Get" + field)
	setM := ev.ptr.MethodByName("Set" + field)
	if !getM.IsValid() || !setM.IsValid() {
		c.Inconclusive(fmt.Sprintf("accessor pair %s.%s no longer present in the tree (get %v set %v)", typ, field, getM.IsValid(), setM.IsValid()))
		return
	}
	r := prng.New(uint64(k.I[0]))
	nPri, vLo, vHi, vStep, extra := int(k.I[1]), k.I[2], k.I[3], k.I[4], int(k.I[5])
	n := ev.dataLen()
	if ev.hasBuffer {
		n = layoutExt[typ] + extra
	}
	sp := f.Spec
	if sp.Where == "data" && !sp.OpenEnded {
		if end := sp.Octet*8 + (8 - sp.Bit) + sp.Width; end > n*8 {
			c.Inconclusive(fmt.Sprintf("%s.%s: documented field ends at bit %d but the element has %d octets", typ, field, end, n))
			return
		}
	}
	var post, want, after elemState
	fail := func(sig, msg string) {
		c.Fail(k, sig+":"+typ+"."+field, msg)
	}
	var evals int64
	switch f.VType {
	case "uint8", "uint16":
		var get8 func() uint8
		var set8 func(uint8)
		var get16 func() uint16
		var set16 func(uint16)
		if f.VType == "uint8" {
			g, ok1 := getM.Interface().(func() uint8)
			s, ok2 := setM.Interface().(func(uint8))
			if !ok1 || !ok2 {
				c.Inconclusive(fmt.Sprintf("%s.%s: accessor signature changed (layout says uint8)", typ, field))
				return
			}
			get8, set8 = g, s
		} else {
			g, ok1 := getM.Interface().(func() uint16)
			s, ok2 := setM.Interface().(func(uint16))
			if !ok1 || !ok2 {
				c.Inconclusive(fmt.Sprintf("%s.%s: accessor signature changed (layout says uint16)", typ, field))
				return
			}
			get16, set16 = g, s
		}
		width := sp.Width
		if sp.Where == "struct" {
			width = 8
			if f.VType == "uint16" {
				width = 16
			}
		}
		start := sp.Octet*8 + (8 - sp.Bit)
		for p := 0; p < nPri; p++ {
			prior := c09Prior(r, p, n, ev)
			// getter on the arbitrary prior state
			ev.set(prior)
			var got uint64
			if get8 != nil {
				got = uint64(get8())
			} else {
				got = uint64(get16())
			}
			ev.get(&after)
			var wantGet uint64
			switch {
			case sp.Where == "struct" && sp.Name == "Iei":
				wantGet = uint64(prior.iei)
			case sp.Where == "struct":
				wantGet = uint64(prior.ln)
			default:
				wantGet = getBits(prior.data, start, width)
			}
			evals++
			if got != wantGet {
				fail("getter-wrong-bits", fmt.Sprintf("state {%s}: Get%s() = %#x, documented bits give %#x", prior, field, got, wantGet))
			}
			if !stateEq(prior, &after, false) {
				fail("getter-mutates", fmt.Sprintf("Get%s changed the element: {%s} -> {%s}", field, prior, &after))
			}
			for v := vLo; v < vHi; v += vStep {
				ev.set(prior)
				if set8 != nil {
					set8(uint8(v))
				} else {
					set16(uint16(v))
				}
				ev.get(&post)
				want.iei, want.ln = prior.iei, prior.ln
				want.data = append(want.data[:0], prior.data...)
				ignoreData := false
				switch {
				case sp.Where == "struct" && sp.Name == "Iei":
					want.iei = uint8(v)
				case sp.Where == "struct":
					want.ln = uint16(v)
					if ev.ln.Kind() == reflect.Uint8 {
						want.ln &= 0xff
					}
					if ev.hasBuffer {
						// SetLen of a Buffer-backed element is the documented allocator
						ignoreData = true
						if len(post.data) != int(want.ln) {
							fail("setlen-buffer-size", fmt.Sprintf("SetLen(%d) left a buffer of %d octets", v, len(post.data)))
						}
						// ... of FRESH storage: a value copy of the element taken before the call (or
						// whoever else holds the old Buffer) must not see what is written afterwards
						if !ev.freshAfterSetLen(prior) {
							fail("setlen-reuses-storage", fmt.Sprintf("SetLen(%d) on an element holding %d octets kept the old storage: writing the new contents changes a value copy taken before", v, len(prior.data)))
						}
					}
				default:
					putBits(want.data, start, width, uint64(v))
				}
				evals++
				if !stateEq(&want, &post, ignoreData) {
					fail("setter-wrong-state", fmt.Sprintf("prior {%s}, Set%s(%#x): got {%s}, documented layout predicts {%s}", prior, field, v, &post, &want))
				}
				var g uint64
				if get8 != nil {
					g = uint64(get8())
				} else {
					g = uint64(get16())
				}
				mask := uint64(1)<<uint(width) - 1
				if g != uint64(v)&mask {
					fail("set-then-get", fmt.Sprintf("Set%s(%#x) then Get%s() = %#x, want %#x (field width %d)", field, v, field, g, uint64(v)&mask, width))
				}
			}
		}
	default:
		// array- and slice-valued fields: octet aligned
		if sp.Where != "data" || (!sp.OpenEnded && (sp.Bit != 8 || sp.Width%8 != 0)) {
			c.Inconclusive(fmt.Sprintf("%s.%s: value type %s with a non-octet-aligned layout", typ, field, f.VType))
			return
		}
		isSlice := f.VType == "[]uint8"
		var held, heldCopy []byte
		for p := 0; p < nPri; p++ {
			prior := c09Prior(r, p, n, ev)
			fw := sp.Width / 8
			if sp.OpenEnded {
				fw = n - sp.Octet
			}
			ev.set(prior)
			gotV := getM.Call(nil)[0]
			ev.get(&after)
			gb := valueBytes(gotV)
			evals++
			if isSlice {
				// the slice an earlier call of this getter returned is its caller's: a later
				// call (on another state of the element) leaves it alone
				if held != nil && !bytes.Equal(held, heldCopy) {
					fail("getter-result-changed-later", fmt.Sprintf("the slice Get%s() returned earlier read %x; after a later Get%s() call it reads %x", field, heldCopy, field, held))
					held = nil
				}
				if held == nil && gotV.Len() > 0 {
					held = gotV.Bytes()
					heldCopy = cloneB(held)
				}
			}
			if !bytes.Equal(gb, prior.data[sp.Octet:sp.Octet+fw]) {
				fail("getter-wrong-bits", fmt.Sprintf("state {%s}: Get%s() = %x, documented octets %x", prior, field, gb, prior.data[sp.Octet:sp.Octet+fw]))
			}
			if !stateEq(prior, &after, false) {
				fail("getter-mutates", fmt.Sprintf("Get%s changed the element: {%s} -> {%s}", field, prior, &after))
			}
			// the value is a window of the element's OWN data (or of the same receive area): the
			// setter must behave as if it had been given a private copy (copy semantics)
			if isSlice && ev.hasBuffer && fw > 1 {
				for _, shift := range []int{-2, -1, 1, 2} {
					ev.set(prior)
					cur := ev.buffer.Bytes()
					lo := sp.Octet + shift
					if lo < 0 || lo+fw > len(cur) {
						continue
					}
					val := cloneB(cur[lo : lo+fw]) // what the argument holds before the call
					setM.Call([]reflect.Value{reflect.ValueOf(cur[lo : lo+fw : lo+fw])})
					ev.get(&post)
					evals++
					want.data = append(want.data[:0], prior.data...)
					copy(want.data[sp.Octet:], val)
					if len(post.data) != len(want.data) || !bytes.Equal(post.data, want.data) {
						fail("setter-overlapping-argument", fmt.Sprintf("prior {%s}, Set%s(window of the element's own buffer at octet %d): got {%s}, copying the argument as it was gives {%s}", prior, field, lo, &post, &want))
						break
					}
				}
			}
			dict := dictOfWidth(fw)
			if len(dict) > 16 {
				dict = dict[:16]
			}
			for i := int64(-int64(len(dict))); i < (vHi-vLo)/vStep; i++ {
				var val []byte
				if i < 0 {
					val = cloneB(dict[-i-1]) // spec-defined special values and literals of the tree
				} else {
					val = r.Pattern(int(i)+3, fw)
				}
				vl := fw
				if isSlice && i >= 0 && i%3 == 2 && fw > 0 {
					vl = r.Intn(fw) // shorter value: only a prefix of the field may change
					val = val[:vl]
				}
				ev.set(prior)
				var arg reflect.Value
				var argBytes []byte
				if isSlice {
					argBytes = cloneB(val)
					arg = reflect.ValueOf(argBytes)
				} else {
					arg = reflect.New(setM.Type().In(0)).Elem()
					for j := 0; j < fw; j++ {
						arg.Index(j).SetUint(uint64(val[j]))
					}
				}
				setM.Call([]reflect.Value{arg})
				// the value slice stays the caller's: overwriting it after the call must not reach the element
				for j := range argBytes {
					argBytes[j] ^= 0xff
				}
				ev.get(&post)
				evals++
				want.iei, want.ln = prior.iei, prior.ln
				want.data = append(want.data[:0], prior.data...)
				copy(want.data[sp.Octet:], val)
				if len(post.data) != len(want.data) || post.iei != want.iei || post.ln != want.ln {
					fail("setter-wrong-state", fmt.Sprintf("prior {%s}, Set%s(%x): got {%s}, predicted {%s}", prior, field, val, &post, &want))
					continue
				}
				// bits outside the field must be untouched; inside, the written prefix must equal the value
				if !bytes.Equal(post.data[:sp.Octet], want.data[:sp.Octet]) || !bytes.Equal(post.data[sp.Octet+fw:], want.data[sp.Octet+fw:]) ||
					!bytes.Equal(post.data[sp.Octet:sp.Octet+vl], val[:vl]) || (vl == fw && !bytes.Equal(post.data, want.data)) {
					fail("setter-wrong-state", fmt.Sprintf("prior {%s}, Set%s(%x): got {%s}, predicted {%s}", prior, field, val, &post, &want))
				}
				if vl == fw {
					g2 := valueBytes(getM.Call(nil)[0])
					if !bytes.Equal(g2, val) {
						fail("set-then-get", fmt.Sprintf("Set%s(%x) then Get%s() = %x", field, val, field, g2))
					}
				}
			}
		}
	}
	c.Eval(evals)
	c.CoverN("pair", typ+"."+field, evals)
}

func valueBytes(v reflect.Value) []byte {
	switch v.Kind() {
	case reflect.Slice:
		return append([]byte{}, v.Bytes()...)
	case reflect.Array:
		b := make([]byte, v.Len())
		for i := range b {
			b[i] = byte(v.Index(i).Uint())
		}
		return b
	}
	return nil
}

func rfc1035(s string) []byte {
	var out []byte
	for _, l := range strings.Split(s, ".") {
		out = append(out, byte(len(l)))
		out = append(out, l...)
	}
	return out
}

// oracle "dnn": S=[name] I=[iei]
func c09DNN(c *core.Ctx, k *core.Case) {
	ctor := reg.IETypes["DNN"]
	if ctor == nil {
		c.Inconclusive("nasType.DNN is gone")
		return
	}
	obj := ctor()
	ev := newElemView(obj)
	set, ok1 := ev.ptr.MethodByName("SetDNN").Interface().(func(string))
	get, ok2 := ev.ptr.MethodByName("GetDNN").Interface().(func() string)
	if !ok1 || !ok2 {
		c.Inconclusive("DNN accessor signatures changed")
		return
	}
	name := k.S[0]
	prior := &elemState{iei: uint8(k.I[0]), ln: 3, data: []byte{2, 'z', 'z'}}
	ev.set(prior)
	set(name)
	var post elemState
	ev.get(&post)
	c.Eval(1)
	enc := rfc1035(name)
	valid := len(enc) <= 100
	for _, l := range strings.Split(name, ".") {
		if len(l) > 62 {
			valid = false
		}
	}
	if post.iei != prior.iei {
		c.Fail(k, "setter-wrong-state:DNN.DNN", fmt.Sprintf("SetDNN(%q) changed Iei %#x -> %#x", name, prior.iei, post.iei))
	}
	if !valid {
		if !stateEq(prior, &post, false) {
			c.Fail(k, "setter-wrong-state:DNN.DNN", fmt.Sprintf("SetDNN(%q) is not encodable but changed the element to {%s}", name, &post))
		}
		return
	}
	if !bytes.Equal(post.data, enc) || int(post.ln) != len(enc) {
		c.Fail(k, "setter-wrong-state:DNN.DNN", fmt.Sprintf("SetDNN(%q): {%s}, RFC 1035 labels give Len=%d data=%x", name, &post, len(enc), enc))
	}
	if g := get(); g != name {
		c.Fail(k, "set-then-get:DNN.DNN", fmt.Sprintf("SetDNN(%q) then GetDNN() = %q", name, g))
	}
	c.CoverN("pair", "DNN.DNN", 1)
}

func c09Pairs() (fields []layoutField, err error) {
	lf, err := loadLayout()
	if err != nil {
		return nil, err
	}
	return lf.Fields, nil
}

func init() {
	p := &core.Property{
		ID:         "C09",
		Interleave: []string{"field", "dnn"},
		Rule:       "every getter/setter pair listed in the frozen layout table (and every pair vgen finds in the tree) × prior states {all-0, all-1, random…} × every value of the parameter type for uint8 fields and (thorough) uint16 fields, random values for array/slice fields; Buffer-backed elements sized to their declared extent + {0,1,7}. The full post-state (Iei, Len, every data octet) is compared with the prediction from the documented Row/sBit/len. Non-trivial = prior state not all-zero; distinct by (pair, prior seed, value range).",
		Assumptions: []string{
			"spec/layout.json: documented Row,sBit,len frozen from the pinned tree at authoring time; open-ended fields mean 'octets from Row[0] to the end'",
			"SetLen of a Buffer-backed element is the documented allocator (Len=n, len(Buffer)=n, contents unspecified)",
			"Buffer-backed elements are at least as long as their declared extent",
		},
		Oracles: map[string]func(*core.Ctx, *core.Case){"cold-concurrent": coldConcurrent, "field": c09Field, "dnn": c09DNN},
		Exhaustive: func(tier string) (bool, string) {
			if tier == "thorough" {
				return true, "all values of every uint8 and uint16 accessor parameter; prior states sampled"
			}
			return false, "all 256 values of every uint8 accessor; uint16 values strided; prior states sampled"
		},
	}
	p.Floors = func(tier string, cov map[string]map[string]int64, cnt map[string]int64) []string {
		var f []string
		fields, err := c09Pairs()
		if err != nil {
			return []string{"layout.json unreadable: " + err.Error()}
		}
		want := map[string]bool{}
		for _, fl := range fields {
			want[fl.Type+"."+fl.Field] = true
			if cov["pair"][fl.Type+"."+fl.Field] == 0 {
				f = append(f, "accessor pair in layout.json never exercised: "+fl.Type+"."+fl.Field)
			}
		}
		// pairs present in the tree but unknown to the table
		for key := range cov["tree_pair"] {
			if !want[key] {
				f = append(f, "accessor pair in the tree is missing from layout.json: "+key)
			}
		}
		if len(cov["tree_pair"]) == 0 {
			f = append(f, "tree scan did not run")
		}
		sort.Strings(f)
		if len(f) > 12 {
			f = append(f[:12], fmt.Sprintf("… and %d more", len(f)-12))
		}
		return f
	}
	p.Units = func(tier string) []core.Unit {
		fields, err := c09Pairs()
		var us []core.Unit
		if err != nil {
			return []core.Unit{{Name: "layout", Weight: 1, Run: func(c *core.Ctx) { c.Inconclusive("layout.json: " + err.Error()) }}}
		}
		thorough := tier == "thorough"
		for _, fl := range fields {
			fl := fl
			if fl.VType == "string" {
				continue
			}
			w := 10
			if fl.VType == "uint16" {
				w = 200
			}
			us = append(us, core.Unit{Name: "pair-" + fl.Type + "." + fl.Field, Weight: w, Run: func(c *core.Ctx) {
				nPri := c.Pick(8, 64)
				lo, hi, step := int64(0), int64(256), int64(1)
				switch fl.VType {
				case "uint8":
				case "uint16":
					hi = 65536
					nPri = c.Pick(4, 12)
					if !thorough {
						step = 17
					}
					if fl.Spec.Where == "struct" {
						// SetLen on Buffer-backed types allocates: fewer priors
						nPri = c.Pick(2, 3)
					}
				default:
					hi = int64(c.Pick(24, 256))
					nPri = c.Pick(36, 64)
				}
				extras := []int{0, 1, 7}
				ctor := reg.IETypes[fl.Type]
				hasBuf := false
				if ctor != nil {
					hasBuf = newElemView(ctor()).hasBuffer
				}
				if !hasBuf {
					extras = extras[:1]
				}
				for _, ex := range extras {
					k := &core.Case{Oracle: "field", Target: "nasType." + fl.Type, S: []string{fl.Type, fl.Field}, I: []int64{int64(c.R.Uint64() >> 1), int64(nPri), lo, hi, step, int64(ex)}}
					c.Do(k)
					c.NonTrivial(k.Hash())
					c.Sample(k.Brief())
				}
				if fl.VType == "uint16" && !thorough {
					// boundary values the stride misses
					for _, b := range [][2]int64{{0xfff0, 0x10000}, {0x3f0, 0x410}, {0xf0, 0x110}} {
						c.Do(&core.Case{Oracle: "field", Target: "nasType." + fl.Type, S: []string{fl.Type, fl.Field}, I: []int64{int64(c.R.Uint64() >> 1), 2, b[0], b[1], 1, 0}})
					}
				}
			}})
		}
		us = append(us, core.Unit{Name: "dnn", Weight: 10, Run: func(c *core.Ctx) {
			alpha := "abcdefghijklmnopqrstuvwxyz0123456789-"
			label := func(n int) string {
				b := make([]byte, n)
				for i := range b {
					b[i] = alpha[c.R.Intn(len(alpha))]
				}
				return string(b)
			}
			names := []string{"", "a", "internet", "ims.mnc001.mcc001.gprs", label(62), label(63), label(62) + "." + label(36), label(62) + "." + label(37), label(50) + "." + label(49)}
			for i := 0; i < c.Pick(500, 20000); i++ {
				var parts []string
				for j := c.R.Range(1, 6); j > 0; j-- {
					parts = append(parts, label(c.R.Range(1, 30)))
				}
				names = append(names, strings.Join(parts, "."))
			}
			for i, nme := range names {
				k := &core.Case{Oracle: "dnn", Target: "nasType.DNN", S: []string{nme}, I: []int64{int64(i * 37 % 256)}}
				c.Do(k)
				c.NonTrivial(k.Hash())
			}
		}})
		us = append(us, core.Unit{Name: "tree-scan", Weight: 1, Run: func(c *core.Ctx) {
			// every Get/Set pair the tree has today, by reflection over the vgen registry
			lf, _ := loadLayout()
			notPair := map[string]bool{}
			for _, n := range lf.NotPairs {
				notPair[n] = true
			}
			for tn, ctor := range reg.IETypes {
				t := reflect.TypeOf(ctor())
				for i := 0; i < t.NumMethod(); i++ {
					m := t.Method(i).Name
					if strings.HasPrefix(m, "Set") && len(m) > 3 {
						if _, ok := t.MethodByName("Get" + m[3:]); ok && !notPair[tn+".Get"+m[3:]] {
							c.Cover("tree_pair", tn+"."+m[3:])
						}
					}
				}
			}
			c.Eval(1)
		}})
		us = append(us, coldUnits(tier, "nasType", "accessor")...)
		return us
	}
	core.Register(p)
}
