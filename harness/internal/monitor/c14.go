package monitor

import (
	"fmt"
	"runtime/debug"
	"sort"

	"github.com/free5gc/nas/nasConvert"
	"github.com/free5gc/nas/nasType"

	"verifharness/internal/core"
	"verifharness/internal/prng"
	"verifharness/internal/refconv"
	"verifharness/internal/reg"
)

// C14 — helpers that interpret UE-supplied contents never panic or hang.
// Totality monitor: a fixed list of targets, each driven with every short byte
// string and with generated longer ones; the journal names the input of a fatal
// error or hang, recover() attributes panics.

type c14Target struct {
	name string
	text bool // takes a string
	maxN int  // longest input that can matter (fixed-size elements); 0 = unbounded
	fn   func(b []byte)
}

func mi5gs(b []byte) *nasType.MobileIdentity5GS {
	e := nasType.NewMobileIdentity5GS(0)
	e.SetLen(uint16(len(b)))
	e.SetMobileIdentity5GSContents(b)
	return e
}

var c14Targets = []c14Target{
	{name: "nasConvert.SuciToString", fn: func(b []byte) { nasConvert.SuciToString(b) }},
	{name: "nasConvert.SuciToStringWithError", fn: func(b []byte) { _, _, _ = nasConvert.SuciToStringWithError(b) }},
	{name: "nasConvert.NaiToString", fn: func(b []byte) { nasConvert.NaiToString(b) }},
	{name: "nasConvert.GutiToString", fn: func(b []byte) { nasConvert.GutiToString(b) }},
	{name: "nasConvert.GutiToStringWithError", fn: func(b []byte) { _, _, _ = nasConvert.GutiToStringWithError(b) }},
	{name: "nasConvert.PeiToString", fn: func(b []byte) { nasConvert.PeiToString(b) }},
	{name: "nasConvert.PeiToStringWithError", fn: func(b []byte) { _, _ = nasConvert.PeiToStringWithError(b) }},
	{name: "nasConvert.GutiToNas", text: true, fn: func(b []byte) { nasConvert.GutiToNas(string(b)) }},
	{name: "nasConvert.GutiToNasWithError", text: true, fn: func(b []byte) { _, _ = nasConvert.GutiToNasWithError(string(b)) }},
	{name: "nasConvert.AmfIdToNas", text: true, fn: func(b []byte) { nasConvert.AmfIdToNas(string(b)) }},
	{name: "nasConvert.AmfIdToNasWithError", text: true, fn: func(b []byte) { _, _, _, _ = nasConvert.AmfIdToNasWithError(string(b)) }},
	{name: "nasConvert.RequestedNssaiToModels", maxN: 255, fn: func(b []byte) {
		e := nasType.NewRequestedNSSAI(0x2f)
		e.SetLen(uint8(len(b)))
		e.SetSNSSAIValue(b)
		_, _ = nasConvert.RequestedNssaiToModels(e)
	}},
	{name: "nasConvert.SnssaiToModels", maxN: 8, fn: func(b []byte) {
		e := nasType.NewSNSSAI(0x22)
		e.SetLen(uint8(len(b)))
		copy(e.Octet[:], b)
		nasConvert.SnssaiToModels(e)
	}},
	{name: "nasConvert.LadnToModels", fn: func(b []byte) { nasConvert.LadnToModels(b) }},
	{name: "nasConvert.UESecurityCapabilityToByteArray", fn: func(b []byte) { nasConvert.UESecurityCapabilityToByteArray(b) }},
	{name: "nasConvert.PSIToBooleanArray", fn: func(b []byte) { nasConvert.PSIToBooleanArray(b) }},
	{name: "nasConvert.UpuAckToModels", fn: func(b []byte) { _, _ = nasConvert.UpuAckToModels(b) }},
	{name: "nasType.DNN.GetDNN", maxN: 255, fn: func(b []byte) {
		e := nasType.NewDNN(0x25)
		e.SetLen(uint8(len(b)))
		copy(e.Buffer, b)
		e.GetDNN()
	}},
	{name: "nasConvert.DecodeLocalTimeZone", maxN: 1, fn: func(b []byte) {
		var e nasType.LocalTimeZone
		if len(b) > 0 {
			e.Octet = b[0]
		}
		nasConvert.DecodeLocalTimeZone(e)
	}},
	{name: "nasConvert.DecodeUniversalTimeAndLocalTimeZone", maxN: 7, fn: func(b []byte) {
		var e nasType.UniversalTimeAndLocalTimeZone
		copy(e.Octet[:], b)
		nasConvert.DecodeUniversalTimeAndLocalTimeZone(e)
	}},
	{name: "nasConvert.DecodeDaylightSavingTime", maxN: 1, fn: func(b []byte) {
		var e nasType.NetworkDaylightSavingTime
		e.SetLen(uint8(len(b)))
		if len(b) > 0 {
			e.Octet = b[0]
		}
		nasConvert.DecodeDaylightSavingTime(e)
	}},
	{name: "nasType.MobileIdentity5GS.GetTypeOfIdentity", fn: func(b []byte) { _, _ = mi5gs(b).GetTypeOfIdentity() }},
	{name: "nasType.MobileIdentity5GS.GetMobileIdentity", fn: func(b []byte) { _, _, _ = mi5gs(b).GetMobileIdentity() }},
	{name: "nasType.MobileIdentity5GS.GetSUCI", fn: func(b []byte) { mi5gs(b).GetSUCI() }},
	{name: "nasType.MobileIdentity5GS.GetPlmnID", fn: func(b []byte) { mi5gs(b).GetPlmnID() }},
	{name: "nasType.MobileIdentity5GS.GetMCC", fn: func(b []byte) { mi5gs(b).GetMCC() }},
	{name: "nasType.MobileIdentity5GS.GetMNC", fn: func(b []byte) { mi5gs(b).GetMNC() }},
	{name: "nasType.MobileIdentity5GS.Get5GGUTI", fn: func(b []byte) { mi5gs(b).Get5GGUTI() }},
	{name: "nasType.MobileIdentity5GS.GetAmfID", fn: func(b []byte) { mi5gs(b).GetAmfID() }},
	{name: "nasType.MobileIdentity5GS.GetAmfRegionID", fn: func(b []byte) { mi5gs(b).GetAmfRegionID() }},
	{name: "nasType.MobileIdentity5GS.GetAmfSetID", fn: func(b []byte) { mi5gs(b).GetAmfSetID() }},
	{name: "nasType.MobileIdentity5GS.GetAmfPointer", fn: func(b []byte) { mi5gs(b).GetAmfPointer() }},
	{name: "nasType.MobileIdentity5GS.Get5GTMSI", fn: func(b []byte) { mi5gs(b).Get5GTMSI() }},
	{name: "nasType.MobileIdentity5GS.GetIMEI", fn: func(b []byte) { mi5gs(b).GetIMEI() }},
	{name: "nasType.MobileIdentity5GS.GetIMEISV", fn: func(b []byte) { mi5gs(b).GetIMEISV() }},
	{name: "nasType.MobileIdentity5GS.Get5GSTMSI", fn: func(b []byte) { _, _, _ = mi5gs(b).Get5GSTMSI() }},
}

func c14Find(name string) *c14Target {
	for i := range c14Targets {
		if c14Targets[i].name == name {
			return &c14Targets[i]
		}
	}
	return nil
}

// c14Call runs one input; a panic is a violation with the first library frame.
func c14Call(c *core.Ctx, t *c14Target, k *core.Case) {
	defer func() {
		if r := recover(); r != nil {
			st := debug.Stack()
			frame := core.RepoFrame(st)
			kk := &core.Case{Oracle: "one", Target: t.name, B: [][]byte{cloneB(k.B[0])}, I: k.I}
			c.Fail(kk, "panic:"+core.PanicClass(r)+"@"+frame, fmt.Sprintf("%s on %x (%q): panic: %v", t.name, k.B[0], k.B[0], r))
		}
	}()
	in := cloneB(k.B[0])
	t.fn(in)
}

// oracle "one": B=[input]
func c14One(c *core.Ctx, k *core.Case) {
	t := c14Find(k.Target)
	if t == nil {
		c.Inconclusive("unknown C14 target " + k.Target)
		return
	}
	c.Eval(1)
	if len(k.I) > 0 && k.I[0]&2 == 2 { // with the library logging at Trace level
		withVerboseLogging(func() { c14Call(c, t, k) })
		return
	}
	c14Call(c, t, k)
}

const c14Alphabet = "0123456789abcdefABCDEFxg-_. +:/\x00\xff\x80zZ"

// oracle "sweep": every input of length I[0] whose first symbol index lies in [I[1], I[2])
func c14Sweep(c *core.Ctx, k *core.Case) {
	t := c14Find(k.Target)
	if t == nil {
		c.Inconclusive("unknown C14 target " + k.Target)
		return
	}
	n := int(k.I[0])
	base := 256
	sym := func(i int) byte { return byte(i) }
	if t.text {
		base = len(c14Alphabet)
		sym = func(i int) byte { return c14Alphabet[i] }
	}
	cur := &core.Case{Oracle: "one", Target: t.name, B: [][]byte{make([]byte, n)}}
	var cnt int64
	if n == 0 {
		c.J.Write(cur)
		c14Call(c, t, cur)
		c.Eval(1)
		c.CoverN("len", fmt.Sprintf("%s/0", t.name), 1)
		return
	}
	idx := make([]int, n)
	for first := int(k.I[1]); first < int(k.I[2]) && first < base; first++ {
		idx[0] = first
		for i := 1; i < n; i++ {
			idx[i] = 0
		}
		for {
			for i := 0; i < n; i++ {
				cur.B[0][i] = sym(idx[i])
			}
			c.J.Write(cur)
			c14Call(c, t, cur)
			cnt++
			// next
			p := n - 1
			for p >= 1 {
				idx[p]++
				if idx[p] < base {
					break
				}
				idx[p] = 0
				p--
			}
			if p < 1 {
				break
			}
		}
	}
	c.Eval(cnt)
	c.CoverN("len", fmt.Sprintf("%s/%d", t.name, n), cnt)
}

// c14Structured lists byte inputs derived from VALID encodings of every kind
// the targets parse — each truncated at every length and extended by a few
// octets, with small field enumerations (identity type, SUPI format, protection
// scheme, odd/even indication) — so that boundaries like "header complete,
// scheme output empty" are hit by construction, not by luck.
func c14Structured(r *prng.Rand) [][]byte {
	var base [][]byte
	mcc, mnc := digits(r, 3), digits(r, 2+r.Intn(2))
	for _, scheme := range []uint8{0, 1, 2, 3, 15} {
		for _, msin := range []string{"", "1", "12", "1234567890"} {
			for _, raw := range [][]byte{nil, {0xaa}, r.Bytes(9)} {
				w := refconv.SuciWire(mcc, mnc, digits(r, 1+r.Intn(4)), scheme, r.Byte(), msin, raw)
				base = append(base, w)
				w2 := cloneB(w)
				w2[6] = scheme<<4 | scheme // dirty high nibble of the scheme octet
				base = append(base, w2)
			}
		}
	}
	base = append(base, refconv.NaiWire(nil), refconv.NaiWire(r.Bytes(1)), refconv.NaiWire(r.Bytes(20)))
	base = append(base, refconv.GutiWire(mcc, mnc, r.Uint32()&0xffffff, r.Uint32()), refconv.STmsiWire(uint16(r.Uint32()), r.Byte(), r.Uint32()))
	base = append(base, refconv.PeiWire(digits(r, 15), false), refconv.PeiWire(digits(r, 16), true), refconv.PeiWire(digits(r, 1), false), refconv.PeiWire(digits(r, 2), true))
	// NSSAI lists, LADN indication, UE security capability, UPU ack, PSI, DNN labels
	var nssai []byte
	for _, v := range []int{1, 2, 4, 5, 8} {
		nssai = append(nssai, refconv.SnssaiContents(c13RandSnssai(r, v))...)
	}
	// lists in which an entry repeats the slice of an earlier entry in another variant (the same
	// SST and SD once with and once without a mapped part), in both orders
	for _, pair := range [][2]int{{4, 8}, {8, 4}, {1, 2}, {4, 5}, {5, 8}, {8, 8}} {
		a, b2 := c13RandSnssai(r, pair[0]), c13RandSnssai(r, pair[1])
		b2.SST = a.SST
		if a.HasSD && b2.HasSD {
			b2.SD = a.SD
		}
		rep := append(refconv.SnssaiContents(a), refconv.SnssaiContents(b2)...)
		base = append(base, rep, append(refconv.SnssaiContents(c13RandSnssai(r, 1)), rep...))
	}
	base = append(base, nssai, refconv.LadnIndication([][]byte{[]byte("internet"), []byte("ims"), r.Bytes(100)}), r.Bytes(8), append([]byte{0x01}, r.Bytes(16)...), r.Bytes(2), rfc1035("ims.mnc001.mcc001.gprs"))
	// a 0xFF length octet followed by 255+ octets (uint8 wrap-around of "length+1")
	long := append([]byte{0xff}, r.Bytes(300)...)
	base = append(base, long, append([]byte{3, 'a', 'b', 'c'}, long...))
	var out [][]byte
	for _, b := range base {
		for n := 0; n <= len(b); n++ {
			if len(b) > 60 && n > 24 && n < len(b)-24 && n%17 != 0 {
				continue
			}
			out = append(out, cloneB(b[:n]))
		}
		out = append(out, append(cloneB(b), 0), append(cloneB(b), 0xff, 0xff))
		// first-octet variations: every identity type × SUPI format × odd/even bit
		if len(b) > 0 {
			for _, f := range []byte{0x00, 0x01, 0x11, 0x21, 0x02, 0x0a, 0xf2, 0x03, 0x0b, 0x04, 0xf4, 0x05, 0x0d, 0x06, 0x07, 0x09, 0x71} {
				v := cloneB(b)
				v[0] = f
				out = append(out, v)
				if len(v) >= 9 {
					out = append(out, cloneB(v[:8]), cloneB(v[:9]))
				}
			}
		}
	}
	return out
}

// c14Grammar draws an input biased to what the target parses.
// tokenText builds structured text from the string literals of ONE function of the tree
// under test (reg.DictGroups): a random arrangement of a subset of those tokens, possibly
// repeated, with short digit / letter runs in between. A hand-written parser that looks
// for its separators and labels in a fixed order meets them here in every order.
func tokenText(r *prng.Rand) []byte {
	if len(reg.DictGroups) == 0 {
		return nil
	}
	g := reg.DictGroups[r.Intn(len(reg.DictGroups))]
	var out []byte
	filler := func() {
		switch r.Intn(4) {
		case 0:
		case 1:
			out = append(out, digits(r, 1+r.Intn(3))...)
		case 2:
			out = append(out, "abcxyz5gc.nid"[r.Intn(13)])
		default:
			out = append(out, digits(r, 3)...)
		}
	}
	n := r.Range(2, len(g)+2)
	perm := r.Perm(len(g))
	filler()
	for j := 0; j < n; j++ {
		out = append(out, g[perm[j%len(g)]]...)
		filler()
	}
	return out
}

// tokenPerms enumerates arrangements of the tokens of one group: all permutations (at most
// 720) of the whole group and of the group with one token left out, joined with the given
// filler between tokens (digits of the given width, or nothing).
func tokenPerms(g []string, digitsBetween int, r *prng.Rand, fn func([]byte)) {
	emit := func(p []string) {
		var out []byte
		if digitsBetween > 0 {
			out = append(out, "user"...)
		}
		for j, s := range p {
			out = append(out, s...)
			if digitsBetween > 0 && j < len(p)-1 {
				out = append(out, digits(r, digitsBetween)...)
			}
		}
		fn(out)
	}
	var rec func(p []string, k int, cnt *int)
	rec = func(p []string, k int, cnt *int) {
		if *cnt >= 720 {
			return
		}
		if k == len(p) {
			*cnt++
			emit(p)
			return
		}
		for i := k; i < len(p); i++ {
			p[k], p[i] = p[i], p[k]
			rec(p, k+1, cnt)
			p[k], p[i] = p[i], p[k]
		}
	}
	n := 0
	rec(append([]string(nil), g...), 0, &n)
	if len(g) > 2 && len(g) <= 6 {
		for drop := range g {
			sub := append(append([]string(nil), g[:drop]...), g[drop+1:]...)
			m := 0
			rec(sub, 0, &m)
		}
	}
}

func c14Grammar(r *prng.Rand, t *c14Target, i int) []byte {
	if i%7 == 6 {
		if tt := tokenText(r); tt != nil {
			if t.text {
				return tt
			}
			// byte-typed helpers: the text behind a type-of-identity / format octet
			return append([]byte{[]byte{0x11, 0x01, 0x21, 0x31, 0x19, 0x00}[r.Intn(6)]}, tt...)
		}
	}
	if t.text {
		n := r.Range(0, 40)
		b := make([]byte, n)
		switch i % 5 {
		case 4:
			// exact BYTE lengths around those of a GUTI, made of a valid prefix, hex digits and
			// letters whose case mapping changes the encoded length (Kelvin sign, dotted capital I,
			// angstrom and ohm signs, capital sharp s, long s, dotless i) or is not valid UTF-8:
			// code that upper/lower-cases or re-encodes text and then slices at fixed offsets
			target := []int{19, 20, 19, 20, 18, 21, 6, 12}[r.Intn(8)]
			g := refconv.GutiText(digits(r, 3), digits(r, 2+r.Intn(2)), r.Uint32()&0xffffff, r.Uint32())
			out := []byte(g[:r.Intn(9)])
			special := []string{"\u212a", "\u0130", "\u212b", "\u2126", "\u1e9e", "\u017f", "\u0131", "\u00df", "\xc3", "\xff", "\u01c5"}
			if r.Bool() {
				// one such letter repeated to the exact length, the remainder a shorter one or digits
				x := special[r.Intn(len(special))]
				for len(out)+len(x) <= target {
					out = append(out, x...)
				}
				for len(out) < target {
					if target-len(out) >= 2 && r.Bool() {
						out = append(out, []string{"\u0130", "\u0131", "\u017f", "\u00df"}[r.Intn(4)]...)
					} else {
						out = append(out, "0123456789abcdef"[r.Intn(16)])
					}
				}
				return out
			}
			for tries := 0; len(out) != target && tries < 200; tries++ {
				var add string
				if r.Chance(2, 3) {
					add = special[r.Intn(len(special))]
				} else {
					add = string("0123456789abcdefABCDEF"[r.Intn(22)])
				}
				if len(out)+len(add) <= target {
					out = append(out, add...)
				} else if len(out) < target {
					out = append(out, "0123456789abcdef"[r.Intn(16)])
				}
			}
			return out
		case 0: // digits/hex of GUTI-like lengths
			n = []int{17, 18, 19, 20, 21, 5, 6, 7}[r.Intn(8)]
			b = make([]byte, n)
			for j := range b {
				b[j] = "0123456789abcdef"[r.Intn(16)]
			}
		case 1:
			for j := range b {
				b[j] = c14Alphabet[r.Intn(len(c14Alphabet))]
			}
			if len(reg.DictStrings) > 0 && r.Chance(1, 3) {
				// a string literal of the tree (prefixes such as "imsi-", "nai-", unit names, formats)
				// at the front, in the middle or as the whole input
				s := reg.DictStrings[r.Intn(len(reg.DictStrings))]
				switch r.Intn(3) {
				case 0:
					b = append([]byte(s), b...)
				case 1:
					b = append(b[:len(b)/2:len(b)/2], append([]byte(s), b[len(b)/2:]...)...)
				default:
					b = []byte(s)
				}
			}
		case 2:
			r.Fill(b)
		case 3: // a valid GUTI with one character damaged
			g := []byte(refconv.GutiText(digits(r, 3), digits(r, 2+r.Intn(2)), r.Uint32()&0xffffff, r.Uint32()))
			g[r.Intn(len(g))] = c14Alphabet[r.Intn(len(c14Alphabet))]
			b = g
		}
		return b
	}
	n := r.Range(0, 300)
	if r.Chance(2, 3) {
		n = r.Range(0, 24)
	}
	b := r.Bytes(n)
	switch i % 5 {
	case 0: // identity type octets in front
		if n > 0 {
			b[0] = []byte{0x01, 0x11, 0x02, 0xf2, 0x03, 0x0b, 0x04, 0xf4, 0x05, 0x00, 0x06, 0x07, 0x21}[r.Intn(13)]
		}
	case 1: // length-prefixed entries that may overrun
		for j := 0; j < n; {
			l := r.Intn(12)
			b[j] = byte(l)
			if r.Chance(1, 8) {
				b[j] = []byte{0, 0xff, 0x80, byte(n)}[r.Intn(4)]
			}
			j += l + 1
		}
	case 2: // S-NSSAI entries with legal and illegal lengths
		for j := 0; j < n; {
			l := []int{1, 2, 4, 5, 8, 0, 3, 9}[r.Intn(8)]
			b[j] = byte(l)
			j += l + 1
		}
	case 3: // all zero / all ones
		v := byte(0)
		if r.Bool() {
			v = 0xff
		}
		for j := range b {
			b[j] = v
		}
	}
	return b
}

func init() {
	p := &core.Property{
		ID:         "C14",
		Interleave: []string{"one"},
		Rule:       "for each of the 36 targets (nasConvert helpers taking UE-supplied contents, their WithError variants, DNN.GetDNN, the time decoders and the 15 MobileIdentity5GS text getters): every byte string of length 0, 1 and 2 (thorough: also 3), text targets every string of <=2 (thorough 3) symbols over a 40-symbol alphabet, plus generated inputs up to 300 octets biased to the target's grammar (identity types, length-prefixed entries that overrun, S-NSSAI lengths, damaged valid GUTIs). Element-typed targets get an element built the way the decoder builds it (SetLen(n) then contents). Non-trivial = input of at least one octet; distinct by target and input.",
		Assumptions: []string{
			"targets are the fixed list in harness/internal/monitor/c14.go, bound by name",
			"termination is decided by the journal / two-stage hang rule and the memory watchdog; no model is needed",
		},
		Oracles:      map[string]func(*core.Ctx, *core.Case){"cold-entries": coldEntries, "one": c14One, "sweep": c14Sweep, "concurrent-cold": c14ConcurrentCold},
		StallSeconds: 30,
		Exhaustive: func(tier string) (bool, string) {
			if tier == "thorough" {
				return true, "all byte strings of length <= 3 (or the target's fixed size) per target; longer inputs sampled"
			}
			return true, "all byte strings of length <= 2 per target; longer inputs sampled"
		},
	}
	p.Floors = func(tier string, cov map[string]map[string]int64, cnt map[string]int64) []string {
		var f []string
		top := 2
		if tier == "thorough" {
			top = 3
		}
		for _, t := range c14Targets {
			for n := 0; n <= top; n++ {
				if t.maxN > 0 && n > t.maxN {
					continue
				}
				base := int64(256)
				if t.text {
					base = int64(len(c14Alphabet))
				}
				want := int64(1)
				for i := 0; i < n; i++ {
					want *= base
				}
				if got := cov["len"][fmt.Sprintf("%s/%d", t.name, n)]; got != want {
					f = append(f, fmt.Sprintf("%s: %d of %d inputs of length %d", t.name, got, want, n))
				}
			}
			if cov["generated"][t.name] == 0 || (!t.text && cov["structured"][t.name] == 0) {
				f = append(f, t.name+": no generated / structured inputs")
			}
		}
		sort.Strings(f)
		if len(f) > 10 {
			f = append(f[:10], fmt.Sprintf("… and %d more", len(f)-10))
		}
		return f
	}
	p.Units = func(tier string) []core.Unit {
		var us []core.Unit
		top := 2
		if tier == "thorough" {
			top = 3
		}
		for ti := range c14Targets {
			t := &c14Targets[ti]
			base := 256
			if t.text {
				base = len(c14Alphabet)
			}
			for n := 0; n <= top; n++ {
				if t.maxN > 0 && n > t.maxN {
					continue
				}
				n := n
				chunks := 1
				if n == 3 && !t.text {
					chunks = 16
				}
				for ch := 0; ch < chunks; ch++ {
					lo, hi := ch*base/chunks, (ch+1)*base/chunks
					w := 1
					for i := 0; i < n; i++ {
						w *= 16
					}
					us = append(us, core.Unit{Name: fmt.Sprintf("sweep-%s-%d-%d", t.name, n, ch), Weight: w/chunks + 1, Run: func(c *core.Ctx) {
						c.Do(&core.Case{Oracle: "sweep", Target: t.name, I: []int64{int64(n), int64(lo), int64(hi)}})
						c.NonTrivial(core.HashStr(uint64(n*1000+lo), t.name))
					}})
				}
			}
			us = append(us, core.Unit{Name: "gen-" + t.name, Weight: 30, Run: func(c *core.Ctx) {
				for i := 0; i < c.Pick(3000, 100000); i++ {
					k := &core.Case{Oracle: "one", Target: t.name, B: [][]byte{c14Grammar(c.R, t, i)}}
					c.Do(k)
					if len(k.B[0]) > 0 {
						c.NonTrivial(k.Hash())
					}
					c.Sample(k.Brief())
				}
				c.Cover("generated", t.name)
				if !t.text {
					st := c14Structured(c.R)
					for _, b := range st {
						k := &core.Case{Oracle: "one", Target: t.name, B: [][]byte{b}}
						c.Do(k)
						c.NonTrivial(k.Hash())
					}
					c.CoverN("structured", t.name, int64(len(st)))
				}
			}})
		}
		for ti := range c14Targets {
			t := &c14Targets[ti]
			us = append(us, core.Unit{Name: "tokens-" + t.name, Weight: 20, Run: func(c *core.Ctx) {
				// every arrangement of the string / character literals that occur together in one
				// function of the tree (separators, labels, suffixes), with and without digits between
				n := 0
				for gi, g := range reg.DictGroups {
					if len(g) > 6 && !c.Thorough() {
						continue
					}
					for _, w := range []int{0, 3, 2} {
						if !c.Thorough() && w == 2 && gi%2 == 0 {
							continue
						}
						tokenPerms(g, w, c.R, func(txt []byte) {
							in := txt
							if !t.text {
								in = append([]byte{[]byte{0x11, 0x01, 0x21, 0x19}[n%4]}, txt...)
							}
							n++
							k := &core.Case{Oracle: "one", Target: t.name, B: [][]byte{in}}
							c.Do(k)
							if n%64 == 0 {
								c.NonTrivial(k.Hash())
							}
						})
					}
				}
				c.Count("token_arrangements", int64(n))
			}})
		}
		us = append(us, core.Unit{Name: "concurrent-cold", Weight: 30, Fresh: true, Run: func(c *core.Ctx) {
			for ti := range c14Targets {
				t := &c14Targets[ti]
				k := &core.Case{Oracle: "concurrent-cold", Target: t.name, I: []int64{int64(c.R.Uint64() >> 1), 8, int64(c.Pick(300, 3000))}}
				c.Do(k)
				c.NonTrivial(k.Hash())
			}
		}})
		us = append(us, core.Unit{Name: "verbose-logging", Weight: 30, Run: func(c *core.Ctx) {
			for ti := range c14Targets {
				t := &c14Targets[ti]
				for i := 0; i < c.Pick(400, 5000); i++ {
					in := c14Grammar(c.R, t, i)
					if i < 40 {
						in = c.R.Bytes(i % 5)
					}
					c.Do(&core.Case{Oracle: "one", Target: t.name, B: [][]byte{in}, I: []int64{2}})
				}
			}
		}})
		us = append(us, coldEntryUnits(tier, "nasConvert", "ident", "lists", "misc")...)
		return us
	}
	core.Register(p)
}
