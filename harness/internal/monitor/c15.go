package monitor

import (
	"bytes"
	"fmt"
	"net"
	"reflect"

	"github.com/free5gc/nas/nasType"

	"verifharness/internal/core"
	"verifharness/internal/prng"
	"verifharness/internal/refconv"
	"verifharness/internal/reg"
)

// C15 — QoS rules and QoS flow descriptions: total parser, exact round trip.

func u16(b []byte) uint16 { return uint16(b[0])<<8 | uint16(b[1]) }

// libComp builds the library's component value for a reference component.
func libComp(q refconv.QComp) nasType.PacketFilterComponent {
	v := q.Val
	switch q.Type {
	case 0x01:
		return &nasType.PacketFilterMatchAll{}
	case 0x10:
		return &nasType.PacketFilterIPv4RemoteAddress{Address: net.IP(cloneB(v[0:4])), Mask: net.IPMask(cloneB(v[4:8]))}
	case 0x11:
		return &nasType.PacketFilterIPv4LocalAddress{Address: net.IP(cloneB(v[0:4])), Mask: net.IPMask(cloneB(v[4:8]))}
	case 0x30:
		return &nasType.PacketFilterProtocolIdentifier{Value: v[0]}
	case 0x40:
		return &nasType.PacketFilterSingleLocalPort{Value: u16(v)}
	case 0x41:
		return &nasType.PacketFilterLocalPortRange{LowLimit: u16(v), HighLimit: u16(v[2:])}
	case 0x50:
		return &nasType.PacketFilterSingleRemotePort{Value: u16(v)}
	case 0x51:
		return &nasType.PacketFilterRemotePortRange{LowLimit: u16(v), HighLimit: u16(v[2:])}
	case 0x60:
		return &nasType.PacketFilterSecurityParameterIndex{Index: uint32(v[0])<<24 | uint32(v[1])<<16 | uint32(v[2])<<8 | uint32(v[3])}
	case 0x70:
		return &nasType.PacketFilterServiceClass{Class: v[0], Mask: v[1]}
	case 0x80:
		return &nasType.PacketFilterFlowLabel{Label: uint32(v[0])<<16 | uint32(v[1])<<8 | uint32(v[2])}
	case 0x81:
		return &nasType.PacketFilterDestinationMACAddress{MAC: net.HardwareAddr(cloneB(v))}
	case 0x82:
		return &nasType.PacketFilterSourceMACAddress{MAC: net.HardwareAddr(cloneB(v))}
	case 0x83:
		return &nasType.PacketFilterCTagVID{VID: u16(v)}
	case 0x84:
		return &nasType.PacketFilterSTagVID{VID: u16(v)}
	case 0x85:
		return &nasType.PacketFilterCTagPCPDEI{Value: v[0]}
	case 0x86:
		return &nasType.PacketFilterSTagPCPDEI{Value: v[0]}
	case 0x87:
		return &nasType.PacketFilterEtherType{EtherType: u16(v)}
	}
	return nil
}

// arenaRules rebuilds every byte-slice valued component field (addresses, masks,
// MAC addresses) of a rule list as a sub-slice of ONE backing array, values laid
// out one after the other, each slice keeping the rest of the array as spare
// capacity — what a caller gets who cuts the values out of a received buffer.
// intact() reports whether the backing array still holds what was put there.
func arenaRules(lr nasType.QoSRules) (intact func() bool) {
	var fields []*[]byte
	for i := range lr {
		for j := range lr[i].PacketFilterList {
			for _, cp := range lr[i].PacketFilterList[j].Components {
				switch x := cp.(type) {
				case *nasType.PacketFilterIPv4RemoteAddress:
					fields = append(fields, (*[]byte)(&x.Address), (*[]byte)(&x.Mask))
				case *nasType.PacketFilterIPv4LocalAddress:
					fields = append(fields, (*[]byte)(&x.Address), (*[]byte)(&x.Mask))
				case *nasType.PacketFilterDestinationMACAddress:
					fields = append(fields, (*[]byte)(&x.MAC))
				case *nasType.PacketFilterSourceMACAddress:
					fields = append(fields, (*[]byte)(&x.MAC))
				}
			}
		}
	}
	total := 0
	for _, f := range fields {
		total += len(*f)
	}
	arena := make([]byte, total+16)
	for i := range arena {
		arena[i] = 0xa5
	}
	off := 0
	// reverse order: what lies behind an address is then never its own mask
	for i, j := 0, len(fields)-1; i < j; i, j = i+1, j-1 {
		fields[i], fields[j] = fields[j], fields[i]
	}
	for _, f := range fields {
		n := len(*f)
		copy(arena[off:], *f)
		*f = arena[off : off+n] // capacity runs to the end of the arena
		off += n
	}
	snap := cloneB(arena)
	return func() bool { return bytes.Equal(arena, snap) }
}

func libRules(rs []refconv.QRule) nasType.QoSRules {
	out := nasType.QoSRules{}
	for i, r := range rs {
		lr := nasType.QoSRule{Identifier: r.ID, Operation: nasType.QoSRuleOperationCode(r.Op), DQR: r.DQR, Precedence: r.Prec, Segregation: r.Seg, QFI: r.QFI}
		if i > 0 && len(r.Filters) > 0 && len(rs[i-1].Filters) == len(r.Filters) && &r.Filters[0] == &rs[i-1].Filters[0] {
			// the model shares one filter list between the two rules: so does the library value
			lr.PacketFilterList = out[i-1].PacketFilterList
			out = append(out, lr)
			continue
		}
		for _, f := range r.Filters {
			lf := nasType.PacketFilter{Identifier: f.ID, Direction: nasType.PacketFilterDirection(f.Dir)}
			for _, q := range f.Comps {
				lf.Components = append(lf.Components, libComp(q))
			}
			lr.PacketFilterList = append(lr.PacketFilterList, lf)
		}
		out = append(out, lr)
	}
	return out
}

// modelRules converts what the library parsed back into the reference model by
// re-serialising each component through its own MarshalBinary.
func modelRules(lr nasType.QoSRules) ([]refconv.QRule, error) {
	var out []refconv.QRule
	for _, r := range lr {
		m := refconv.QRule{ID: r.Identifier, Op: byte(r.Operation), DQR: r.DQR, Prec: r.Precedence, Seg: r.Segregation, QFI: r.QFI}
		for _, f := range r.PacketFilterList {
			mf := refconv.QFilter{ID: f.Identifier, Dir: byte(f.Direction)}
			for _, cp := range f.Components {
				v, err := cp.MarshalBinary()
				if err != nil {
					return nil, err
				}
				mf.Comps = append(mf.Comps, refconv.QComp{Type: byte(cp.Type()), Val: v})
			}
			m.Filters = append(m.Filters, mf)
		}
		out = append(out, m)
	}
	return out, nil
}

func rulesEqual(a, b []refconv.QRule) string {
	if len(a) != len(b) {
		return fmt.Sprintf("%d rules vs %d", len(a), len(b))
	}
	for i := range a {
		x, y := a[i], b[i]
		if x.ID != y.ID || x.Op != y.Op || x.DQR != y.DQR || x.Prec != y.Prec || x.Seg != y.Seg || x.QFI != y.QFI || len(x.Filters) != len(y.Filters) {
			return fmt.Sprintf("rule %d: %+v vs %+v", i, x, y)
		}
		for j := range x.Filters {
			f, g := x.Filters[j], y.Filters[j]
			if f.ID != g.ID || (x.Op != 5 && f.Dir != g.Dir) || len(f.Comps) != len(g.Comps) {
				return fmt.Sprintf("rule %d filter %d: %+v vs %+v", i, j, f, g)
			}
			for q := range f.Comps {
				if f.Comps[q].Type != g.Comps[q].Type || !bytes.Equal(f.Comps[q].Val, g.Comps[q].Val) {
					return fmt.Sprintf("rule %d filter %d component %d: %+v vs %+v", i, j, q, f.Comps[q], g.Comps[q])
				}
			}
		}
	}
	return ""
}

// normRules is what a parser can recover: a "delete packet filters" rule carries
// bare identifiers, whatever the list it was built from holds besides.
func normRules(rs []refconv.QRule) []refconv.QRule {
	out := make([]refconv.QRule, len(rs))
	for i, r := range rs {
		out[i] = r
		if r.Op == 5 {
			out[i].Filters = nil
			for _, f := range r.Filters {
				out[i].Filters = append(out[i].Filters, refconv.QFilter{ID: f.ID})
			}
		}
	}
	return out
}

func genRules(r *prng.Rand, n int, compCycle int) []refconv.QRule {
	var out []refconv.QRule
	for i := 0; i < n; i++ {
		ru := refconv.QRule{ID: r.Byte(), Op: byte(1 + r.Intn(6)), DQR: r.Bool(), Prec: r.Byte(), Seg: r.Bool(), QFI: byte(r.Intn(64))}
		nf := 0
		switch ru.Op {
		case 1, 3, 4:
			nf = r.Intn(4)
			if r.Chance(1, 10) {
				nf = 15
			}
		case 5:
			nf = r.Intn(16)
		}
		if i > 0 && len(out[i-1].Filters) > 0 && r.Chance(1, 5) {
			// one filter list used by two consecutive rules (create these filters / delete
			// these filters, or the same filters under two rule identifiers): the SAME slice
			ru.Filters = out[i-1].Filters
			if ru.Op != 5 && out[i-1].Op == 5 {
				ru.Op = 5 // a list of bare identifiers has no contents to give to a non-delete rule
			}
			out = append(out, ru)
			continue
		}
		for j := 0; j < nf; j++ {
			f := refconv.QFilter{ID: byte(r.Intn(16)), Dir: byte(1 + r.Intn(3))}
			if ru.Op != 5 {
				nc := r.Range(1, 4)
				big := r.Chance(1, 6) // one filter whose contents take 128..255 octets
				if big {
					nc = 64
				}
				size := 0
				for q := 0; q < nc; q++ {
					t := refconv.CompTypes[(compCycle+i+j+q+r.Intn(3))%len(refconv.CompTypes)]
					sz, _ := refconv.CompSize(t)
					if big {
						if size+1+sz > 255 {
							if size >= 128 {
								break
							}
							continue
						}
						if size >= 128 && r.Chance(1, 4) {
							break
						}
					}
					size += 1 + sz
					v := qosParamValue(r, sz)
					switch t {
					case 0x80: // flow label: 20 bits
						v[0] &= 0x0f
						if r.Chance(1, 3) {
							v[0] |= 0x08 // labels of 2^19 and above are valid
						}
					case 0x83, 0x84: // VID: 12 bits
						v[0] &= 0x0f
					}
					f.Comps = append(f.Comps, refconv.QComp{Type: t, Val: v})
				}
			} else {
				f.Dir = 0
			}
			ru.Filters = append(ru.Filters, f)
		}
		out = append(out, ru)
	}
	return out
}

// oracle "rules-roundtrip": I=[seed, nRules, compCycle]
func c15Rules(c *core.Ctx, k *core.Case) {
	r := prng.New(uint64(k.I[0]))
	model := genRules(r, int(k.I[1]), int(k.I[2]))
	want := refconv.SerializeRules(model)
	c.Eval(1)
	lib := libRules(model)
	valuesIntact := func() bool { return true }
	if k.I[0]&1 == 1 {
		valuesIntact = arenaRules(lib)
	}
	if k.I[0]&6 == 6 {
		// before it: a list the library has to refuse (a flow label of 21 bits, an address of
		// three octets, a VLAN id of 13 bits) - what a refused call leaves behind must not show
		// in the next one
		bad := nasType.QoSRules{{Identifier: 1, Operation: 1, QFI: 1, PacketFilterList: nasType.PacketFilterList{{Identifier: 1, Direction: 3, Components: nasType.PacketFilterComponentList{
			&nasType.PacketFilterProtocolIdentifier{Value: 17},
			[]nasType.PacketFilterComponent{
				&nasType.PacketFilterFlowLabel{Label: 1<<20 + uint32(k.I[0]>>3&0xffff)},
				&nasType.PacketFilterIPv4RemoteAddress{Address: net.IP{10, 0, 1}, Mask: net.IPMask{255, 255, 255, 0}},
				&nasType.PacketFilterCTagVID{VID: 0x1fff},
			}[k.I[0]>>3%3],
		}}}}}
		_, berr := bad.MarshalBinary()
		c.Count("refused_marshals_before_a_case", 1)
		if berr == nil {
			c.Count("ill_formed_lists_marshalled_without_error", 1)
		}
	}
	got, err := lib.MarshalBinary()
	c.Hold(k, "nasType.QoSRules.MarshalBinary", got)
	if !valuesIntact() {
		c.Fail(k, "rules-marshal-modifies-value", fmt.Sprintf("MarshalBinary wrote into the memory of the list's own address / mask / MAC values (values cut out of one backing array, each with spare capacity); output %s, reference %s", hx(got), hx(want)))
		return
	}
	if err != nil {
		c.Fail(k, "rules-marshal-error", fmt.Sprintf("MarshalBinary of a well-formed rule list failed: %v (reference bytes %s)", err, hx(want)))
		return
	}
	if _, owned := ownedTwice(func() []byte { b, _ := lib.MarshalBinary(); return b }); owned != "" {
		c.Fail(k, "result-not-owned:QoSRules.MarshalBinary", owned)
	}

	if again, err2 := lib.MarshalBinary(); err2 != nil || !bytes.Equal(again, got) {
		c.Fail(k, "rules-marshal-not-repeatable", fmt.Sprintf("a second MarshalBinary of the same list gives %s (err %v), the first gave %s", hx(again), err2, hx(got)))
	}
	if !bytes.Equal(got, want) {
		c.Fail(k, "rules-layout", fmt.Sprintf("QoSRules.MarshalBinary = %s, TS 24.501 9.11.4.13 layout %s", hx(got), hx(want)))
		return
	}
	var back nasType.QoSRules
	if err := back.UnmarshalBinary(cloneB(want)); err != nil {
		c.Fail(k, "rules-unmarshal-error", fmt.Sprintf("UnmarshalBinary(%s): %v", hx(want), err))
		return
	}
	// a value taken from the receiver variable stays what it was when the variable is decoded into again
	{
		var rx nasType.QoSRules
		if err := rx.UnmarshalBinary(cloneB(want)); err == nil {
			probe := takeDetached(&rx)
			other := refconv.SerializeRules(genRules(r, 1+r.Intn(3), int(k.I[2])+1))
			_ = rx.UnmarshalBinary(other)
			if probe.changed() {
				c.Fail(k, "earlier-decoded-value-changed:QoSRules", "a rule list copied out of the receiver variable changed when the variable was decoded into again (the new list was written over the array the earlier result still points to)")
			}
		}
	}
	{
		var rx nasType.QoSRules
		if err := rx.UnmarshalBinary(cloneB(want)); err == nil {
			if changed, spare := appendProbeLists(reflect.ValueOf(&rx)); changed {
				c.Fail(k, "append-reaches-neighbour:QoSRules", fmt.Sprintf("appending one element to each of the %d lists with spare capacity inside the parsed rules (result discarded) changed another part of the parsed value (input %s)", spare, hx(want)))
			} else if spare > 0 {
				c.Count("list_append_probes", int64(spare))
			}
		}
	}
	if err := back.UnmarshalBinary(cloneB(want)); err != nil || len(back) != len(model) {
		c.Fail(k, "rules-unmarshal-into-reused-receiver", fmt.Sprintf("a second UnmarshalBinary into the same value gives %d rules (err %v), the list has %d", len(back), err, len(model)))
		return
	}
	bm, err := modelRules(back)
	if err != nil {
		c.Fail(k, "rules-roundtrip", "parsed list does not re-marshal: "+err.Error())
		return
	}
	if d := rulesEqual(normRules(model), bm); d != "" {
		c.Fail(k, "rules-roundtrip", fmt.Sprintf("parse(serialise(x)) != x: %s (bytes %s)", d, hx(want)))
	}
	for _, ru := range model {
		c.Cover("rule_op", fmt.Sprint(ru.Op))
		for _, f := range ru.Filters {
			sz := 0
			for _, q := range f.Comps {
				sz += 1 + len(q.Val)
			}
			if sz >= 128 {
				c.Cover("filter_contents", "128..255 octets")
			}
			for _, q := range f.Comps {
				c.Cover("component", fmt.Sprintf("%#02x", q.Type))
			}
		}
	}
}

func libParam(p refconv.QParam) nasType.QoSFlowParameter {
	v := p.Val
	switch p.ID {
	case 1:
		return &nasType.QoSFlow5QI{FiveQI: v[0]}
	case 2:
		return &nasType.QoSFlowGFBRUplink{Unit: nasType.QoSFlowBitRateUnit(v[0]), Value: u16(v[1:])}
	case 3:
		return &nasType.QoSFlowGFBRDownlink{Unit: nasType.QoSFlowBitRateUnit(v[0]), Value: u16(v[1:])}
	case 4:
		return &nasType.QoSFlowMFBRUplink{Unit: nasType.QoSFlowBitRateUnit(v[0]), Value: u16(v[1:])}
	case 5:
		return &nasType.QoSFlowMFBRDownlink{Unit: nasType.QoSFlowBitRateUnit(v[0]), Value: u16(v[1:])}
	case 6:
		return &nasType.QoSFlowAveragingWindow{AverageWindow: u16(v)}
	case 7:
		return &nasType.QoSFlowEBI{EBI: v[0]}
	}
	return nil
}

// qosParamValue picks the sz octets of a parameter value: random octets, or a number
// written big-endian in the last one or two octets — 0, 1, the maximum, or one of
// the integer literals the QoS sources of the tree mention (and its neighbours).
func qosParamValue(r *prng.Rand, sz int) []byte {
	val := r.Bytes(sz)
	if sz == 0 || r.Bool() {
		return val
	}
	w := sz
	if w > 2 {
		w = 2
	}
	max := uint64(1)<<(8*uint(w)) - 1
	cands := []uint64{0, 1, max}
	if r.Bool() {
		var lits []uint64
		for _, f := range []string{"nasType/qos_flow_desc.go", "nasType/qos_rule.go"} {
			for _, v := range reg.DictFileInts[f] {
				if v <= max && (w == 1 || v > 255) {
					lits = append(lits, v)
				}
			}
		}
		if len(lits) > 0 {
			cands = lits
		}
	}
	v := cands[r.Intn(len(cands))]
	if r.Chance(1, 4) {
		v = (v + uint64(r.Intn(3)) - 1) & max
	}
	for i := 0; i < w; i++ {
		val[sz-1-i] = byte(v >> (8 * uint(i)))
	}
	return val
}

func genDescs(r *prng.Rand, n int) []refconv.QDesc {
	var out []refconv.QDesc
	for i := 0; i < n; i++ {
		d := refconv.QDesc{QFI: byte(r.Intn(64)), Op: byte(1 + r.Intn(3))}
		np := 0
		if d.Op != 2 {
			np = r.Intn(8)
			if r.Chance(1, 12) {
				np = 63
			}
		}
		for j := 0; j < np; j++ {
			id := byte(1 + (i+j+r.Intn(2))%7)
			sz, _ := refconv.ParamSize(id)
			d.Params = append(d.Params, refconv.QParam{ID: id, Val: qosParamValue(r, sz)})
		}
		out = append(out, d)
	}
	return out
}

// oracle "descs-roundtrip": I=[seed, n]
func c15Descs(c *core.Ctx, k *core.Case) {
	r := prng.New(uint64(k.I[0]))
	model := genDescs(r, int(k.I[1]))
	want := refconv.SerializeDescs(model)
	lib := nasType.QoSFlowDescs{}
	for _, d := range model {
		ld := nasType.QoSFlowDesc{QFI: d.QFI, OperationCode: nasType.QoSFlowOperationCode(d.Op)}
		for _, p := range d.Params {
			ld.Parameters = append(ld.Parameters, libParam(p))
		}
		lib = append(lib, ld)
	}
	c.Eval(1)
	got, err := lib.MarshalBinary()
	c.Hold(k, "nasType.QoSFlowDescs.MarshalBinary", got)
	if err != nil || !bytes.Equal(got, want) {
		c.Fail(k, "descs-layout", fmt.Sprintf("QoSFlowDescs.MarshalBinary = %s (%v), TS 24.501 9.11.4.12 layout %s", hx(got), err, hx(want)))
		return
	}
	if _, owned := ownedTwice(func() []byte { b, _ := lib.MarshalBinary(); return b }); owned != "" {
		c.Fail(k, "result-not-owned:QoSFlowDescs.MarshalBinary", owned)
	}
	if again, err2 := lib.MarshalBinary(); err2 != nil || !bytes.Equal(again, got) {
		c.Fail(k, "descs-marshal-not-repeatable", fmt.Sprintf("a second MarshalBinary of the same list gives %s (err %v), the first gave %s", hx(again), err2, hx(got)))
	}
	var back nasType.QoSFlowDescs
	if err := back.UnmarshalBinary(cloneB(want)); err != nil {
		c.Fail(k, "descs-unmarshal-error", fmt.Sprintf("UnmarshalBinary(%s): %v", hx(want), err))
		return
	}
	if len(back) != len(model) {
		c.Fail(k, "descs-roundtrip", fmt.Sprintf("%d descriptions parsed, %d serialised (bytes %s)", len(back), len(model), hx(want)))
		return
	}
	{
		var rx nasType.QoSFlowDescs
		if err := rx.UnmarshalBinary(cloneB(want)); err == nil {
			probe := takeDetached(&rx)
			other := refconv.SerializeDescs(genDescs(r, 1+r.Intn(3)))
			_ = rx.UnmarshalBinary(other)
			if probe.changed() {
				c.Fail(k, "earlier-decoded-value-changed:QoSFlowDescs", "a description list copied out of the receiver variable changed when the variable was decoded into again (the new list was written over the array the earlier result still points to)")
			}
		}
	}
	{
		var rx nasType.QoSFlowDescs
		if err := rx.UnmarshalBinary(cloneB(want)); err == nil {
			if changed, spare := appendProbeLists(reflect.ValueOf(&rx)); changed {
				c.Fail(k, "append-reaches-neighbour:QoSFlowDescs", fmt.Sprintf("appending one element to each of the %d lists with spare capacity inside the parsed descriptions (result discarded) changed another part of the parsed value (input %s)", spare, hx(want)))
			} else if spare > 0 {
				c.Count("list_append_probes", int64(spare))
			}
		}
	}
	for i, d := range model {
		b := back[i]
		if b.QFI != d.QFI || byte(b.OperationCode) != d.Op || len(b.Parameters) != len(d.Params) {
			c.Fail(k, "descs-roundtrip", fmt.Sprintf("description %d: %+v vs %+v", i, b, d))
			return
		}
		for j, p := range d.Params {
			v, err := b.Parameters[j].MarshalBinary()
			if err != nil || byte(b.Parameters[j].Identifier()) != p.ID || !bytes.Equal(v, p.Val) {
				c.Fail(k, "descs-roundtrip", fmt.Sprintf("description %d parameter %d: id %d value %x (%v), want id %d value %x", i, j, b.Parameters[j].Identifier(), v, err, p.ID, p.Val))
				return
			}
			c.Cover("parameter", fmt.Sprint(p.ID))
		}
		c.Cover("desc_op", fmt.Sprint(d.Op))
	}
}

// oracle "unknown-id": I=[seed, kind(0 rules,1 descs)] — a well-formed list in which
// one component type / parameter identifier is replaced by an undefined one.
func c15UnknownID(c *core.Ctx, k *core.Case) {
	r := prng.New(uint64(k.I[0]))
	c.Eval(1)
	if k.I[1] == 0 {
		bad := []byte{0x00, 0x02, 0x12, 0x20, 0x21, 0x23, 0x31, 0x42, 0x61, 0x88, 0x90, 0xff}[r.Intn(12)]
		ru := refconv.QRule{ID: 1, Op: 1, Prec: 9, QFI: 5, Filters: []refconv.QFilter{{ID: 1, Dir: 3, Comps: []refconv.QComp{{Type: 0x30, Val: []byte{17}}, {Type: bad, Val: r.Bytes(r.Intn(5))}}}}}
		if r.Bool() {
			ru.Filters[0].Comps = ru.Filters[0].Comps[1:]
		}
		b := refconv.SerializeRules([]refconv.QRule{ru})
		var out nasType.QoSRules
		if err := out.UnmarshalBinary(b); err == nil {
			c.Fail(k, "unknown-component-accepted", fmt.Sprintf("QoSRules.UnmarshalBinary(%x) with component type %#02x returned no error", b, bad))
		}
		return
	}
	bad := []byte{0x00, 0x08, 0x09, 0x10, 0x7f, 0x80, 0xff}[r.Intn(7)]
	d := refconv.QDesc{QFI: 5, Op: 1, Params: []refconv.QParam{{ID: 1, Val: []byte{9}}, {ID: bad, Val: r.Bytes(r.Intn(4))}}}
	if r.Bool() {
		d.Params = d.Params[1:]
	}
	b := refconv.SerializeDescs([]refconv.QDesc{d})
	var out nasType.QoSFlowDescs
	if err := out.UnmarshalBinary(b); err == nil {
		c.Fail(k, "unknown-parameter-accepted", fmt.Sprintf("QoSFlowDescs.UnmarshalBinary(%x) with parameter identifier %#02x returned no error", b, bad))
	}
}

// oracle "total": B=[bytes] I=[kind]
func c15Total(c *core.Ctx, k *core.Case) {
	c.Eval(1)
	parse := func(b []byte) uint64 {
		if k.I[0] == 0 {
			var out nasType.QoSRules
			err := out.UnmarshalBinary(b)
			return digestOf(err, &out)
		}
		var out nasType.QoSFlowDescs
		err := out.UnmarshalBinary(b)
		return digestOf(err, &out)
	}
	if !capacityIndependent(k.B[0], parse) {
		c.Fail(k, "parse-depends-on-capacity", fmt.Sprintf("the %d octets %s parse differently from a slice of exactly that capacity and from the prefix of a larger array", len(k.B[0]), hx(k.B[0])))
	}
}

// oracle "total-sweep": I=[kind, len, lo, hi] — all strings of that length with first octet in [lo,hi)
func c15Sweep(c *core.Ctx, k *core.Case) {
	n := int(k.I[1])
	cur := &core.Case{Oracle: "total", Target: k.Target, B: [][]byte{make([]byte, n)}, I: []int64{k.I[0]}}
	var cnt int64
	run := func() {
		c.J.Write(cur)
		func() {
			defer func() {
				if r := recover(); r != nil {
					c.Fail(&core.Case{Oracle: "total", Target: k.Target, B: [][]byte{cloneB(cur.B[0])}, I: []int64{k.I[0]}}, "panic:"+core.PanicClass(r), fmt.Sprintf("panic on %x: %v", cur.B[0], r))
				}
			}()
			if k.I[0] == 0 {
				var out nasType.QoSRules
				_ = out.UnmarshalBinary(cur.B[0])
			} else {
				var out nasType.QoSFlowDescs
				_ = out.UnmarshalBinary(cur.B[0])
			}
		}()
		cnt++
	}
	switch n {
	case 0:
		run()
	case 1:
		for a := int(k.I[2]); a < int(k.I[3]); a++ {
			cur.B[0][0] = byte(a)
			run()
		}
	case 2:
		for a := int(k.I[2]); a < int(k.I[3]); a++ {
			for b := 0; b < 256; b++ {
				cur.B[0][0], cur.B[0][1] = byte(a), byte(b)
				run()
			}
		}
	case 3:
		for a := int(k.I[2]); a < int(k.I[3]); a++ {
			for b := 0; b < 256; b++ {
				for d := 0; d < 256; d++ {
					cur.B[0][0], cur.B[0][1], cur.B[0][2] = byte(a), byte(b), byte(d)
					run()
				}
			}
		}
	}
	c.Eval(cnt)
	c.CoverN("sweep", fmt.Sprintf("%d/%d", k.I[0], n), cnt)
}

func init() {
	p := &core.Property{
		ID:         "C15",
		Interleave: []string{"rules-roundtrip", "descs-roundtrip", "unknown-id", "total"},
		Rule:       "well-formed QoS rule lists (operations 1–6, 0–15 packet filters, all 18 component types, flow labels over the full 20 bits) and flow-description lists (operations 1–3, 0–63 parameters of the 7 kinds): serialise = reference bytes, parse(serialise(x)) = x; lists in which one component type / parameter identifier is replaced by an undefined one must be rejected; every byte string of length <= 2 (thorough 3) and mutated serialisations for totality. Non-trivial = list with at least one filter/parameter, or a mutated string; distinct by generator seed / bytes.",
		Assumptions: []string{
			"reference (de)serialiser from TS 24.501 9.11.4.12 / 9.11.4.13; the precedence and QFI octets of a 'delete existing QoS rule' are taken as the library emits them",
			"a trailing fragment dropped at end of input is 'a value', not a violation",
			"component values are compared through the component's own MarshalBinary (octet form)",
		},
		Oracles:      map[string]func(*core.Ctx, *core.Case){"cold-entries": coldEntries, "cold-concurrent": coldConcurrent, "rules-roundtrip": c15Rules, "descs-roundtrip": c15Descs, "unknown-id": c15UnknownID, "total": c15Total, "total-sweep": c15Sweep},
		StallSeconds: 30,
		Floors: func(tier string, cov map[string]map[string]int64, cnt map[string]int64) []string {
			var f []string
			for _, t := range refconv.CompTypes {
				if cov["component"][fmt.Sprintf("%#02x", t)] == 0 {
					f = append(f, fmt.Sprintf("component type %#02x never round-tripped", t))
				}
			}
			for id := 1; id <= 7; id++ {
				if cov["parameter"][fmt.Sprint(id)] == 0 {
					f = append(f, fmt.Sprintf("parameter %d never round-tripped", id))
				}
			}
			for op := 1; op <= 6; op++ {
				if cov["rule_op"][fmt.Sprint(op)] == 0 {
					f = append(f, fmt.Sprintf("rule operation %d never seen", op))
				}
			}
			for kd := 0; kd < 2; kd++ {
				for n, want := range []int64{1, 256, 65536} {
					if cov["sweep"][fmt.Sprintf("%d/%d", kd, n)] != want {
						f = append(f, fmt.Sprintf("sweep kind %d length %d incomplete", kd, n))
					}
				}
			}
			return f
		},
	}
	p.Units = func(tier string) []core.Unit {
		var us []core.Unit
		for u := 0; u < 16; u++ {
			u := u
			us = append(us, core.Unit{Name: fmt.Sprintf("roundtrip-%02d", u), Weight: 40, Run: func(c *core.Ctx) {
				for i := 0; i < c.Pick(1500, 40000); i++ {
					k := &core.Case{Oracle: "rules-roundtrip", Target: "nasType.QoSRules", I: []int64{int64(c.R.Uint64() >> 1), int64(c.R.Intn(5)), int64(u + i)}}
					c.Do(k)
					c.NonTrivial(k.Hash())
					c.Sample(k.Brief())
					kd := &core.Case{Oracle: "descs-roundtrip", Target: "nasType.QoSFlowDescs", I: []int64{int64(c.R.Uint64() >> 1), int64(c.R.Intn(5))}}
					c.Do(kd)
					c.NonTrivial(kd.Hash())
					ku := &core.Case{Oracle: "unknown-id", Target: "nasType.QoS", I: []int64{int64(c.R.Uint64() >> 1), int64(i % 2)}}
					c.Do(ku)
					c.NonTrivial(ku.Hash())
					// mutated serialisations for totality
					var b []byte
					if i%2 == 0 {
						b = refconv.SerializeRules(genRules(c.R, 1+c.R.Intn(3), i))
					} else {
						b = refconv.SerializeDescs(genDescs(c.R, 1+c.R.Intn(3)))
					}
					for d := c.R.Range(1, 3); d > 0 && len(b) > 0; d-- {
						switch c.R.Intn(4) {
						case 0:
							b = b[:c.R.Intn(len(b))]
						case 1:
							b[c.R.Intn(len(b))] = c.R.Byte()
						case 2:
							b[c.R.Intn(len(b))] ^= 1 << uint(c.R.Intn(8))
						case 3:
							b = append(b, c.R.Bytes(c.R.Intn(6))...)
						}
					}
					for kind := int64(0); kind < 2; kind++ {
						kt := &core.Case{Oracle: "total", Target: []string{"nasType.QoSRules.UnmarshalBinary", "nasType.QoSFlowDescs.UnmarshalBinary"}[kind], B: [][]byte{b}, I: []int64{kind}}
						c.Do(kt)
						c.NonTrivial(kt.Hash())
					}
				}
			}})
		}
		top := 2
		if tier == "thorough" {
			top = 3
		}
		for kind := int64(0); kind < 2; kind++ {
			kind := kind
			tn := []string{"nasType.QoSRules.UnmarshalBinary", "nasType.QoSFlowDescs.UnmarshalBinary"}[kind]
			for n := 0; n <= top; n++ {
				n := n
				chunks := 1
				if n == 3 {
					chunks = 16
				}
				for ch := 0; ch < chunks; ch++ {
					lo, hi := ch*256/chunks, (ch+1)*256/chunks
					us = append(us, core.Unit{Name: fmt.Sprintf("sweep-%d-%d-%d", kind, n, ch), Weight: 1 + n*n*n*10, Run: func(c *core.Ctx) {
						c.Do(&core.Case{Oracle: "total-sweep", Target: tn, I: []int64{kind, int64(n), int64(lo), int64(hi)}})
					}})
				}
			}
		}
		us = append(us, coldUnits(tier, "nasType", "qos", "handoff", "shared-parse", "bad-input")...)
		us = append(us, coldEntryUnits(tier, "nasType", "qos")...)
		return us
	}
	core.Register(p)
}
