package monitor

import (
	"fmt"
	"sort"

	"github.com/free5gc/nas/uePolicyContainer"

	"verifharness/internal/core"
	"verifharness/internal/prng"
)

// C20 — policy-section ID allocator.
//
// History monitor: every operation on a real IDGenerator is logged as an event
// (operation, arguments, returned id / error, and the hidden state exposed by
// hook H1). The checker judges each event against a live-set model. Histories
// come from bounded-depth enumeration over small ranges and from long random
// runs on ranges up to 64.

type c20Op struct {
	kind int // 0 Allocate, 1 Allocate_inRange(a,b), 2 FreeID(a)
	a, b int64
}

func (o c20Op) String() string {
	switch o.kind {
	case 0:
		return "Allocate()"
	case 1:
		return fmt.Sprintf("Allocate_inRange(%d,%d)", o.a, o.b)
	}
	return fmt.Sprintf("FreeID(%d)", o.a)
}

type c20Event struct {
	op     c20Op
	id     int64
	failed bool
	// H1
	hMin, hMax, hOff int64
	hUsed            []int64
}

func c20Apply(g *uePolicyContainer.IDGenerator, op c20Op, hook bool) c20Event {
	e := c20Event{op: op}
	switch op.kind {
	case 0:
		id, err := g.Allocate()
		e.id, e.failed = id, err != nil
	case 1:
		id, err := g.Allocate_inRange(op.a, op.b)
		e.id, e.failed = id, err != nil
	case 2:
		g.FreeID(op.a)
	}
	if hook {
		e.hMin, e.hMax, e.hOff, e.hUsed = g.VerifState()
	}
	return e
}

// c20Model is the sequential specification: the set of live identifiers.
type c20Model struct {
	min, max int64
	live     map[int64]bool
}

func (m *c20Model) clone() *c20Model {
	n := &c20Model{min: m.min, max: m.max, live: make(map[int64]bool, len(m.live))}
	for k := range m.live {
		n.live[k] = true
	}
	return n
}

// step judges one event and advances the model. It returns "" or a complaint.
func (m *c20Model) step(e *c20Event, hook bool) (sig, msg string) {
	rng := m.max - m.min + 1
	switch e.op.kind {
	case 0, 1:
		name := []string{"Allocate", "Allocate_inRange"}[e.op.kind]
		if e.failed {
			if e.op.kind == 0 && int64(len(m.live)) < rng {
				return "spurious-exhaustion", fmt.Sprintf("%s failed with %d of %d identifiers live", e.op, len(m.live), rng)
			}
		} else {
			if e.id < m.min || e.id > m.max {
				return "out-of-bounds:" + name, fmt.Sprintf("%s returned %d outside [%d,%d]", e.op, e.id, m.min, m.max)
			}
			if m.live[e.id] {
				return "live-id-reissued:" + name, fmt.Sprintf("%s returned %d which is still live (live=%v)", e.op, e.id, m.sorted())
			}
			m.live[e.id] = true
		}
	case 2:
		delete(m.live, e.op.a)
	}
	if hook {
		if e.hMin != m.min || e.hMax != m.max {
			return "hook:bounds-changed", fmt.Sprintf("after %s bounds are [%d,%d], configured [%d,%d]", e.op, e.hMin, e.hMax, m.min, m.max)
		}
		if e.hOff < 0 || e.hOff >= rng {
			return "hook:offset-out-of-range", fmt.Sprintf("after %s scan offset %d not in [0,%d)", e.op, e.hOff, rng)
		}
		if len(e.hUsed) != len(m.live) {
			return "hook:used-set-differs", fmt.Sprintf("after %s used offsets %v, model live ids %v", e.op, e.hUsed, m.sorted())
		}
		for _, u := range e.hUsed {
			if !m.live[u+m.min] {
				return "hook:used-set-differs", fmt.Sprintf("after %s used offsets %v, model live ids %v", e.op, e.hUsed, m.sorted())
			}
		}
	}
	return "", ""
}

func (m *c20Model) sorted() []int64 {
	var s []int64
	for k := range m.live {
		s = append(s, k)
	}
	sort.Slice(s, func(i, j int) bool { return s[i] < s[j] })
	return s
}

func c20Alphabet(min, max int64, full bool) []c20Op {
	ops := []c20Op{{kind: 0}}
	if full {
		for a := int64(0); a <= max+1; a++ {
			for b := a; b <= max+1; b++ {
				ops = append(ops, c20Op{1, a, b})
			}
		}
		for x := min - 1; x <= max+1; x++ {
			ops = append(ops, c20Op{2, x, 0})
		}
	} else {
		for x := min; x <= max; x++ {
			ops = append(ops, c20Op{2, x, 0})
		}
		for o := int64(0); o <= max-min; o++ {
			ops = append(ops, c20Op{1, o, max})
		}
	}
	return ops
}

func c20SeqCase(min, max int64, ops []c20Op) *core.Case {
	k := &core.Case{Oracle: "seq", Target: "uePolicyContainer.IDGenerator", I: []int64{min, max}}
	for _, o := range ops {
		k.I = append(k.I, int64(o.kind), o.a, o.b)
	}
	return k
}

// oracle "seq": I = [min, max, (kind,a,b)*] — one explicit history, whole log checked offline.
func c20Seq(c *core.Ctx, k *core.Case) {
	min, max := k.I[0], k.I[1]
	var ops []c20Op
	for i := 2; i+2 < len(k.I); i += 3 {
		ops = append(ops, c20Op{int(k.I[i]), k.I[i+1], k.I[i+2]})
	}
	g := uePolicyContainer.NewGenerator(min, max)
	log := make([]c20Event, 0, len(ops))
	for _, o := range ops {
		log = append(log, c20Apply(g, o, true))
	}
	m := &c20Model{min: min, max: max, live: map[int64]bool{}}
	for i := range log {
		c.Eval(1)
		if sig, msg := m.step(&log[i], true); sig != "" {
			c.Fail(k, sig, fmt.Sprintf("event %d: %s; history: %v", i, msg, ops))
			return
		}
	}
}

// oracle "enum": I = [min, max, depth, full(0/1), firstOpIndex] — all sequences of
// exactly ≤depth operations starting with the given first symbol.
func c20Enum(c *core.Ctx, k *core.Case) {
	min, max, depth, full, first := k.I[0], k.I[1], int(k.I[2]), k.I[3] == 1, int(k.I[4])
	alpha := c20Alphabet(min, max, full)
	prefix := make([]c20Op, 0, depth)
	var nodes, nontriv int64
	var rec func(m *c20Model, interesting bool)
	rec = func(m *c20Model, interesting bool) {
		if len(prefix) == depth {
			return
		}
		for ai, o := range alpha {
			if len(prefix) == 0 && ai != first {
				continue
			}
			g := uePolicyContainer.NewGenerator(min, max)
			for _, p := range prefix {
				c20Apply(g, p, false)
			}
			e := c20Apply(g, o, true)
			nm := m.clone()
			nodes++
			if nodes&0xfffff == 0 {
				c.J.Tick()
			}
			prefix = append(prefix, o)
			if sig, msg := nm.step(&e, true); sig != "" {
				c.Fail(c20SeqCase(min, max, prefix), sig, fmt.Sprintf("%s; history: %v", msg, prefix))
				prefix = prefix[:len(prefix)-1]
				continue
			}
			in := interesting || e.failed || (o.kind == 2 && m.live[o.a])
			if in && o.kind != 2 {
				nontriv++
				if nontriv <= 200000 {
					c.NonTrivial(c20SeqCase(min, max, prefix).Hash())
				}
				if nontriv&0x3fff == 1 {
					c.Sample(map[string]interface{}{"min": min, "max": max, "history": fmt.Sprint(prefix), "last": map[string]interface{}{"id": e.id, "failed": e.failed, "offset": e.hOff, "used": e.hUsed}})
				}
			}
			if e.failed {
				c.Count("alloc_failures_observed", 1)
			}
			if o.kind != 2 && !e.failed && e.hOff == 0 {
				c.Count("offset_wraps_observed", 1)
			}
			rec(nm, in)
			prefix = prefix[:len(prefix)-1]
		}
	}
	rec(&c20Model{min: min, max: max, live: map[int64]bool{}}, false)
	c.Eval(nodes)
	c.Count("enumerated_histories", nodes)
	c.Count("nontrivial_histories", nontriv)
	c.CoverN("range", fmt.Sprintf("[%d,%d]%s-d%d", min, max, map[bool]string{true: "full", false: "reduced"}[full], depth), nodes)
}

// oracle "random": I = [min, max, seed, length]
func c20Random(c *core.Ctx, k *core.Case) {
	min, max, n := k.I[0], k.I[1], int(k.I[3])
	r := prng.New(uint64(k.I[2]))
	rng := max - min + 1
	g := uePolicyContainer.NewGenerator(min, max)
	if len(k.I) > 4 && k.I[4]&1 == 1 {
		// the allocator is used through a value copy, the way the library's own by-value
		// fields hold it (sub.UpscGenerator = *NewGenerator(min, max)); the original is dropped
		cp := *g
		g = &cp
		c.Cover("allocator_held", "value-copy")
	} else {
		c.Cover("allocator_held", "pointer")
	}
	// Two holders of one allocator: a value copy taken BEFORE the first allocation (the library's
	// own AppendSublist copies the sublist, and with it the by-value allocator), both used
	// afterwards. They are one allocator: the set of live identifiers is common to both.
	gs := []*uePolicyContainer.IDGenerator{g, g}
	twoHolders := len(k.I) > 4 && k.I[4]&2 == 2
	if twoHolders {
		cp2 := *g
		gs[1] = &cp2
		c.Cover("allocator_held", "two-copies")
	}
	log := make([]c20Event, 0, n)
	var liveGuess []int64 // workload-side memory of ids it got, to aim frees at live ids
	mode := r.Intn(3)     // 0 balanced, 1 fill-heavy, 2 churn near full
	wbase := int64(0)
	if rng > 1<<20 || max > 1<<62 {
		wbase = []int64{0, 3, 1 << 16, 1<<32 - 4, 1 << 32, rng - 10, rng - 4, rng - 1}[r.Intn(8)] % rng
		if wbase < 0 {
			wbase = 0
		}
	}
	for i := 0; i < n; i++ {
		var o c20Op
		x := r.Intn(10)
		allocBias := []int{5, 7, 6}[mode]
		switch {
		case x < allocBias:
			o = c20Op{kind: 0}
		case x < allocBias+1:
			var a, b int64
			if rng > 1<<20 || max > 1<<62 {
				// a wide range (or one that ends at the top of int64): everything happens in a window of a few identifiers, so that
				// starts collide with live slots and with the scan offset
				a = wbase + int64(r.Intn(10))
				b = a + int64(r.Intn(6))
			} else {
				a = int64(r.Intn(int(rng) + 1))
				b = a + int64(r.Intn(int(max+1-a)+1))
				if b > max+1 {
					b = max + 1
				}
			}
			if r.Chance(1, 4) {
				// start values far outside the range, up to the top of int64
				const top = int64(^uint64(0) >> 1)
				a = []int64{top, top - 1, top - rng + 1, top - rng, top - 2*rng, 1 << 62, 1<<62 + 1, 1 << 32, 1<<32 - 1, 1 << 31, 1<<31 - 1, rng, rng + 1, 2*rng - 1, 1<<63 - 1 - int64(r.Intn(int(4*rng)))}[r.Intn(15)]
				b = a
				if r.Bool() {
					b = top
				}
			}
			if r.Chance(1, 8) {
				// negative starts, down to the bottom of int64
				const bottom = -int64(^uint64(0)>>1) - 1
				a = []int64{-1, -2, -3, -rng, -rng - 1, -rng + 1, -(1 << 31), -(1 << 62), bottom, bottom + 1}[r.Intn(10)]
				b = a + int64(r.Intn(3))
				if r.Bool() {
					b = int64(r.Intn(5))
				}
			}
			o = c20Op{1, a, b}
			c.Cover("inrange_start", c20StartClass(a, rng))
		default:
			if len(liveGuess) > 0 && r.Chance(4, 5) {
				j := r.Intn(len(liveGuess))
				o = c20Op{2, liveGuess[j], 0}
				liveGuess = append(liveGuess[:j], liveGuess[j+1:]...)
			} else {
				if rng > 1<<20 {
					o = c20Op{2, min + wbase + int64(r.Intn(12)) - 1, 0}
				} else {
					o = c20Op{2, min - 1 + int64(r.Intn(int(rng)+2)), 0}
				}
			}
		}
		e := c20Apply(gs[r.Intn(2)], o, true)
		if o.kind != 2 && !e.failed {
			liveGuess = append(liveGuess, e.id)
		}
		log = append(log, e)
		if i&0x3ff == 0 {
			c.J.Tick()
		}
	}
	// offline check of the recorded history
	m := &c20Model{min: min, max: max, live: map[int64]bool{}}
	effFrees := int64(0)
	for i := range log {
		e := &log[i]
		if e.failed {
			c.Count("alloc_failures_observed", 1)
		}
		if e.op.kind != 2 && !e.failed && e.hOff == 0 {
			c.Count("offset_wraps_observed", 1)
		}
		if e.op.kind == 2 && m.live[e.op.a] {
			effFrees++
		}
		if sig, msg := m.step(e, true); sig != "" {
			// shrink to the prefix that fails and hand it out as an explicit history
			var ops []c20Op
			for j := 0; j <= i; j++ {
				ops = append(ops, log[j].op)
			}
			if twoHolders {
				c.Fail(k, "two-holders:"+sig, fmt.Sprintf("event %d of a history on two value copies of one allocator (copied before the first allocation): %s", i, msg))
				break
			}
			c.Fail(c20SeqCase(min, max, ops), sig, fmt.Sprintf("event %d of random history (seed %d): %s", i, k.I[2], msg))
			break
		}
	}
	c.Eval(int64(len(log)))
	c.Count("random_histories", 1)
	if effFrees > c.Report().Counters["max_effective_frees_one_allocator"] {
		c.Report().Counters["max_effective_frees_one_allocator"] = effFrees
	}
}

// oracle "big-fill": I=[min, width, n, freeWhich] — n sequential allocations (more than 2^16 of
// them) on one allocator, the release of one identifier (0 the first, 1 the last, 2 the middle
// one, 3 the maximum of the range if it is live), then Allocate: it must succeed and return an
// identifier that is not live. Bounds on the length of a scan, or counters narrower than the
// range, show here and nowhere near the small ranges.
func c20BigFill(c *core.Ctx, k *core.Case) {
	min, width, n := k.I[0], k.I[1], int(k.I[2])
	g := uePolicyContainer.NewGenerator(min, min+width-1)
	live := make(map[int64]bool, n)
	var ids []int64
	for i := 0; i < n; i++ {
		id, err := g.Allocate()
		if err != nil || id < min || id > min+width-1 || live[id] {
			c.Fail(k, "big-fill:allocate", fmt.Sprintf("allocation %d of %d on [%d,%d] returned %d, %v (live already: %v)", i, n, min, min+width-1, id, err, live[id]))
			return
		}
		live[id] = true
		ids = append(ids, id)
		if i&0xfff == 0 {
			c.J.Tick()
		}
	}
	c.Eval(int64(n))
	victim := ids[0]
	switch k.I[3] {
	case 1:
		victim = ids[len(ids)-1]
	case 2:
		victim = ids[len(ids)/2]
	case 3:
		if live[min+width-1] {
			victim = min + width - 1
		}
	}
	g.FreeID(victim)
	delete(live, victim)
	if k.I[3] == 0 && int64(n) < width {
		// move the scan offset behind the run of live identifiers first
		if id, err := g.Allocate_inRange(0, width); err == nil {
			if live[id] {
				c.Fail(k, "big-fill:live-id-reissued", fmt.Sprintf("Allocate_inRange(0,%d) returned %d which is live", width, id))
				return
			}
			live[id] = true
			g.FreeID(id)
			delete(live, id)
		}
	}
	id, err := g.Allocate()
	if err != nil {
		c.Fail(k, "big-fill:spurious-exhaustion", fmt.Sprintf("Allocate failed with %d of %d identifiers live after releasing %d (range [%d,%d], %d allocated in a row)", len(live), width, victim, min, min+width-1, n))
		return
	}
	if live[id] || id < min || id > min+width-1 {
		c.Fail(k, "big-fill:live-id-reissued", fmt.Sprintf("Allocate returned %d (live %v) after releasing %d on [%d,%d]", id, live[id], victim, min, min+width-1))
	}
	c.Count("big_fills", 1)
}

func c20StartClass(a, rng int64) string {
	const top = int64(^uint64(0) >> 1)
	switch {
	case a > top-rng:
		return "within-range-of-maxint64"
	case a >= 1<<62:
		return ">=2^62"
	case a >= 1<<31:
		return ">=2^31"
	case a >= rng:
		return ">=range"
	}
	return "in-range"
}

func init() {
	p := &core.Property{
		ID:           "C20",
		StallSeconds: 30, // every oracle ticks the journal at least every 1024 events
		Rule:         "histories over {Allocate, Allocate_inRange(a,b), FreeID(x)}: (i) every sequence up to depth d over the full alphabet (all 0<=a<=b<=max+1, all x in [min-1,max+1]) on ranges of size 1..4 with min in {0,1,5}; (ii) every sequence up to depth D over the reduced alphabet on ranges of size 1..3; (iii) random histories of length 1000 on ranges up to 64. Each event is judged against a live-set model together with the hooked internal state (H1). Non-trivial = the history contains an allocation that follows a free of a live id or an exhaustion; distinct by the operation sequence.",
		Assumptions: []string{
			"arguments are non-negative and min <= max (the property's quantifier)",
			"Allocate_inRange results are required to be in the allocator's bounds and fresh, not inside the requested sub-range (the statement asks no more)",
			"hook H1 (build tag verif) reports the allocator's real fields",
		},
		Oracles: map[string]func(*core.Ctx, *core.Case){"cold-entries": coldEntries, "seq": c20Seq, "enum": c20Enum, "random": c20Random, "cold-concurrent": coldConcurrent, "big-fill": c20BigFill},
		Exhaustive: func(tier string) (bool, string) {
			if tier == "thorough" {
				return true, "all histories up to depth 4 (full alphabet, ranges 1..4) and depth 9 (reduced alphabet, ranges 1..3); longer histories sampled"
			}
			return true, "all histories up to depth 3 (full alphabet, ranges 1..4) and depth 7 (reduced alphabet, ranges 1..3); longer histories sampled"
		},
		Floors: func(tier string, cov map[string]map[string]int64, cnt map[string]int64) []string {
			var f []string
			if cnt["alloc_failures_observed"] == 0 {
				f = append(f, "no exhaustion observed")
			}
			if cnt["offset_wraps_observed"] == 0 {
				f = append(f, "no scan-offset wrap observed")
			}
			if cov["allocator_held"]["value-copy"] == 0 || cov["range_position"]["reaching above 65535"] == 0 || cov["range_position"]["above 2^31"] == 0 {
				f = append(f, "no allocator held by value / no range above 65535 / above 2^31")
			}
			if cov["inrange_start"]["within-range-of-maxint64"] == 0 || cov["inrange_start"][">=2^31"] == 0 {
				f = append(f, "no Allocate_inRange start value near the top of int64 / above 2^31")
			}
			if cnt["max_effective_frees_one_allocator"] < 1500 {
				f = append(f, fmt.Sprintf("longest history released only %d live identifiers on one allocator", cnt["max_effective_frees_one_allocator"]))
			}
			if cnt["random_histories"] == 0 || cnt["enumerated_histories"] == 0 {
				f = append(f, "a workload layer did not run")
			}
			return f
		},
	}
	p.Units = func(tier string) []core.Unit {
		var us []core.Unit
		dFull, dRed := 3, 7
		if tier == "thorough" {
			dFull, dRed = 4, 9
		}
		add := func(min, max int64, depth int, full bool) {
			alpha := c20Alphabet(min, max, full)
			f := int64(0)
			if full {
				f = 1
			}
			w := 1
			for i := 1; i < depth; i++ {
				w *= len(alpha)
				if w > 1<<20 {
					w = 1 << 20
				}
			}
			for ai := range alpha {
				ai := ai
				us = append(us, core.Unit{Name: fmt.Sprintf("enum-%d-%d-%v-%d", min, max, full, ai), Weight: w, Run: func(c *core.Ctx) {
					c.Do(&core.Case{Oracle: "enum", Target: "uePolicyContainer.IDGenerator", I: []int64{min, max, int64(depth), f, int64(ai)}})
				}})
			}
		}
		for _, min := range []int64{0, 1, 5} {
			for size := int64(1); size <= 4; size++ {
				add(min, min+size-1, dFull, true)
			}
			for size := int64(1); size <= 3; size++ {
				add(min, min+size-1, dRed, false)
			}
		}
		nr := 400
		if tier == "thorough" {
			nr = 8000
		}
		for u := 0; u < 16; u++ {
			u := u
			us = append(us, core.Unit{Name: fmt.Sprintf("random-%02d", u), Weight: 2000, Run: func(c *core.Ctx) {
				for i := 0; i < nr/16; i++ {
					min := []int64{0, 1, 5, 100, 65533, 65535, 65536, 1<<31 - 2, 1 << 32, 1 << 62, -1, -5, -40, -65536, -(1 << 31), -(1 << 62)}[c.R.Intn(16)]
					size := int64(c.R.Range(1, 64))
					if c.R.Chance(1, 3) {
						size = int64(c.R.Range(1, 8))
					}
					if min > 65536 {
						c.Cover("range_position", "above 2^31")
					} else if min+size-1 > 65535 {
						c.Cover("range_position", "reaching above 65535")
					}
					k := &core.Case{Oracle: "random", Target: "uePolicyContainer.IDGenerator", I: []int64{min, min + size - 1, int64(c.R.Uint64() >> 1), 1000, int64(i % 4)}}
					c.Do(k)
					c.NonTrivial(k.Hash())
					if i < 2 {
						c.Sample(k.Brief())
					}
				}
				// allocators whose width does not fit 32 bits (2^32 + r, 2^33 + 1, 2^40 + 3): the
				// arithmetic on the width is where a 32-bit int shows
				for i := 0; i < c.Pick(24, 400); i++ {
					min := []int64{0, 0, 1, 5, 1 << 16}[c.R.Intn(5)]
					width := []int64{1<<32 + 1, 1<<32 + 2, 1<<32 + 3, 1<<32 + 4, 1<<33 + 1, 1<<40 + 3, 1<<32 - 1, 1 << 32, 1<<53 + 1, 1<<53 + 2, 1<<53 + 3, 1<<53 + 4, 1<<54 + 6, 1<<62 + 1, 1<<62 + 3}[c.R.Intn(15)]
					if i%5 == 4 {
						min = -[]int64{1, 7, 1 << 16, 1 << 31}[c.R.Intn(4)] // a range that straddles zero
					}
					k := &core.Case{Oracle: "random", Target: "uePolicyContainer.IDGenerator", I: []int64{min, min + width - 1, int64(c.R.Uint64() >> 1), int64(c.R.Range(6, 60)), int64(i % 2)}}
					if i%6 == 5 {
						// ranges that end at the top of int64: four identifiers, 64, and almost all positive ones
						const top = int64(^uint64(0) >> 1)
						k.I[0], k.I[1] = []int64{top - 3, top - 63, 1, top - 1<<40}[c.R.Intn(4)], top
						c.Cover("range_position", "ending at MaxInt64")
					}
					c.Do(k)
					c.NonTrivial(k.Hash())
					c.Cover("range_width", "above 2^32")
				}
				if u == 0 {
					// more than 2^16 identifiers live in one uninterrupted run
					for _, f := range [][4]int64{{1, 65538, 65538, 1}, {1, 65538, 65538, 3}, {0, 1<<40 + 1, 70000, 0}, {0, 65537, 65537, 2}, {5, 70000, 69999, 0}, {0, 1 << 20, 131073, 1}} {
						k := &core.Case{Oracle: "big-fill", Target: "uePolicyContainer.IDGenerator", I: f[:]}
						c.Do(k)
						c.NonTrivial(k.Hash())
					}
				}
				// long histories: thousands of releases on one allocator
				for i := 0; i < c.Pick(2, 20); i++ {
					min := int64([]int{0, 1, 5, 100}[c.R.Intn(4)])
					size := int64(c.R.Range(2, 48))
					k := &core.Case{Oracle: "random", Target: "uePolicyContainer.IDGenerator", I: []int64{min, min + size - 1, int64(c.R.Uint64() >> 1), int64(c.Pick(8000, 30000))}}
					c.Do(k)
					c.NonTrivial(k.Hash())
				}
			}})
		}
		us = append(us, coldUnits(tier, "uePolicyContainer.IDGenerator", "count-alloc")...)
		us = append(us, coldEntryUnits(tier, "uePolicyContainer.IDGenerator", "count")...)
		return us
	}
	core.Register(p)
}
