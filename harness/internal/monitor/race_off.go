//go:build !race

package monitor

const raceEnabled = false
