package monitor

import (
	"fmt"

	"github.com/free5gc/nas/security"

	"verifharness/internal/core"
	"verifharness/internal/prng"
)

// C11 — NAS COUNT is a 24-bit overflow||sqn counter.
//
// History monitor: the workload drives a real security.Count and appends one
// event per operation (operation, arguments, and what Get/SQN/Overflow returned
// afterwards) to a log; the checker then replays the log against a 24-bit
// integer. The two halves share nothing but the log.

type c11Event struct {
	op       uint8 // 0 Set 1 SetSQN 2 SetOverflow 3 AddOne 4 Get 5 SQN 6 Overflow
	a        uint16
	b        uint8
	ret      uint32 // return value of a read operation
	get      uint32
	sqn      uint8
	overflow uint16
	get2     uint32 // second read, after the other two
}

var c11OpNames = []string{"Set", "SetSQN", "SetOverflow", "AddOne", "Get", "SQN", "Overflow"}

func c11Apply(cnt *security.Count, e *c11Event, order int) {
	switch e.op {
	case 0:
		cnt.Set(e.a, e.b)
	case 1:
		cnt.SetSQN(e.b)
	case 2:
		cnt.SetOverflow(e.a)
	case 3:
		cnt.AddOne()
	case 4:
		e.ret = cnt.Get()
	case 5:
		e.ret = uint32(cnt.SQN())
	case 6:
		e.ret = uint32(cnt.Overflow())
	}
	// observe in varying order: a read that disturbed the state would show
	switch order % 3 {
	case 0:
		e.get = cnt.Get()
		e.sqn = cnt.SQN()
		e.overflow = cnt.Overflow()
	case 1:
		e.sqn = cnt.SQN()
		e.overflow = cnt.Overflow()
		e.get = cnt.Get()
	case 2:
		e.overflow = cnt.Overflow()
		e.get = cnt.Get()
		e.sqn = cnt.SQN()
	}
	e.get2 = cnt.Get()
}

// c11CheckLog is the offline checker. model is the 24-bit value before log[0].
// It returns the index of the first bad event or -1.
func c11CheckLog(model uint32, known bool, log []c11Event) (int, string) {
	for i := range log {
		e := &log[i]
		prev := model
		switch e.op {
		case 0:
			model = uint32(e.a)<<8 | uint32(e.b)
			known = true
		case 1:
			model = model&0xffff00 | uint32(e.b)
		case 2:
			model = model&0xff | uint32(e.a)<<8
		case 3:
			model = (model + 1) & 0xffffff
		}
		if !known {
			continue
		}
		if e.get != model {
			return i, fmt.Sprintf("after %s(%d,%d) from %#06x: Get()=%#x, model %#06x", c11OpNames[e.op], e.a, e.b, prev, e.get, model)
		}
		if e.get >= 1<<24 {
			return i, fmt.Sprintf("Get()=%#x >= 2^24", e.get)
		}
		if uint32(e.overflow)*256+uint32(e.sqn) != e.get {
			return i, fmt.Sprintf("after %s(%d,%d) from %#06x: Get()=%#x but Overflow()*256+SQN()=%#x", c11OpNames[e.op], e.a, e.b, prev, e.get, uint32(e.overflow)*256+uint32(e.sqn))
		}
		if e.get2 != e.get {
			return i, fmt.Sprintf("reads changed the value: Get()=%#x then %#x", e.get, e.get2)
		}
		switch e.op {
		case 4:
			if e.ret != prev {
				return i, fmt.Sprintf("Get() returned %#x in state %#06x", e.ret, prev)
			}
		case 5:
			if e.ret != prev&0xff {
				return i, fmt.Sprintf("SQN() returned %#x in state %#06x", e.ret, prev)
			}
		case 6:
			if e.ret != prev>>8 {
				return i, fmt.Sprintf("Overflow() returned %#x in state %#06x", e.ret, prev)
			}
		}
	}
	return -1, ""
}

// oracle "history": I = [overflow0, sqn0, histSeed, length, viaSet]
func c11History(c *core.Ctx, k *core.Case) {
	r := prng.New(uint64(k.I[2]))
	n := int(k.I[3])
	var cnt security.Count
	log := make([]c11Event, 0, n+1)
	first := c11Event{op: 0, a: uint16(k.I[0]), b: uint8(k.I[1])}
	c11Apply(&cnt, &first, 0)
	log = append(log, first)
	for i := 0; i < n; i++ {
		var e c11Event
		x := r.Intn(16)
		switch {
		case x < 6:
			e.op = 3
		case x < 8:
			e.op = 1
			e.b = r.Byte()
			if r.Chance(1, 4) {
				e.b = []uint8{0, 255, 254, 1}[r.Intn(4)]
			}
		case x < 10:
			e.op = 2
			e.a = uint16(r.Uint32())
			if r.Chance(1, 4) {
				e.a = []uint16{0, 0xffff, 0xfffe, 1, 0xff, 0x100}[r.Intn(6)]
			}
		case x < 11:
			e.op = 0
			e.a = uint16(r.Uint32())
			e.b = r.Byte()
			if r.Chance(1, 2) {
				e.a, e.b = 0xffff, uint8(250+r.Intn(6))
			}
		default:
			e.op = uint8(4 + r.Intn(3))
		}
		c11Apply(&cnt, &e, i)
		log = append(log, e)
		c.Cover("op", c11OpNames[e.op])
	}
	c.Eval(int64(len(log)))
	if i, msg := c11CheckLog(0, true, log); i >= 0 {
		c.Fail(k, "history-mismatch:"+c11OpNames[log[i].op], fmt.Sprintf("event %d of history: %s", i, msg))
	}
	// carries observed in this history
	for i := range log {
		if log[i].op == 3 && log[i].sqn == 0 {
			c.Count("sqn_rollovers", 1)
			if log[i].overflow == 0 {
				c.Count("full_wraps", 1)
			}
		}
	}
}

// oracle "sweep": for every state s in [I0, I1): Set(s) then AddOne, and for a
// rotating subset each setter; one log per state, checked by the same checker.
func c11Sweep(c *core.Ctx, k *core.Case) {
	lo, hi := uint32(k.I[0]), uint32(k.I[1])
	var log [8]c11Event
	for s := lo; s < hi; s++ {
		var cnt security.Count
		n := 0
		log[n] = c11Event{op: 0, a: uint16(s >> 8), b: uint8(s)}
		c11Apply(&cnt, &log[n], int(s))
		n++
		log[n] = c11Event{op: 3}
		c11Apply(&cnt, &log[n], int(s)+1)
		n++
		if s%7 == 0 {
			log[n] = c11Event{op: 1, b: uint8(s * 31 >> 3)}
			c11Apply(&cnt, &log[n], int(s))
			n++
			log[n] = c11Event{op: 2, a: uint16(s * 2654435761 >> 11)}
			c11Apply(&cnt, &log[n], int(s))
			n++
			log[n] = c11Event{op: uint8(4 + s%3)}
			c11Apply(&cnt, &log[n], int(s))
			n++
		}
		if i, msg := c11CheckLog(0, true, log[:n]); i >= 0 {
			kk := &core.Case{Oracle: "sweep", Target: "security.Count", I: []int64{int64(s), int64(s) + 1}}
			c.Fail(kk, "sweep-mismatch:"+c11OpNames[log[i].op], msg)
		}
		if s&0xffff == 0 {
			c.J.Tick()
		}
	}
	c.Eval(int64(hi-lo) * 2)
	c.Count("states_swept", int64(hi-lo))
}

func init() {
	p := &core.Property{
		ID:   "C11",
		Rule: "histories: random mixes of Set/SetSQN/SetOverflow/AddOne/Get/SQN/Overflow from random and boundary start states, each event logged with the three reads and checked offline against a 24-bit integer; non-trivial = history contains a mutation followed by a read (every history does; distinct by start state and history seed). sweep: every one of the 2^24 states followed by AddOne (and every 7th state by both setters and a read).",
		Assumptions: []string{
			"states are reached through the public Set(overflow, sqn); the unexported field is never written directly",
			"bits 24..31 of the internal word are unobservable and not judged",
		},
		Oracles: map[string]func(*core.Ctx, *core.Case){"history": c11History, "sweep": c11Sweep},
		Exhaustive: func(tier string) (bool, string) {
			return true, "the increment relation and the value/overflow/sqn identity are checked from all 2^24 states; operation sequences are sampled"
		},
		Floors: func(tier string, cov map[string]map[string]int64, cnt map[string]int64) []string {
			var f []string
			if cnt["states_swept"] != 1<<24 {
				f = append(f, fmt.Sprintf("sweep covered %d of 2^24 states", cnt["states_swept"]))
			}
			for _, op := range c11OpNames[1:] {
				if cov["op"][op] == 0 {
					f = append(f, "operation never exercised in a history: "+op)
				}
			}
			if cnt["sqn_rollovers"] == 0 || cnt["full_wraps"] == 0 {
				f = append(f, "no rollover / full wrap observed in histories")
			}
			return f
		},
	}
	p.Units = func(tier string) []core.Unit {
		var us []core.Unit
		const chunk = 1 << 18
		for lo := 0; lo < 1<<24; lo += chunk {
			lo := lo
			us = append(us, core.Unit{Name: fmt.Sprintf("sweep-%06x", lo), Weight: 10, Run: func(c *core.Ctx) {
				c.Do(&core.Case{Oracle: "sweep", Target: "security.Count", I: []int64{int64(lo), int64(lo + chunk)}})
			}})
		}
		nh := 2000
		if tier == "thorough" {
			nh = 40000
		}
		for u := 0; u < 32; u++ {
			u := u
			us = append(us, core.Unit{Name: fmt.Sprintf("hist-%02d", u), Weight: 5, Run: func(c *core.Ctx) {
				for i := 0; i < nh/32; i++ {
					var o, s int64
					switch c.R.Intn(4) {
					case 0:
						o, s = 0xffff, int64(240+c.R.Intn(16))
					case 1:
						o, s = int64(c.R.Intn(4)), int64(250+c.R.Intn(6))
					default:
						o, s = int64(c.R.Intn(65536)), int64(c.R.Intn(256))
					}
					ln := int64(c.R.Range(1, 2000))
					if c.R.Chance(1, 20) {
						ln = 10000
					}
					k := &core.Case{Oracle: "history", Target: "security.Count", I: []int64{o, s, int64(c.R.Uint64() >> 1), ln}}
					c.Do(k)
					c.NonTrivial(k.Hash())
					c.Sample(k.Brief())
				}
			}})
		}
		return us
	}
	core.Register(p)
}
