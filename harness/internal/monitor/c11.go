package monitor

import (
	"fmt"

	"github.com/free5gc/nas/security"

	"verifharness/internal/core"
	"verifharness/internal/prng"
)

// C11 — NAS COUNT is a 24-bit overflow||sqn counter.
//
// History monitor: the workload drives a real security.Count and appends one
// event per operation (operation, arguments, and what Get/SQN/Overflow returned
// afterwards) to a log; the checker then replays the log against a 24-bit
// integer. The two halves share nothing but the log.

type c11Event struct {
	op       uint8 // 0 Set 1 SetSQN 2 SetOverflow 3 AddOne 4 Get 5 SQN 6 Overflow
	a        uint16
	b        uint8
	ret      uint32 // return value of a read operation
	get      uint32
	sqn      uint8
	overflow uint16
	get2     uint32 // second read, after the other two
}

var c11OpNames = []string{"Set", "SetSQN", "SetOverflow", "AddOne", "Get", "SQN", "Overflow"}

func c11Apply(cnt *security.Count, e *c11Event, order int) {
	switch e.op {
	case 0:
		cnt.Set(e.a, e.b)
	case 1:
		cnt.SetSQN(e.b)
	case 2:
		cnt.SetOverflow(e.a)
	case 3:
		cnt.AddOne()
	case 4:
		e.ret = cnt.Get()
	case 5:
		e.ret = uint32(cnt.SQN())
	case 6:
		e.ret = uint32(cnt.Overflow())
	}
	// observe in varying order: a read that disturbed the state would show
	switch order % 3 {
	case 0:
		e.get = cnt.Get()
		e.sqn = cnt.SQN()
		e.overflow = cnt.Overflow()
	case 1:
		e.sqn = cnt.SQN()
		e.overflow = cnt.Overflow()
		e.get = cnt.Get()
	case 2:
		e.overflow = cnt.Overflow()
		e.get = cnt.Get()
		e.sqn = cnt.SQN()
	}
	e.get2 = cnt.Get()
}

// c11CheckLog is the offline checker. model is the 24-bit value before log[0].
// It returns the index of the first bad event or -1.
func c11CheckLog(model uint32, known bool, log []c11Event) (int, string) {
	for i := range log {
		e := &log[i]
		prev := model
		switch e.op {
		case 0:
			model = uint32(e.a)<<8 | uint32(e.b)
			known = true
		case 1:
			model = model&0xffff00 | uint32(e.b)
		case 2:
			model = model&0xff | uint32(e.a)<<8
		case 3:
			model = (model + 1) & 0xffffff
		}
		if !known {
			continue
		}
		if e.get != model {
			return i, fmt.Sprintf("after %s(%d,%d) from %#06x: Get()=%#x, model %#06x", c11OpNames[e.op], e.a, e.b, prev, e.get, model)
		}
		if e.get >= 1<<24 {
			return i, fmt.Sprintf("Get()=%#x >= 2^24", e.get)
		}
		if uint32(e.overflow)*256+uint32(e.sqn) != e.get {
			return i, fmt.Sprintf("after %s(%d,%d) from %#06x: Get()=%#x but Overflow()*256+SQN()=%#x", c11OpNames[e.op], e.a, e.b, prev, e.get, uint32(e.overflow)*256+uint32(e.sqn))
		}
		if e.get2 != e.get {
			return i, fmt.Sprintf("reads changed the value: Get()=%#x then %#x", e.get, e.get2)
		}
		switch e.op {
		case 4:
			if e.ret != prev {
				return i, fmt.Sprintf("Get() returned %#x in state %#06x", e.ret, prev)
			}
		case 5:
			if e.ret != prev&0xff {
				return i, fmt.Sprintf("SQN() returned %#x in state %#06x", e.ret, prev)
			}
		case 6:
			if e.ret != prev>>8 {
				return i, fmt.Sprintf("Overflow() returned %#x in state %#06x", e.ret, prev)
			}
		}
	}
	return -1, ""
}

// oracle "history": I = [overflow0, sqn0, histSeed, length, viaSet]
func c11History(c *core.Ctx, k *core.Case) {
	r := prng.New(uint64(k.I[2]))
	n := int(k.I[3])
	var cnt security.Count
	log := make([]c11Event, 0, n+1)
	first := c11Event{op: 0, a: uint16(k.I[0]), b: uint8(k.I[1])}
	c11Apply(&cnt, &first, 0)
	log = append(log, first)
	for i := 0; i < n; i++ {
		var e c11Event
		x := r.Intn(16)
		switch {
		case x < 6:
			e.op = 3
		case x < 8:
			e.op = 1
			e.b = r.Byte()
			if r.Chance(1, 4) {
				e.b = []uint8{0, 255, 254, 1}[r.Intn(4)]
			}
		case x < 10:
			e.op = 2
			e.a = uint16(r.Uint32())
			if r.Chance(1, 4) {
				e.a = []uint16{0, 0xffff, 0xfffe, 1, 0xff, 0x100}[r.Intn(6)]
			}
		case x < 11:
			e.op = 0
			e.a = uint16(r.Uint32())
			e.b = r.Byte()
			if r.Chance(1, 2) {
				e.a, e.b = 0xffff, uint8(250+r.Intn(6))
			}
		default:
			e.op = uint8(4 + r.Intn(3))
		}
		c11Apply(&cnt, &e, i)
		log = append(log, e)
		c.Cover("op", c11OpNames[e.op])
	}
	c.Eval(int64(len(log)))
	if i, msg := c11CheckLog(0, true, log); i >= 0 {
		c.Fail(k, "history-mismatch:"+c11OpNames[log[i].op], fmt.Sprintf("event %d of history: %s", i, msg))
	}
	// carries observed in this history
	for i := range log {
		if log[i].op == 3 && log[i].sqn == 0 {
			c.Count("sqn_rollovers", 1)
			if log[i].overflow == 0 {
				c.Count("full_wraps", 1)
			}
		}
	}
}

// oracle "sweep": for every state s in [I0, I1): Set(s) then AddOne, and for a
// rotating subset each setter; one log per state, checked by the same checker.
func c11Sweep(c *core.Ctx, k *core.Case) {
	lo, hi := uint32(k.I[0]), uint32(k.I[1])
	var log [8]c11Event
	for s := lo; s < hi; s++ {
		var cnt security.Count
		n := 0
		log[n] = c11Event{op: 0, a: uint16(s >> 8), b: uint8(s)}
		c11Apply(&cnt, &log[n], int(s))
		n++
		log[n] = c11Event{op: 3}
		c11Apply(&cnt, &log[n], int(s)+1)
		n++
		if s%7 == 0 {
			log[n] = c11Event{op: 1, b: uint8(s * 31 >> 3)}
			c11Apply(&cnt, &log[n], int(s))
			n++
			log[n] = c11Event{op: 2, a: uint16(s * 2654435761 >> 11)}
			c11Apply(&cnt, &log[n], int(s))
			n++
			log[n] = c11Event{op: uint8(4 + s%3)}
			c11Apply(&cnt, &log[n], int(s))
			n++
		}
		if i, msg := c11CheckLog(0, true, log[:n]); i >= 0 {
			kk := &core.Case{Oracle: "sweep", Target: "security.Count", I: []int64{int64(s), int64(s) + 1}}
			c.Fail(kk, "sweep-mismatch:"+c11OpNames[log[i].op], msg)
		}
		if s&0xffff == 0 {
			c.J.Tick()
		}
		if s%4099 == 0 {
			c.NonTrivial(core.HashU64(11, uint64(s)))
		}
	}
	c.Eval(int64(hi-lo) * 2)
	c.Count("states_swept", int64(hi-lo))
}

// ---- blind histories: mutations with no value read in between -------------
//
// The "history" oracle reads after every event, which re-synchronises any lazily
// maintained representation (deferred carry, memoised value). The two oracles
// below only look at the counter at the end of a run of mutations.

func c11Mutate(cnt *security.Count, op uint8, a uint16, b uint8, model uint32) uint32 {
	switch op {
	case 0:
		cnt.Set(a, b)
		return uint32(a)<<8 | uint32(b)
	case 1:
		cnt.SetSQN(b)
		return model&0xffff00 | uint32(b)
	case 2:
		cnt.SetOverflow(a)
		return model&0xff | uint32(a)<<8
	case 3:
		cnt.AddOne()
		return (model + 1) & 0xffffff
	case 5:
		_ = cnt.SQN() // a harmless read of one part
	case 6:
		_ = cnt.Overflow()
	}
	return model
}

// c11FinalRead reads the three views in the given order and judges them.
func c11FinalRead(cnt *security.Count, order int, model uint32) string {
	var g, g2 uint32
	var s uint8
	var o uint16
	switch order % 4 {
	case 0:
		g, s, o = cnt.Get(), cnt.SQN(), cnt.Overflow()
	case 1:
		s, o = cnt.SQN(), cnt.Overflow()
		g = cnt.Get()
	case 2:
		o = cnt.Overflow()
		g = cnt.Get()
		s = cnt.SQN()
	case 3:
		o, s = cnt.Overflow(), cnt.SQN()
		g = cnt.Get()
	}
	g2 = cnt.Get()
	switch {
	case g != model:
		return fmt.Sprintf("Get()=%#x, model %#06x", g, model)
	case uint32(o)*256+uint32(s) != model:
		return fmt.Sprintf("Overflow()=%#x SQN()=%#x, model %#06x", o, s, model)
	case g2 != g:
		return fmt.Sprintf("second Get()=%#x after %#x", g2, g)
	}
	return ""
}

type c11BlindOp struct {
	op uint8
	a  uint16
	b  uint8
}

var c11BlindAlphabet = []c11BlindOp{
	{op: 3}, {op: 1, b: 0}, {op: 1, b: 0xff}, {op: 1, b: 7}, {op: 2, a: 0}, {op: 2, a: 9}, {op: 2, a: 0xffff},
	{op: 0, a: 0, b: 0}, {op: 0, a: 0xffff, b: 0xff}, {op: 0, a: 3, b: 4}, {op: 5}, {op: 6},
}

var c11BlindStarts = [][2]int64{{0, 0xff}, {5, 0xff}, {0xffff, 0xff}, {0xfffe, 0xff}, {0, 0xfe}, {0xffff, 0xfe}, {0, 0}, {0xffff, 0}, {0x1234, 0xff}, {0x00ff, 0xff}, {0x0100, 0x00}, {0x7fff, 0x80}}

// oracle "blind-seq": I=[overflow0, sqn0, readOrder, viaZeroValue, op1, op2, ...] (indices
// into the alphabet) — start state, the mutations, then one read of all views.
func c11BlindSeq(c *core.Ctx, k *core.Case) {
	var cnt security.Count
	cnt.Set(uint16(k.I[0]), uint8(k.I[1]))
	model := uint32(k.I[0])<<8 | uint32(k.I[1])
	if k.I[3] == 1 { // reach the start state by increments from one below it
		cnt.Set(uint16((model-1)>>8), uint8(model-1))
		cnt.AddOne()
	}
	names := ""
	for _, x := range k.I[4:] {
		o := c11BlindAlphabet[x]
		model = c11Mutate(&cnt, o.op, o.a, o.b, model)
		names += fmt.Sprintf(" %s(%d,%d)", c11OpNames[o.op], o.a, o.b)
	}
	c.Eval(1)
	if msg := c11FinalRead(&cnt, int(k.I[2]), model); msg != "" {
		last := c11BlindAlphabet[k.I[len(k.I)-1]]
		c.Fail(k, "blind-sequence-mismatch:"+c11OpNames[last.op], fmt.Sprintf("from %#04x|%#02x, with no Get() in between,%s then read: %s", k.I[0], k.I[1], names, msg))
	}
}

// oracle "blind-enum": I=[startIndex, maxLen] — every sequence over the alphabet up to maxLen.
func c11BlindEnum(c *core.Ctx, k *core.Case) {
	st := c11BlindStarts[k.I[0]]
	maxLen := int(k.I[1])
	seq := make([]int64, 0, maxLen)
	n := int64(0)
	var rec func()
	rec = func() {
		if len(seq) > 0 {
			for via := int64(0); via < 2; via++ {
				kk := &core.Case{Oracle: "blind-seq", Target: "security.Count", I: append([]int64{st[0], st[1], n % 4, via}, seq...)}
				var cnt security.Count
				model := uint32(st[0])<<8 | uint32(st[1])
				cnt.Set(uint16(st[0]), uint8(st[1]))
				if via == 1 {
					cnt.Set(uint16((model-1)>>8), uint8(model-1))
					cnt.AddOne()
				}
				for _, x := range seq {
					o := c11BlindAlphabet[x]
					model = c11Mutate(&cnt, o.op, o.a, o.b, model)
				}
				n++
				if c11FinalRead(&cnt, int(kk.I[2]), model) != "" {
					c11BlindSeq(c, kk) // re-run through the reporting oracle
				}
			}
			if n&0xffff == 0 {
				c.J.Tick()
			}
		}
		if len(seq) == maxLen {
			return
		}
		for x := range c11BlindAlphabet {
			seq = append(seq, int64(x))
			rec()
			seq = seq[:len(seq)-1]
		}
	}
	rec()
	c.Eval(n)
	c.Count("blind_sequences", n)
	c.NonTrivial(core.HashU64(0x11b, uint64(k.I[0])<<8|uint64(maxLen)))
}

// oracle "copies": I=[seed, n] — two Count VALUES. Besides the usual operations on either
// one, a value is assigned to the other (snapshot / rollback / template copy: Count is a
// plain struct and callers copy it). The two are independent afterwards: an operation on one
// must not show through the other. All views of both are read after every step.
func c11Copies(c *core.Ctx, k *core.Case) {
	r := prng.New(uint64(k.I[0]))
	var obj [2]security.Count
	var model [2]uint32
	var trail []string
	for i := 0; i < int(k.I[1]); i++ {
		w := r.Intn(2)
		var what string
		switch x := r.Intn(12); {
		case x < 2:
			obj[w] = obj[1-w] // value copy
			model[w] = model[1-w]
			what = fmt.Sprintf("c%d=c%d", w, 1-w)
		case x < 4:
			a, b := uint16(r.Uint32()), r.Byte()
			model[w] = c11Mutate(&obj[w], 0, a, b, model[w])
			what = fmt.Sprintf("c%d.Set(%#x,%#x)", w, a, b)
		case x < 6:
			b := r.Byte()
			model[w] = c11Mutate(&obj[w], 1, 0, b, model[w])
			what = fmt.Sprintf("c%d.SetSQN(%#x)", w, b)
		case x < 8:
			a := uint16(r.Uint32())
			model[w] = c11Mutate(&obj[w], 2, a, 0, model[w])
			what = fmt.Sprintf("c%d.SetOverflow(%#x)", w, a)
		case x < 10:
			model[w] = c11Mutate(&obj[w], 3, 0, 0, model[w])
			what = fmt.Sprintf("c%d.AddOne()", w)
		default:
			what = fmt.Sprintf("read c%d", w)
		}
		trail = append(trail, what)
		if len(trail) > 8 {
			trail = trail[1:]
		}
		// what the step touched is read first, then the other value
		for _, j := range []int{w, 1 - w} {
			if msg := c11FinalRead(&obj[j], i+j, model[j]); msg != "" {
				sig := "copies-mismatch:own"
				if j != w {
					sig = "copies-mismatch:other-value-changed"
				}
				c.Fail(k, sig, fmt.Sprintf("step %d, last steps %v: value c%d reads %s", i, trail, j, msg))
				return
			}
		}
	}
	c.Eval(int64(k.I[1]))
	c.Count("copy_histories", 1)
}

// oracle "concurrent-private": I=[seed, workers, steps] — every worker drives its OWN Count
// against its own 24-bit model, all at the same time. The counters share nothing, so each must
// behave exactly as it does alone; working storage that the operations share behind the scenes
// (a package-level scratch buffer) mixes one counter's octets into another's.
func c11ConcurrentPrivate(c *core.Ctx, k *core.Case) {
	g, steps := int(k.I[1]), raceScale(int(k.I[2]))
	cnt := make([]security.Count, g)
	model := make([]uint32, g)
	if k.I[0]&1 == 1 {
		// the private counters are value copies of one counter that was already used (set,
		// incremented, read): copies of a Count are independent values
		var origin security.Count
		origin.Set(uint16(k.I[0]>>8), uint8(k.I[0]>>3))
		origin.SetSQN(uint8(k.I[0] >> 5))
		origin.AddOne()
		v := origin.Get()
		for w := range cnt {
			cnt[w] = origin
			model[w] = v
		}
	}
	rs := make([]*prng.Rand, g)
	for w := range rs {
		rs[w] = prng.New(uint64(k.I[0]) + uint64(w)*0x9e3779b97f4a7c15)
	}
	msgs := concurrentProbe(g, steps, func(w, i int) string {
		r := rs[w]
		x := r.Uint64()
		var what string
		switch x & 7 {
		case 0, 1, 2:
			model[w] = c11Mutate(&cnt[w], 3, 0, 0, model[w])
			what = "AddOne"
		case 3:
			model[w] = c11Mutate(&cnt[w], 1, 0, byte(x>>8), model[w])
			what = "SetSQN"
		case 4:
			model[w] = c11Mutate(&cnt[w], 2, uint16(x>>8), 0, model[w])
			what = "SetOverflow"
		case 5:
			model[w] = c11Mutate(&cnt[w], 0, uint16(x>>8), byte(x>>24), model[w])
			what = "Set"
		default:
			what = "read"
		}
		if got := cnt[w].Get(); got != model[w] || uint32(cnt[w].Overflow())<<8|uint32(cnt[w].SQN()) != model[w] {
			return fmt.Sprintf("worker %d step %d (%s): its private counter reads Get()=%#x Overflow()=%#x SQN()=%#x, its model is %#06x", w, i, what, got, cnt[w].Overflow(), cnt[w].SQN(), model[w])
		}
		return ""
	})
	c.Eval(int64(g * steps))
	c.Count("concurrent_private_steps", int64(g*steps))
	if len(msgs) > 0 {
		c.Fail(k, "concurrent-private-counter-mismatch", fmt.Sprintf("%d workers, each with a counter of its own; %d of them saw a wrong value: %s", g, len(msgs), msgs[0]))
	}
}

// oracle "concurrent-readers": I=[overflow, sqn, workers, reads] — several goroutines only READ
// the sequence number and the overflow part of ONE quiescent Count (SQN and Overflow; Get
// normalises the stored word and is a writer in that sense, so it stays out). Every read
// returns the model's value; under the race detector a read that stores is reported.
func c11ConcurrentReaders(c *core.Ctx, k *core.Case) {
	var cnt security.Count
	cnt.Set(uint16(k.I[0]), uint8(k.I[1]))
	g, n := int(k.I[2]), raceScale(int(k.I[3]))
	msgs := concurrentProbe(g, n, func(w, i int) string {
		var o uint16
		var s uint8
		if (w+i)%2 == 0 {
			o, s = cnt.Overflow(), cnt.SQN()
		} else {
			s, o = cnt.SQN(), cnt.Overflow()
		}
		if int64(o) != k.I[0] || int64(s) != k.I[1] {
			return fmt.Sprintf("reader %d read Overflow()=%#x SQN()=%#x of a counter nobody writes, set to (%#x, %#x)", w, o, s, k.I[0], k.I[1])
		}
		return ""
	})
	c.Eval(int64(g * n))
	c.Count("concurrent_reads", int64(g*n))
	if len(msgs) > 0 {
		c.Fail(k, "concurrent-readers-mismatch", msgs[0])
	}
}

// oracle "blind-wraps": I=[overflow0, sqn0, wraps, extra, touch, order] — wraps x 2^24 +
// extra increments with no read in between (touch=1: the sequence number is re-set to
// its current value every 2^20 increments, which changes nothing), then one read of
// all views: the value passed through 0 several times since anybody looked at it.
func c11BlindWraps(c *core.Ctx, k *core.Case) {
	var cnt security.Count
	cnt.Set(uint16(k.I[0]), uint8(k.I[1]))
	model := uint32(k.I[0])<<8 | uint32(k.I[1])
	total := k.I[2]<<24 + k.I[3]
	for i := int64(0); i < total; i++ {
		cnt.AddOne()
		model = (model + 1) & 0xffffff
		if k.I[4] == 1 && i&(1<<20-1) == 0 {
			cnt.SetSQN(uint8(model))
		}
		if i&(1<<24-1) == 0 {
			c.J.Tick()
		}
	}
	c.Eval(total)
	c.Count("blind_wrap_increments", total)
	c.Cover("unread_wraps", fmt.Sprint(k.I[2]))
	if msg := c11FinalRead(&cnt, int(k.I[5]), model); msg != "" {
		c.Fail(k, "blind-wraps-mismatch", fmt.Sprintf("after Set(%#x,%#x) and %d x 2^24 + %d unread increments: %s", k.I[0], k.I[1], k.I[2], k.I[3], msg))
	}
}

var c11RunLens = []int{1, 2, 3, 127, 128, 129, 255, 256, 257, 511, 512, 32767, 32768, 32769, 65535, 65536, 65537, 131071, 131072, 131073}

// oracle "blind-runs": I=[overflow0, sqn0, seed, segments, mix, long] — segments of
// mutations (run lengths around the powers of two a stamp, a carry or a counter
// width could wrap at), all views read only between segments.
func c11BlindRuns(c *core.Ctx, k *core.Case) {
	r := prng.New(uint64(k.I[2]))
	var cnt security.Count
	cnt.Set(uint16(k.I[0]), uint8(k.I[1]))
	model := uint32(k.I[0])<<8 | uint32(k.I[1])
	if msg := c11FinalRead(&cnt, 0, model); msg != "" {
		c.Fail(k, "blind-run-mismatch:start", msg)
		return
	}
	total := int64(0)
	for seg := 0; seg < int(k.I[3]); seg++ {
		n := c11RunLens[r.Intn(len(c11RunLens))]
		if k.I[5] == 1 && r.Chance(1, 4) {
			n = 1 << 20
		}
		mix := int(k.I[4])
		if mix == 5 {
			mix = r.Intn(5)
		}
		before := model
		for i := 0; i < n; i++ {
			var op uint8
			switch mix {
			case 0:
				op = 3
			case 1:
				op = 0
			case 2:
				op = 1
			case 3:
				op = 2
			default:
				op = []uint8{3, 3, 0, 1, 2, 5, 6}[r.Intn(7)]
			}
			model = c11Mutate(&cnt, op, uint16(r.Uint32()), r.Byte(), model)
		}
		total += int64(n)
		c.Cover("run_length", fmt.Sprint(n))
		if msg := c11FinalRead(&cnt, seg, model); msg != "" {
			c.Fail(k, fmt.Sprintf("blind-run-mismatch:mix%d", mix), fmt.Sprintf("segment %d: %d mutations (mix %d) from %#06x with no read in between, then: %s", seg, n, mix, before, msg))
			return
		}
	}
	c.Eval(total)
	c.Count("blind_run_mutations", total)
}

func init() {
	p := &core.Property{
		ID:   "C11",
		Rule: "histories: random mixes of Set/SetSQN/SetOverflow/AddOne/Get/SQN/Overflow from random and boundary start states, each event logged with the three reads and checked offline against a 24-bit integer; non-trivial = history contains a mutation followed by a read (every history does; distinct by start state and history seed). sweep: every one of the 2^24 states followed by AddOne (and every 7th state by both setters and a read).",
		Assumptions: []string{
			"states are reached through the public Set(overflow, sqn); the unexported field is never written directly",
			"bits 24..31 of the internal word are unobservable and not judged",
		},
		Oracles: map[string]func(*core.Ctx, *core.Case){"cold-entries": coldEntries, "history": c11History, "sweep": c11Sweep, "blind-seq": c11BlindSeq, "blind-enum": c11BlindEnum, "blind-runs": c11BlindRuns, "blind-wraps": c11BlindWraps, "copies": c11Copies, "concurrent-private": c11ConcurrentPrivate, "concurrent-readers": c11ConcurrentReaders, "cold-concurrent": coldConcurrent},
		Exhaustive: func(tier string) (bool, string) {
			return true, "the increment relation and the value/overflow/sqn identity are checked from all 2^24 states; operation sequences are sampled"
		},
		Floors: func(tier string, cov map[string]map[string]int64, cnt map[string]int64) []string {
			var f []string
			if cnt["states_swept"] != 1<<24 {
				f = append(f, fmt.Sprintf("sweep covered %d of 2^24 states", cnt["states_swept"]))
			}
			for _, op := range c11OpNames[1:] {
				if cov["op"][op] == 0 {
					f = append(f, "operation never exercised in a history: "+op)
				}
			}
			if cnt["blind_sequences"] == 0 || cnt["blind_run_mutations"] == 0 {
				f = append(f, "no blind sequence / run was executed")
			}
			for _, n := range []string{"255", "256", "65535", "65536", "65537", "131072"} {
				if cov["run_length"][n] == 0 {
					f = append(f, "no unread run of "+n+" mutations")
				}
			}
			if cnt["sqn_rollovers"] == 0 || cnt["full_wraps"] == 0 {
				f = append(f, "no rollover / full wrap observed in histories")
			}
			return f
		},
	}
	p.Units = func(tier string) []core.Unit {
		var us []core.Unit
		const chunk = 1 << 18
		for lo := 0; lo < 1<<24; lo += chunk {
			lo := lo
			us = append(us, core.Unit{Name: fmt.Sprintf("sweep-%06x", lo), Weight: 10, Run: func(c *core.Ctx) {
				c.Do(&core.Case{Oracle: "sweep", Target: "security.Count", I: []int64{int64(lo), int64(lo + chunk)}})
			}})
		}
		nh := 2000
		if tier == "thorough" {
			nh = 40000
		}
		for u := 0; u < 32; u++ {
			u := u
			us = append(us, core.Unit{Name: fmt.Sprintf("hist-%02d", u), Weight: 5, Run: func(c *core.Ctx) {
				for i := 0; i < nh/32; i++ {
					var o, s int64
					switch c.R.Intn(4) {
					case 0:
						o, s = 0xffff, int64(240+c.R.Intn(16))
					case 1:
						o, s = int64(c.R.Intn(4)), int64(250+c.R.Intn(6))
					default:
						o, s = int64(c.R.Intn(65536)), int64(c.R.Intn(256))
					}
					ln := int64(c.R.Range(1, 2000))
					if c.R.Chance(1, 20) {
						ln = 10000
					}
					k := &core.Case{Oracle: "history", Target: "security.Count", I: []int64{o, s, int64(c.R.Uint64() >> 1), ln}}
					c.Do(k)
					c.NonTrivial(k.Hash())
					c.Sample(k.Brief())
				}
			}})
		}
		for si := range c11BlindStarts {
			si := si
			us = append(us, core.Unit{Name: fmt.Sprintf("blind-enum-%02d", si), Weight: 8, Run: func(c *core.Ctx) {
				c.Do(&core.Case{Oracle: "blind-enum", Target: "security.Count", I: []int64{int64(si), int64(c.Pick(4, 5))}})
			}})
		}
		us = append(us, core.Unit{Name: "concurrent-readers", Weight: 10, Run: func(c *core.Ctx) {
			for i := 0; i < 4; i++ {
				k := &core.Case{Oracle: "concurrent-readers", Target: "security.Count", I: []int64{int64(c.R.Intn(65536)), int64(c.R.Intn(256)), 8, int64(c.Pick(200000, 2000000))}}
				c.Do(k)
				c.NonTrivial(k.Hash())
			}
		}})
		us = append(us, core.Unit{Name: "concurrent-private", Weight: 30, Run: func(c *core.Ctx) {
			for i := 0; i < c.Pick(2, 6); i++ {
				k := &core.Case{Oracle: "concurrent-private", Target: "security.Count", I: []int64{int64(c.R.Uint64() >> 1), 8, int64(c.Pick(2000000, 8000000))}}
				c.Do(k)
				c.NonTrivial(k.Hash())
			}
		}})
		us = append(us, coldUnits(tier, "security.Count", "count-alloc")...)
		for u := 0; u < 8; u++ {
			us = append(us, core.Unit{Name: fmt.Sprintf("copies-%02d", u), Weight: 8, Run: func(c *core.Ctx) {
				for i := 0; i < c.Pick(300, 10000); i++ {
					k := &core.Case{Oracle: "copies", Target: "security.Count", I: []int64{int64(c.R.Uint64() >> 1), int64(c.R.Range(3, 60))}}
					c.Do(k)
					c.NonTrivial(k.Hash())
				}
			}})
		}
		for u := 0; u < 16; u++ {
			u := u
			us = append(us, core.Unit{Name: fmt.Sprintf("blind-runs-%02d", u), Weight: 8, Run: func(c *core.Ctx) {
				for i := 0; i < c.Pick(6, 40); i++ {
					st := c11BlindStarts[c.R.Intn(len(c11BlindStarts))]
					if c.R.Bool() {
						st = [2]int64{int64(c.R.Intn(65536)), int64(c.R.Intn(256))}
					}
					long := int64(0)
					if c.Thorough() {
						long = 1
					}
					k := &core.Case{Oracle: "blind-runs", Target: "security.Count", I: []int64{st[0], st[1], int64(c.R.Uint64() >> 1), int64(c.R.Range(2, 12)), int64((u + i) % 6), long}}
					c.Do(k)
					c.NonTrivial(k.Hash())
				}
			}})
		}
		for w := 1; w <= 4; w++ {
			w := w
			us = append(us, core.Unit{Name: fmt.Sprintf("blind-wraps-%d", w), Weight: 10 * w, Run: func(c *core.Ctx) {
				st := c11BlindStarts[c.R.Intn(len(c11BlindStarts))]
				k := &core.Case{Oracle: "blind-wraps", Target: "security.Count", I: []int64{st[0], st[1], int64(w), int64(c.R.Intn(70000)), int64(w % 2), int64(c.R.Intn(4))}}
				c.Do(k)
				c.NonTrivial(k.Hash())
				k = &core.Case{Oracle: "blind-wraps", Target: "security.Count", I: []int64{0xffff, int64(0xff - c.R.Intn(2)), int64(w), int64(1 + c.R.Intn(3)), int64((w + 1) % 2), int64(c.R.Intn(4))}}
				c.Do(k)
				c.NonTrivial(k.Hash())
			}})
		}
		if tier == "thorough" {
			// the internal word is 32 bits wide: 256 unread wraps and one more
			us = append(us, core.Unit{Name: "blind-wraps-256", Weight: 200, Run: func(c *core.Ctx) {
				c.Do(&core.Case{Oracle: "blind-wraps", Target: "security.Count", I: []int64{0xffff, 0xfe, 256, 5, 0, 0}})
				c.Do(&core.Case{Oracle: "blind-wraps", Target: "security.Count", I: []int64{0x1234, 0x56, 257, 70001, 1, 2}})
			}})
		}
		us = append(us, coldEntryUnits(tier, "security.Count", "count")...)
		return us
	}
	core.Register(p)
}
