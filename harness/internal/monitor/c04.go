package monitor

import (
	"bytes"
	"fmt"
	"reflect"

	nas "github.com/free5gc/nas"

	"verifharness/internal/core"
	"verifharness/internal/prng"
	"verifharness/internal/refcodec"
	"verifharness/internal/reg"
)

// C04 — the wire format of every message matches the TS 24.501 tables.
// Reference-model monitor: the real decoder and a table-driven reference decoder
// see the same strings (built from known identifiers: legal and illegal
// lengths, any order, duplicates, every truncation); the real encoder and the
// reference encoder see the same well-formed messages.

const (
	entryDirect = 0 // nasMessage.<Msg>.Decode<Msg>
	entryPlain  = 1 // nas.Message.PlainNasDecode
)

// realDecode runs the library decoder through the chosen entry point.
func realDecode(def *refcodec.Msg, b []byte, entry int) (obj interface{}, m *nas.Message, err error) {
	in := cloneB(b)
	if entry == entryPlain {
		m = nas.NewMessage()
		err = m.PlainNasDecode(&in)
		for i := range in {
			in[i] = 0xa5 // the receive buffer is reused once the decoder has returned
		}
		if err == nil {
			names, _, o := bodyPointers(m)
			if len(names) == 1 {
				obj = o
			}
		}
		return
	}
	obj = newMsgObj(def.Name)
	dec := msgDecoder(obj, def.Name)
	if dec == nil {
		return nil, nil, fmt.Errorf("harness: no Decode%s", def.Name)
	}
	err = dec(&in)
	for i := range in {
		in[i] = 0xa5 // the receive buffer is reused once the decoder has returned
	}
	return
}

// oracle "decode": S=[msg] B=[bytes] I=[entry]
func c04Decode(c *core.Ctx, k *core.Case) {
	sp := mustSpec(c)
	if sp == nil {
		return
	}
	def := sp.Msg(k.S[0])
	if def == nil || newMsgObj(k.S[0]) == nil {
		c.Inconclusive("message " + k.S[0] + " missing from table or tree")
		return
	}
	b := k.B[0]
	entry := int(k.I[0])
	ref := refcodec.Decode(def, b)
	if ref.UnknownIDs > 0 || ref.HalfOctetLookalike > 0 {
		c.Count("out_of_domain_unknown_identifier", 1)
		return
	}
	if entry == entryPlain {
		// dispatch needs a full header naming this message
		if def.MsgType == nil || len(b) < def.HeaderLen() || b[0] != def.EPD() || int(b[def.HeaderLen()-1]) != *def.MsgType {
			entry = entryDirect
		}
	}
	obj, m, err := realDecode(def, b, entry)
	c.Eval(1)
	if ref.OK != (err == nil) {
		sig := "accepts-what-table-rejects"
		if ref.OK {
			sig = "rejects-what-table-accepts"
		}
		why := ref.Reason
		sn := ""
		if !ref.OK {
			sn = def.Slots[ref.Slot].Name
		}
		c.Fail(k, fmt.Sprintf("%s:%s:%s", sig, def.Name, sn), fmt.Sprintf("%s entry=%d input=%s: library err=%v, reference ok=%v (%s at slot %s)", def.Name, entry, hx(b), err, ref.OK, why, sn))
		return
	}
	if !ref.OK {
		c.Cover("reject_class", def.Name+":"+ref.Reason)
		return
	}
	if obj == nil {
		c.Fail(k, "no-single-body:"+def.Name, fmt.Sprintf("%s: decode succeeded but the message body is not uniquely populated", def.Name))
		return
	}
	if slot, msg := cmpDecoded(def, obj, ref); msg != "" {
		c.Fail(k, fmt.Sprintf("field-differs:%s.%s", def.Name, slot), fmt.Sprintf("%s.%s: %s (input %s)", def.Name, slot, msg, hx(b)))
	}
	if m != nil {
		names, hdr, _ := bodyPointers(m)
		if len(names) != 1 || names[0] != def.Name || !bytes.Equal(hdr, b[:def.HeaderLen()]) {
			c.Fail(k, "dispatch:"+def.Name, fmt.Sprintf("PlainNasDecode populated %v, header view %x, input header %x", names, hdr, b[:def.HeaderLen()]))
		}
	}
	// The generated Decode<Msg> is an exported method of the body: calling it a second time on
	// the SAME body value with another well-formed string must give, for the mandatory elements
	// and for every optional element the second string carries, exactly what the table says
	// (elements the second string lacks keep whatever they held: the decoder never clears them).
	if entry == entryDirect && len(b) < 4096 {
		r2 := prng.New(core.HashBytes(0x0404, b))
		b2 := refcodec.RandomPlan(def, r2, 5, r2.Intn(5)).Bytes()
		ref2 := refcodec.Decode(def, b2)
		if dec := msgDecoder(obj, def.Name); dec != nil && ref2.OK && ref2.UnknownIDs == 0 && ref2.HalfOctetLookalike == 0 {
			in2 := cloneB(b2)
			c.Eval(1)
			if err2 := dec(&in2); err2 != nil {
				c.Fail(k, "reused-body-rejects:"+def.Name, fmt.Sprintf("Decode%s called a second time on the same value rejects a well-formed string: %v (first %s, second %s)", def.Name, err2, hx(b), hx(b2)))
				return
			}
			// judge only what the second string carries
			for si := range ref2.Fields {
				if !def.Slots[si].Mandatory && !ref2.Fields[si].Present {
					ref2.Fields[si].Present = elemPresent(obj, &def.Slots[si])
					ref2.Fields[si].Skip = true
				}
			}
			if slot, msg := cmpDecoded(def, obj, ref2); msg != "" {
				c.Fail(k, fmt.Sprintf("reused-body-field-differs:%s.%s", def.Name, slot), fmt.Sprintf("%s.%s after a second Decode%s on the same value: %s (first %s, second %s)", def.Name, slot, def.Name, msg, hx(b), hx(b2)))
			}
		}
	}
}

// elemPresent reports whether the optional element of slot sl is set in obj.
func elemPresent(obj interface{}, sl *refcodec.Slot) bool {
	_, present, err := slotElem(reflect.ValueOf(obj).Elem(), sl)
	return err == nil && present
}

// oracle "encode": S=[msg] B=[well-formed plan bytes] I=[viaPlain]
func c04Encode(c *core.Ctx, k *core.Case) {
	sp := mustSpec(c)
	if sp == nil {
		return
	}
	def := sp.Msg(k.S[0])
	if def == nil {
		return
	}
	ref := refcodec.Decode(def, k.B[0])
	if !ref.OK {
		c.Inconclusive("harness: encode case is not a well-formed plan: " + ref.Reason)
		return
	}
	want := refcodec.Encode(def, ref.Fields)
	obj, err := buildMsg(def, ref.Fields)
	if err != nil {
		c.Fail(k, "structure:"+def.Name, err.Error())
		return
	}
	var got []byte
	c.Eval(1)
	if k.I[0] == 1 && def.MsgType != nil {
		m, err := wrapMsg(def, obj, k.B[0][:def.HeaderLen()])
		if err != nil {
			c.Fail(k, "structure:"+def.Name, err.Error())
			return
		}
		got, err = m.PlainNasEncode()
		if err != nil {
			c.Fail(k, "encode-error:"+def.Name, fmt.Sprintf("PlainNasEncode of a well-formed %s: %v", def.Name, err))
			return
		}
		c.Hold(k, "nas.Message.PlainNasEncode", got)
	} else {
		enc := msgEncoder(obj, def.Name)
		if enc == nil {
			c.Inconclusive("harness: no Encode" + def.Name)
			return
		}
		var buf bytes.Buffer
		if err := enc(&buf); err != nil {
			c.Fail(k, "encode-error:"+def.Name, fmt.Sprintf("Encode%s of a well-formed message: %v", def.Name, err))
			return
		}
		got = buf.Bytes()
	}
	if !bytes.Equal(got, want) {
		// name the first slot whose reference rendering is not found at its place
		c.Fail(k, "encoding-differs:"+def.Name+":"+firstDiffSlot(def, ref.Fields, got), fmt.Sprintf("%s: library emitted %s, table-driven encoder %s", def.Name, hx(got), hx(want)))
	}
}

func firstDiffSlot(def *refcodec.Msg, fields []refcodec.Field, got []byte) string {
	pos := 0
	for si := range def.Slots {
		one := make([]refcodec.Field, len(fields))
		if !def.Slots[si].Mandatory && !fields[si].Present {
			continue
		}
		one[si] = fields[si]
		// render just this slot
		part := refcodec.Encode(&refcodec.Msg{Slots: []refcodec.Slot{def.Slots[si]}}, []refcodec.Field{fields[si]})
		if pos+len(part) > len(got) || !bytes.Equal(got[pos:pos+len(part)], part) {
			return def.Slots[si].Name
		}
		pos += len(part)
	}
	return "trailing"
}

// oracle "structure": S=[msg] — live types and constants against the table.
func c04Structure(c *core.Ctx, k *core.Case) {
	sp := mustSpec(c)
	if sp == nil {
		return
	}
	def := sp.Msg(k.S[0])
	obj := newMsgObj(k.S[0])
	if def == nil || obj == nil {
		c.Fail(k, "structure:"+k.S[0], "message missing from table or tree")
		return
	}
	c.Eval(1)
	t := reflect.TypeOf(obj).Elem()
	if t.NumField() != len(def.Slots) {
		c.Fail(k, "structure:"+def.Name, fmt.Sprintf("struct has %d fields, table has %d slots", t.NumField(), len(def.Slots)))
		return
	}
	for i := range def.Slots {
		sl := &def.Slots[i]
		f := t.Field(i)
		if f.Name != sl.Name {
			c.Fail(k, "structure:"+def.Name, fmt.Sprintf("field %d is %s, table row %d is %s", i, f.Name, i, sl.Name))
			return
		}
		if (f.Type.Kind() == reflect.Ptr) == sl.Mandatory {
			c.Fail(k, "structure:"+def.Name, fmt.Sprintf("%s: pointer-ness disagrees with presence (mandatory=%v)", sl.Name, sl.Mandatory))
		}
		if !sl.Mandatory {
			cn := def.Name + sl.Name + "Type"
			v, ok := reg.IEIConsts[cn]
			if !ok {
				c.Fail(k, "iei-const:"+cn, "identifier constant "+cn+" is gone")
			} else if int(v) != sl.IEI {
				c.Fail(k, "iei-const:"+cn, fmt.Sprintf("%s = %#02x, table says %#02x", cn, v, sl.IEI))
			}
		}
	}
	if def.MsgType != nil {
		v, ok := reg.MsgTypeConsts["MsgType"+def.Name]
		if !ok || int(v) != *def.MsgType {
			c.Fail(k, "msgtype-const:"+def.Name, fmt.Sprintf("MsgType%s = %d (present %v), table says %d", def.Name, v, ok, *def.MsgType))
		}
	}
}

// truncationPoints lists the prefix lengths to try for a string of n octets.
func truncationPoints(n int, dense bool) []int {
	var pts []int
	if n <= 2000 && dense {
		for i := 0; i < n; i++ {
			pts = append(pts, i)
		}
		return pts
	}
	for i := 0; i < n; i++ {
		if i < 600 || i >= n-600 || i%257 == 0 {
			pts = append(pts, i)
		}
	}
	if !dense {
		// sparse: head, tail and a stride
		pts = pts[:0]
		step := n/24 + 1
		for i := 0; i < n; i++ {
			if i < 12 || i >= n-6 || i%step == 0 {
				pts = append(pts, i)
			}
		}
	}
	return pts
}

// c04SlotStrings generates, for one slot, strings with each boundary length in
// several contexts. fn receives the string and the class of the probed length.
func c04SlotStrings(r *prng.Rand, def *refcodec.Msg, si int, fn func(p *refcodec.Plan, class string)) {
	sl := &def.Slots[si]
	for _, n := range refcodec.BoundaryLens(sl) {
		class := "in-range"
		switch {
		case sl.LenSize() == 0:
			class = "fixed"
		case !sl.LenOK(n) && n < sl.Min:
			class = "below-min"
		case !sl.LenOK(n) && n > sl.Max:
			class = "above-max"
		case !sl.LenOK(n):
			class = "not-allowed"
		case n == sl.Min && n == sl.Max:
			class = "min-max"
		case n == sl.Min:
			class = "min"
		case n == sl.Max:
			class = "max"
		}
		if n > 70000 {
			continue
		}
		shape := r.Intn(6)
		if sl.Mandatory {
			p := refcodec.NewPlan(def, r, shape)
			p.Mand[si].Decl = n
			p.Mand[si].Val = refcodec.Content(r, def, shape, n)
			fn(p, class)
			// followed by every optional
			q := refcodec.RandomPlan(def, r, 1, shape)
			q.Mand[si].Decl = n
			q.Mand[si].Val = refcodec.Content(r, def, shape, n)
			fn(q, class)
			continue
		}
		probe := refcodec.OptElem(def, si, n, refcodec.Content(r, def, shape, n), r)
		// alone
		p := refcodec.NewPlan(def, r, shape)
		p.Opt = append(p.Opt, probe)
		fn(p, class)
		// among all others, table order
		p = refcodec.NewPlan(def, r, shape)
		for _, sj := range def.OptSlots() {
			if sj == si {
				p.Opt = append(p.Opt, probe)
			} else {
				p.Opt = append(p.Opt, refcodec.LegalOpt(def, sj, r, shape))
			}
		}
		fn(p, class)
		// duplicated: a legal copy first, the probe last (last one wins) and the converse
		p = refcodec.NewPlan(def, r, shape)
		p.Opt = append(p.Opt, refcodec.LegalOpt(def, si, r, shape), probe)
		fn(p, class)
		p = refcodec.NewPlan(def, r, shape)
		p.Opt = append(p.Opt, probe, refcodec.LegalOpt(def, si, r, shape))
		fn(p, class)
		// last in reversed order
		p = refcodec.NewPlan(def, r, shape)
		opts := def.OptSlots()
		for j := len(opts) - 1; j >= 0; j-- {
			if opts[j] != si {
				p.Opt = append(p.Opt, refcodec.LegalOpt(def, opts[j], r, shape))
			}
		}
		p.Opt = append(p.Opt, probe)
		fn(p, class)
	}
}

func init() {
	p := &core.Property{
		ID:         "C04",
		Interleave: []string{"decode", "encode"},
		Rule:       "decoder: for every message × every slot × declared length in {0,1,min−1,min,min+1,mid,max−1,max,max+1,type-max} × context {alone, among all others, duplicated before/after a legal copy, last in reversed order}, the string and all its prefixes go through the real decoder (direct Decode<Msg> and PlainNasDecode) and the table-driven reference decoder; accept/reject and every slot's presence, identifier octet, Len and value must agree. encoder: well-formed plans (9 presence patterns) are built as message values and the emitted bytes compared with the reference encoder. structure: live struct layout and identifier constants against the table. Non-trivial = string has at least one optional element or a length-bearing mandatory element; distinct by message and bytes.",
		Assumptions: []string{
			"spec/messages.json: TS 24.501 Rel-15 section 8.2/8.3 tables, frozen at authoring time from the pinned tree and reviewed as far as possible without the document; it does not follow later changes of /repo",
			"domain = strings built from known identifiers; strings in which the reference decoder meets an unknown identifier octet (or a 0x0X type-1 look-alike) are counted and skipped here (C01/C03 still judge them)",
			"dynamic half only: what the 90 generated functions do on the strings generated; no AST analysis (outside this technique)",
		},
		Oracles: map[string]func(*core.Ctx, *core.Case){"cold-entries": coldEntries, "cold-concurrent": coldConcurrent, "decode": c04Decode, "encode": c04Encode, "structure": c04Structure},
	}
	p.Floors = func(tier string, cov map[string]map[string]int64, cnt map[string]int64) []string {
		sp, err := codecSpec()
		if err != nil {
			return []string{"messages.json unreadable"}
		}
		var f []string
		for _, def := range sp.Messages {
			if cov["structure"][def.Name] == 0 {
				f = append(f, "structure of "+def.Name+" not checked")
			}
			if cov["encode"][def.Name] == 0 {
				f = append(f, "no encode case for "+def.Name)
			}
			for si := range def.Slots {
				sl := &def.Slots[si]
				if sl.LenSize() == 0 {
					continue
				}
				key := def.Name + "." + sl.Name
				if cov["slot_accept"][key+":min"] == 0 || cov["slot_accept"][key+":max"] == 0 {
					f = append(f, "no accept at min/max for "+key)
				}
				minA := sl.Min
				if len(sl.Allowed) == 0 && minA > 0 && cov["slot_reject"][key+":below-min"] == 0 {
					f = append(f, "no reject below min for "+key)
				}
				if sl.Max < sl.TypeMax() && cov["slot_reject"][key+":above-max"] == 0 {
					f = append(f, "no reject above max for "+key)
				}
			}
			for _, cl := range []string{"truncated:value", "truncated:length"} {
				hasLen := false
				for si := range def.Slots {
					if def.Slots[si].LenSize() > 0 {
						hasLen = true
					}
				}
				if cl == "truncated:length" && !hasLen {
					continue
				}
				if cov["reject_class"][def.Name+":"+cl] == 0 {
					f = append(f, "truncation class "+cl+" never seen for "+def.Name)
				}
			}
		}
		if len(f) > 10 {
			f = append(f[:10], fmt.Sprintf("… and %d more", len(f)-10))
		}
		return f
	}
	p.Units = func(tier string) []core.Unit {
		sp, err := codecSpec()
		if err != nil {
			return []core.Unit{{Name: "spec", Weight: 1, Run: func(c *core.Ctx) { c.Inconclusive("messages.json: " + err.Error()) }}}
		}
		var us []core.Unit
		for _, def := range sp.Messages {
			def := def
			us = append(us, core.Unit{Name: "structure-" + def.Name, Weight: 1, Run: func(c *core.Ctx) {
				c.Do(&core.Case{Oracle: "structure", Target: "nasMessage." + def.Name, S: []string{def.Name}})
				c.Cover("structure", def.Name)
			}})
			for si := range def.Slots {
				si := si
				sl := &def.Slots[si]
				if si < def.HeaderLen() && sl.LenSize() == 0 {
					continue // header octets
				}
				w := 20
				if sl.Max > 1000 {
					w = 200
				}
				us = append(us, core.Unit{Name: fmt.Sprintf("slot-%s.%s", def.Name, sl.Name), Weight: w, Run: func(c *core.Ctx) {
					reps := c.Pick(1, 6)
					for rep := 0; rep < reps; rep++ {
						c04SlotStrings(c.R, def, si, func(pl *refcodec.Plan, class string) {
							b := pl.Bytes()
							key := def.Name + "." + sl.Name
							full := refcodec.Decode(def, b)
							if full.OK && (class == "min" || class == "max" || class == "min-max") {
								if class != "max" {
									c.Cover("slot_accept", key+":min")
								}
								if class != "min" {
									c.Cover("slot_accept", key+":max")
								}
							}
							if !full.OK && full.Reason == "length" && full.Slot == si {
								c.Cover("slot_reject", key+":"+class)
							}
							entry := int64(rep+len(b)) % 2
							k := &core.Case{Oracle: "decode", Target: "nasMessage." + def.Name, S: []string{def.Name}, B: [][]byte{b}, I: []int64{entry}}
							c.Do(k)
							c.NonTrivial(k.Hash())
							c.Sample(k.Brief())
							for _, cut := range truncationPoints(len(b), len(b) <= 400 || c.Thorough()) {
								kk := &core.Case{Oracle: "decode", Target: "nasMessage." + def.Name, S: []string{def.Name}, B: [][]byte{b[:cut]}, I: []int64{int64(cut) % 2}}
								c.Do(kk)
								if cut > def.HeaderLen() {
									c.NonTrivial(kk.Hash())
								}
							}
							if pl.WellFormed() {
								ke := &core.Case{Oracle: "encode", Target: "nasMessage." + def.Name, S: []string{def.Name}, B: [][]byte{b}, I: []int64{int64(len(b)) % 2}}
								c.Do(ke)
								c.Cover("encode", def.Name)
								c.NonTrivial(ke.Hash())
							}
						})
					}
				}})
			}
			if len(def.OptSlots()) > 0 {
				us = append(us, core.Unit{Name: "many-" + def.Name, Weight: 10, Run: func(c *core.Ctx) {
					// heavy repetition of optional elements: "any sequence of known
					// elements, the last occurrence wins" has no bound on the count
					for _, n := range manyCounts(c.Thorough()) {
						pl := manyOpts(def, c.R, n)
						b := pl.Bytes()
						k := &core.Case{Oracle: "decode", Target: "nasMessage." + def.Name, S: []string{def.Name}, B: [][]byte{b}, I: []int64{int64(n) % 2}}
						c.Do(k)
						c.NonTrivial(k.Hash())
						c.Count("many_element_strings", 1)
						// cut inside the last three elements
						for cut := len(b) - 1; cut > len(b)-8 && cut > def.HeaderLen(); cut-- {
							c.Do(&core.Case{Oracle: "decode", Target: "nasMessage." + def.Name, S: []string{def.Name}, B: [][]byte{b[:cut]}, I: []int64{int64(cut) % 2}})
						}
					}
				}})
			}
			us = append(us, core.Unit{Name: "plans-" + def.Name, Weight: 30, Run: func(c *core.Ctx) {
				n := c.Pick(60, 1500)
				for i := 0; i < n; i++ {
					pl := refcodec.RandomPlan(def, c.R, i, c.R.Intn(6))
					b := pl.Bytes()
					ke := &core.Case{Oracle: "encode", Target: "nasMessage." + def.Name, S: []string{def.Name}, B: [][]byte{b}, I: []int64{int64(i) % 2}}
					c.Do(ke)
					c.Cover("encode", def.Name)
					c.Cover("pattern", fmt.Sprint(i%9))
					kd := &core.Case{Oracle: "decode", Target: "nasMessage." + def.Name, S: []string{def.Name}, B: [][]byte{b}, I: []int64{int64(i/2) % 2}}
					c.Do(kd)
					if len(pl.Opt) > 0 {
						c.NonTrivial(ke.Hash())
						c.NonTrivial(kd.Hash())
					}
					if i%7 == 0 {
						for _, cut := range truncationPoints(len(b), false) {
							c.Do(&core.Case{Oracle: "decode", Target: "nasMessage." + def.Name, S: []string{def.Name}, B: [][]byte{b[:cut]}, I: []int64{int64(cut) % 2}})
						}
					}
				}
			}})
		}
		us = append(us, bigUnits(sp.Messages, tier, 60, func(c *core.Ctx, d *domainPDU, i int) {
			k := &core.Case{Oracle: "decode", Target: "nasMessage." + d.Def.Name, S: []string{d.Def.Name}, B: [][]byte{d.B}, I: []int64{int64(i) % 2}}
			c.Do(k)
			if i%4 == 0 {
				c.NonTrivial(k.Hash())
			}
		})...)
		us = append(us, domainUnits(sp, sp.Messages, tier, 30, func(c *core.Ctx, d *domainPDU, i int) {
			k := &core.Case{Oracle: "decode", Target: "nasMessage." + d.Def.Name, S: []string{d.Def.Name}, B: [][]byte{d.B}, I: []int64{int64(i) % 2}}
			c.Do(k)
			if i%16 == 0 {
				c.NonTrivial(k.Hash())
			}
		})...)
		us = append(us, coldUnits(tier, "nasMessage", "decode", "encode")...)
		us = append(us, coldEntryUnits(tier, "nasMessage", "codec")...)
		return us
	}
	core.Register(p)
}

// manyCounts lists the element counts of the heavy-repetition strings.
func manyCounts(thorough bool) []int {
	if thorough {
		return []int{31, 32, 33, 63, 64, 65, 66, 100, 127, 128, 129, 200, 255, 256, 257, 300, 1000, 5000}
	}
	return []int{33, 65, 66, 129, 257, 300}
}

// manyOpts lays out n optional elements of def (small ones preferred, any
// order, heavy repetition) behind a minimal mandatory part; the last element of
// the string is one that occurs nowhere before it when the message has at
// least two optional slots, so dropping the tail changes the decoded value.
func manyOpts(def *refcodec.Msg, r *prng.Rand, n int) *refcodec.Plan {
	pl := refcodec.NewPlan(def, r, 3)
	opts := def.OptSlots()
	var small []int
	for _, si := range opts {
		if def.Slots[si].Min <= 8 {
			small = append(small, si)
		}
	}
	if len(small) == 0 {
		small = opts
	}
	last := small[r.Intn(len(small))]
	pool := small
	if len(small) > 1 {
		pool = nil
		for _, si := range small {
			if si != last {
				pool = append(pool, si)
			}
		}
	}
	mk := func(si int) refcodec.Elem {
		sl := &def.Slots[si]
		m := sl.Min
		if len(sl.Allowed) > 0 {
			m = sl.Allowed[0]
		}
		return refcodec.OptElem(def, si, m, r.Bytes(m), r)
	}
	for j := 0; j < n-1; j++ {
		pl.Opt = append(pl.Opt, mk(pool[r.Intn(len(pool))]))
	}
	pl.Opt = append(pl.Opt, mk(last))
	return pl
}
