package monitor

import (
	"os"
	"path/filepath"
	"sort"
	"sync"

	"verifharness/internal/prng"
	"verifharness/internal/refcodec"
)

// Hostile workload shared by C01, C03 and C10: byte-level operators applied to
// reference renderings of plans.

// mutate applies one of the byte-level operators to b.
func mutate(r *prng.Rand, def *refcodec.Msg, b []byte, op int, other []byte) []byte {
	out := cloneB(b)
	switch op % 10 {
	case 0: // truncate
		if len(out) > 0 {
			out = out[:r.Intn(len(out))]
		}
	case 1: // flip a bit
		if len(out) > 0 {
			out[r.Intn(len(out))] ^= 1 << uint(r.Intn(8))
		}
	case 2: // overwrite a byte
		if len(out) > 0 {
			out[r.Intn(len(out))] = r.Byte()
		}
	case 3: // insert a byte
		i := r.Intn(len(out) + 1)
		out = append(out[:i], append([]byte{r.Byte()}, out[i:]...)...)
	case 4: // delete a byte
		if len(out) > 0 {
			i := r.Intn(len(out))
			out = append(out[:i], out[i+1:]...)
		}
	case 5: // splice with another message
		if len(other) > 0 && len(out) > 0 {
			out = append(out[:r.Intn(len(out))], other[r.Intn(len(other)):]...)
		}
	case 6: // append unknown identifiers
		for i := r.Range(1, 6); i > 0; i-- {
			out = append(out, []byte{0x01, 0x02, 0x7f, 0x6f, 0x00, 0x3f}[r.Intn(6)])
		}
	case 7: // append type-1 look-alikes 0x08..0x0f and 0x8X..0xFX
		for i := r.Range(1, 4); i > 0; i-- {
			if r.Bool() {
				out = append(out, byte(0x08+r.Intn(8)))
			} else {
				out = append(out, byte(0x80+r.Intn(0x80)))
			}
		}
	case 8: // overwrite a length-looking octet with an extreme
		if len(out) > def.HeaderLen() {
			out[def.HeaderLen()+r.Intn(len(out)-def.HeaderLen())] = []byte{0x00, 0xff, 0x7f, 0x80}[r.Intn(4)]
		}
	case 9: // random tail
		out = append(out, r.Bytes(r.Range(1, 40))...)
	}
	return out
}

// longInputs builds the long hostile inputs of C01: n octets of a repeating shape
// behind a valid header of def.
func longInput(r *prng.Rand, def *refcodec.Msg, shape, n int) []byte {
	out := refcodec.MinimalBody(def, r)
	opts := def.OptSlots()
	pick := func(format string) *refcodec.Slot {
		for _, si := range opts {
			if def.Slots[si].Format == format {
				return &def.Slots[si]
			}
		}
		return nil
	}
	switch shape % 7 {
	case 5:
		hs := truncHeaders(def)
		h := hs[r.Intn(len(hs))]
		for len(out) < n {
			out = append(out, h...)
		}
		return out
	case 6:
		if b := nestedDeep(def, r, n, -1); b != nil {
			return b
		}
	}
	for len(out) < n {
		switch shape % 5 {
		case 0: // unknown identifiers
			out = append(out, 0x01)
		case 1: // type-1 elements
			if sl := pick("TV1"); sl != nil {
				out = append(out, byte(sl.IEI)<<4|r.Byte()&0xf)
			} else {
				out = append(out, 0x90|r.Byte()&0xf)
			}
		case 2: // minimal TLVs
			if sl := pick("TLV"); sl != nil {
				m := sl.Min
				if len(sl.Allowed) > 0 {
					m = sl.Allowed[0]
				}
				out = append(out, byte(sl.IEI), byte(m))
				out = append(out, make([]byte, m)...)
			} else {
				out = append(out, 0x02)
			}
		case 3: // minimal TLV-Es
			if sl := pick("TLV-E"); sl != nil {
				out = append(out, byte(sl.IEI), byte(sl.Min>>8), byte(sl.Min))
				out = append(out, make([]byte, sl.Min)...)
			} else {
				out = append(out, 0x03)
			}
		case 4: // one maximal TLV-E then filler
			if sl := pick("TLV-E"); sl != nil && len(out) < 100 {
				m := sl.Max
				if m > n {
					m = n
				}
				out = append(out, byte(sl.IEI), byte(m>>8), byte(m))
				out = append(out, r.Bytes(m)...)
			} else {
				out = append(out, r.Byte())
			}
		}
	}
	return out
}

var (
	samplesOnce sync.Once
	repoSamples [][]byte
)

// repositorySamples loads the raw message samples the repository ships
// (testdata/GmmMessage, testdata/GsmMessage); absent files are simply skipped.
func repositorySamples() [][]byte {
	samplesOnce.Do(func() {
		repo := os.Getenv("VERIF_REPO")
		if repo == "" {
			repo = "/repo"
		}
		for _, d := range []string{"GmmMessage", "GsmMessage"} {
			ents, err := os.ReadDir(filepath.Join(repo, "testdata", d))
			if err != nil {
				continue
			}
			var names []string
			for _, e := range ents {
				if !e.IsDir() {
					names = append(names, e.Name())
				}
			}
			sort.Strings(names)
			for _, n := range names {
				if b, err := os.ReadFile(filepath.Join(repo, "testdata", d, n)); err == nil && len(b) < 1<<17 {
					repoSamples = append(repoSamples, b)
				}
			}
		}
	})
	return repoSamples
}

// dispatchable lists the message definitions reachable through PlainNasDecode.
func dispatchable(sp *refcodec.Spec) []*refcodec.Msg {
	var out []*refcodec.Msg
	for _, m := range sp.Messages {
		if m.MsgType != nil {
			out = append(out, m)
		}
	}
	return out
}

// truncHeaders lists, for every length-bearing optional slot of def, the element
// header (identifier + length field) with a LEGAL declared length (maximum and
// middle of the range). Repeated with nothing behind it, such a header is what a
// scan that allocates before it checks, or that does not advance on a truncated
// element, pays for over and over.
func truncHeaders(def *refcodec.Msg) [][]byte {
	var hs [][]byte
	for _, si := range def.OptSlots() {
		sl := &def.Slots[si]
		for _, l := range []int{sl.Max, (sl.Min + sl.Max) / 2} {
			if !sl.LenOK(l) || l == 0 {
				continue
			}
			switch sl.Format {
			case "TLV-E":
				hs = append(hs, []byte{byte(sl.IEI), byte(l >> 8), byte(l)})
			case "TLV":
				hs = append(hs, []byte{byte(sl.IEI), byte(l)})
			}
		}
	}
	if len(hs) == 0 {
		hs = [][]byte{{0x7f, 0xff, 0xff}}
	}
	return hs
}

// truncHeaderInput is a valid mandatory part followed by n octets of one header.
func truncHeaderInput(def *refcodec.Msg, r *prng.Rand, h []byte, n int) []byte {
	out := refcodec.MinimalBody(def, r)
	for i := 0; i < n; i += len(h) {
		out = append(out, h...)
	}
	return out
}

// nestedDeep nests def in its own container slot, level after level, with a minimal
// mandatory part at every level, up to n octets (nil if def has no container slot).
func containerSlots(def *refcodec.Msg) []int {
	var out []int
	for si := range def.Slots {
		if isContainerSlot(def.Slots[si].Name) && def.Slots[si].LenSize() == 2 {
			out = append(out, si)
		}
	}
	return out
}

func nestedDeep(def *refcodec.Msg, r *prng.Rand, n int, csi int) []byte {
	if csi < 0 {
		cs := containerSlots(def)
		if len(cs) == 0 {
			return nil
		}
		csi = cs[r.Intn(len(cs))]
	}
	sl := &def.Slots[csi]
	inner := refcodec.MinimalBody(def, r)
	for {
		b := refcodec.MinimalBody(def, r)
		if sl.Mandatory {
			// the container is part of the mandatory part: rebuild with it
			pl := refcodec.NewPlan(def, r, 0)
			for j := range pl.Mand {
				if j >= def.HeaderLen() && def.Slots[j].LenSize() > 0 {
					m := def.Slots[j].Min
					pl.Mand[j].Decl, pl.Mand[j].Val = m, make([]byte, m)
				}
			}
			pl.Mand[csi].Decl, pl.Mand[csi].Val = len(inner), inner
			b = pl.Bytes()
		} else {
			b = append(b, byte(sl.IEI), byte(len(inner)>>8), byte(len(inner)))
			b = append(b, inner...)
		}
		if len(b) > n || len(inner) > 65535 {
			break
		}
		inner = b
	}
	return inner
}
