package monitor

import (
	"bytes"
	"encoding/hex"
	"fmt"
	nas "github.com/free5gc/nas"
	"github.com/free5gc/nas/nasConvert"
	"github.com/free5gc/nas/nasType"
	"github.com/free5gc/nas/uePolicyContainer"
	"github.com/free5gc/openapi/models"
	"os"
	"runtime"
	"runtime/debug"
	"strings"
	"sync"
	"sync/atomic"
	"time"
	"verifharness/internal/refcodec"
	"verifharness/internal/refconv"

	"github.com/free5gc/nas/security"

	"verifharness/internal/core"
	"verifharness/internal/prng"
	"verifharness/internal/refcrypto"
)

// Concurrent probes for the functional properties.
//
// The sequential oracles of C06/C07/C14 call one function at a time. State the
// library keeps between calls (a cached key schedule, a lazily filled table) is
// then always consistent. Here G goroutines start from a barrier and call the
// same entry points with DIFFERENT arguments; every result is still compared
// with the value the standard function gives for that worker's own arguments
// (computed beforehand, sequentially, by the reference implementation).

// raceScale divides an iteration count when the worker is the race-detector side run (every
// memory access is instrumented there; a race needs far fewer repetitions to be reported than
// a wrong result needs to be produced).
func raceScale(n int) int {
	if os.Getenv("VERIF_RACE_SIDE") == "1" {
		if n /= 25; n < 40 {
			n = 40
		}
	}
	return n
}

// concurrentProbe starts g workers at a barrier; worker w calls fn(w, i) for
// i < iters and stops at its first complaint. Panics are recovered per worker.
// It returns the complaints (at most one per worker) in worker order.
func concurrentProbe(g, iters int, fn func(w, i int) string) []string {
	out := make([]string, g)
	var wg sync.WaitGroup
	// A spinning barrier: a closed channel makes the waiters runnable one wake-up at a time
	// (microseconds apart); here every worker is already running on a processor and leaves
	// the barrier within nanoseconds of the others.
	var ready, release int32
	for w := 0; w < g; w++ {
		wg.Add(1)
		go func(w int) {
			defer wg.Done()
			defer func() {
				if r := recover(); r != nil {
					out[w] = fmt.Sprintf("panic:%s@%s: %v", core.PanicClass(r), core.RepoFrame(debug.Stack()), r)
				}
			}()
			atomic.AddInt32(&ready, 1)
			for spins := 0; atomic.LoadInt32(&release) == 0; spins++ {
				if spins&0xff == 0xff {
					runtime.Gosched()
				}
			}
			for i := 0; i < iters; i++ {
				if msg := fn(w, i); msg != "" {
					out[w] = msg
					return
				}
			}
		}(w)
	}
	for atomic.LoadInt32(&ready) < int32(g) {
		runtime.Gosched()
	}
	atomic.StoreInt32(&release, 1)
	wg.Wait()
	var msgs []string
	for _, m := range out {
		if m != "" {
			msgs = append(msgs, m)
		}
	}
	return msgs
}

type cryptoJob struct {
	key         [16]byte
	count       uint32
	bearer, dir uint32
	in, want    []byte
	nbits       int
	wantMac     uint32
}

// oracle "concurrent" (C06 and C07): I=[alg, seed, workers, iters, distinctKeys]
// Workers share `distinctKeys` keys (round robin), so that some pairs use the same
// key and others different ones; each worker cycles through four jobs.
func cryptoConcurrent(c *core.Ctx, k *core.Case, mac bool) {
	if !refReady(c) {
		return
	}
	alg, g, iters, nk := int(k.I[0]), int(k.I[2]), raceScale(int(k.I[3])), int(k.I[4])
	r := prng.New(uint64(k.I[1]))
	keys := make([][16]byte, nk)
	for i := range keys {
		copy(keys[i][:], r.Bytes(16))
	}
	jobs := make([][]cryptoJob, g)
	for w := range jobs {
		for j := 0; j < 4; j++ {
			n := r.Range(1, 48)
			if j == 3 {
				n = r.Range(100, 300)
			}
			if j == 0 && w%2 == 0 {
				n = 0 // an empty payload / message: the shortest request there is
			}
			jb := cryptoJob{key: keys[w%nk], count: r.Uint32(), bearer: uint32(r.Intn(32)), dir: uint32(r.Intn(2)), in: r.Bytes(n), nbits: 8 * n}
			if mac {
				switch alg {
				case 1:
					jb.wantMac = refcrypto.EIA1(jb.key, jb.count, jb.bearer, jb.dir, jb.in, jb.nbits)
				case 2:
					jb.wantMac = refcrypto.EIA2(jb.key, jb.count, jb.bearer, jb.dir, jb.in)
				case 3:
					jb.wantMac = refcrypto.EIA3(jb.key, jb.count, jb.bearer, jb.dir, jb.in, jb.nbits)
				}
			} else {
				switch alg {
				case 1:
					jb.want = refcrypto.EEA1(jb.key, jb.count, jb.bearer, jb.dir, jb.in, jb.nbits)
				case 2:
					jb.want = refcrypto.EEA2(jb.key, jb.count, jb.bearer, jb.dir, jb.in)
				case 3:
					jb.want = refcrypto.EEA3(jb.key, jb.count, jb.bearer, jb.dir, jb.in, jb.nbits)
				}
			}
			jobs[w] = append(jobs[w], jb)
		}
	}
	msgs := concurrentProbe(g, iters, func(w, i int) string {
		jb := &jobs[w][i%4]
		if mac {
			var m []byte
			var err error
			if i%2 == 0 {
				m, err = security.NASMacCalculate(uint8(alg), jb.key, jb.count, uint8(jb.bearer), uint8(jb.dir), cloneB(jb.in))
			} else {
				switch alg {
				case 1:
					m, err = security.NIA1(jb.key, jb.count, byte(jb.bearer), jb.dir, cloneB(jb.in), uint64(jb.nbits))
				case 2:
					m, err = security.NIA2(jb.key, jb.count, uint8(jb.bearer), uint8(jb.dir), cloneB(jb.in))
				case 3:
					m, err = security.NIA3(jb.key, jb.count, uint8(jb.bearer), uint8(jb.dir), cloneB(jb.in), uint32(jb.nbits))
				}
			}
			if err != nil || len(m) != 4 || uint32(m[0])<<24|uint32(m[1])<<16|uint32(m[2])<<8|uint32(m[3]) != jb.wantMac {
				return fmt.Sprintf("worker %d call %d: MAC %x (err %v), 128-EIA%d under this worker's key gives %08x", w, i, m, err, alg, jb.wantMac)
			}
			return ""
		}
		buf := cloneB(jb.in)
		var got []byte
		var err error
		if i%2 == 0 {
			err = security.NASEncrypt(uint8(alg), jb.key, jb.count, uint8(jb.bearer), uint8(jb.dir), buf)
			got = buf
		} else {
			switch alg {
			case 1:
				got, err = security.NEA1(jb.key, jb.count, jb.bearer, jb.dir, buf, uint32(jb.nbits))
			case 2:
				got, err = security.NEA2(jb.key, jb.count, uint8(jb.bearer), uint8(jb.dir), buf)
			case 3:
				got, err = security.NEA3(jb.key, jb.count, uint8(jb.bearer), uint8(jb.dir), buf, uint32(jb.nbits))
			}
		}
		if err != nil || !bytes.Equal(got, jb.want) {
			return fmt.Sprintf("worker %d call %d: ciphertext %s (err %v), 128-EEA%d under this worker's key gives %s", w, i, hx(got), err, alg, hx(jb.want))
		}
		return ""
	})
	c.Eval(int64(g * iters))
	c.Count("concurrent_calls", int64(g*iters))
	if len(msgs) > 0 {
		what := "ciphertext"
		if mac {
			what = "mac"
		}
		sig := fmt.Sprintf("concurrent-%s-mismatch:alg%d", what, alg)
		if len(msgs[0]) > 6 && msgs[0][:6] == "panic:" {
			sig = fmt.Sprintf("concurrent-panic:alg%d", alg)
		}
		c.Fail(k, sig, fmt.Sprintf("%d workers, %d distinct keys, %d calls each; %d workers saw a wrong result although each call is right when made alone: %s", g, nk, iters, len(msgs), msgs[0]))
	}
}

func c06Concurrent(c *core.Ctx, k *core.Case) { cryptoConcurrent(c, k, false) }
func c07Concurrent(c *core.Ctx, k *core.Case) { cryptoConcurrent(c, k, true) }

func cryptoConcurrentUnits(oracle string) []core.Unit {
	var us []core.Unit
	for alg := 1; alg <= 3; alg++ {
		alg := alg
		us = append(us, core.Unit{Name: fmt.Sprintf("concurrent-alg%d", alg), Weight: 60, Run: func(c *core.Ctx) {
			for i := 0; i < c.Pick(4, 12); i++ {
				k := &core.Case{Oracle: oracle, Target: "security", I: []int64{int64(alg), int64(c.R.Uint64() >> 1), 8, int64(c.Pick(3000, 20000)), int64([]int{2, 1, 3, 8}[i%4])}}
				c.Do(k)
				c.NonTrivial(k.Hash())
			}
		}})
	}
	return us
}

// oracle "concurrent-cold" (C14): I=[seed, workers, poolSize] — the target's helper is
// entered by all workers at once in a process in which it has not been called
// before (the unit runs in a process of its own, and so does a replay): lazily
// initialised package state is built under contention.
func c14ConcurrentCold(c *core.Ctx, k *core.Case) {
	t := c14Find(k.Target)
	if t == nil {
		c.Inconclusive("unknown C14 target " + k.Target)
		return
	}
	r := prng.New(uint64(k.I[0]))
	g, n := int(k.I[1]), int(k.I[2])
	pool := make([][]byte, 0, n+256)
	for i := 0; i < n; i++ {
		pool = append(pool, c14Grammar(r, t, i))
	}
	// every value of the last octet of a well-shaped input (zone octets, type octets)
	base := c14Grammar(r, t, 7)
	if t.maxN > 0 && len(base) != t.maxN {
		base = r.Bytes(t.maxN)
	}
	if len(base) > 0 {
		for v := 0; v < 256; v++ {
			b := cloneB(base)
			b[len(b)-1] = byte(v)
			pool = append(pool, b)
			b2 := cloneB(base)
			b2[0] = byte(v)
			pool = append(pool, b2)
		}
	}
	perms := make([][]int, g)
	for w := range perms {
		perms[w] = r.Perm(len(pool))
	}
	msgs := concurrentProbe(g, len(pool), func(w, i int) string {
		t.fn(cloneB(pool[perms[w][i]]))
		return ""
	})
	c.Eval(int64(g * len(pool)))
	c.Count("concurrent_cold_calls", int64(g*len(pool)))
	if len(msgs) > 0 {
		c.Fail(k, "concurrent-"+msgs[0][:min3(len(msgs[0]), 120)], fmt.Sprintf("%s called from %d goroutines at once: %s", t.name, g, msgs[0]))
	}
}

// zeroRuleUnit: parameters constructed so that the first ZUC initialisation round
// meets the "0 is written 2^31-1" rule (see refcrypto.ZeroRuleParams).
func zeroRuleUnit(mac bool) core.Unit {
	return core.Unit{Name: "zuc-zero-rule", Weight: 20, Run: func(c *core.Ctx) {
		if !refReady(c) {
			return
		}
		targets := []uint32{0, 0, 0, 1, 2, 3, 4, 5, 6, 7, 8, 0x7ffffffe, 0x7ffffffd}
		for i := 0; i < c.Pick(len(targets)*2, len(targets)*8); i++ {
			target := targets[i%len(targets)]
			key, count, bearer, dir, ok := refcrypto.FeedbackParams(c.R.Uint64, mac, target, 1<<21)
			if !ok {
				c.Inconclusive("no ZUC parameters with the wanted first-round feedback found in 2^21 draws")
				return
			}
			before := atomic.LoadInt64(&refcrypto.ZeroRuleEvents)
			beforeEdge := atomic.LoadInt64(&refcrypto.EdgeFeedbackEvents)
			for _, n := range []int{0, 1, 8, 32, 33, 256, 1000} {
				for api := int64(0); api < 2; api++ {
					nb := n
					if api == apiNAS {
						nb = (n + 7) / 8 * 8
					}
					var k *core.Case
					if mac {
						k = &core.Case{Oracle: "mac", Target: "security.NIA3", I: []int64{3, int64(count), int64(bearer), int64(dir), int64(nb), api, 0}, B: [][]byte{key[:], c.R.Bytes((nb + 7) / 8)}}
					} else {
						k = &core.Case{Oracle: "cipher", Target: "security.NEA3", I: []int64{3, int64(count), int64(bearer), int64(dir), int64(nb), api}, B: [][]byte{key[:], c.R.Bytes((nb + 7) / 8)}}
					}
					c.Do(k)
					c.NonTrivial(k.Hash())
				}
			}
			if atomic.LoadInt64(&refcrypto.ZeroRuleEvents) > before {
				c.Count("zuc_zero_rule_inputs", 1)
			}
			if atomic.LoadInt64(&refcrypto.EdgeFeedbackEvents) > beforeEdge {
				c.Count("zuc_edge_feedback_inputs", 1)
			}
		}
	}}
}

// oracle "many-keys" (C06 and C07): I=[alg, seed, nKeys] — one call under key A, then one
// call under each of nKeys other pairwise distinct keys, then key A again, and a sample of the
// earlier keys once more; every result is compared with the reference. State the library keeps
// per key (schedules, tables with eviction) is exercised past any plausible capacity.
func cryptoManyKeys(c *core.Ctx, k *core.Case, mac bool) {
	if !refReady(c) {
		return
	}
	alg, n := int(k.I[0]), int(k.I[2])
	r := prng.New(uint64(k.I[1]))
	type call struct {
		key         [16]byte
		count       uint32
		bearer, dir uint32
		msg         []byte
	}
	mk := func(i int) call {
		var cl call
		copy(cl.key[:], r.Bytes(16))
		cl.key[0], cl.key[1], cl.key[2] = byte(i), byte(i>>8), byte(i>>16) // pairwise distinct
		cl.count, cl.bearer, cl.dir = r.Uint32(), uint32(r.Intn(32)), uint32(r.Intn(2))
		cl.msg = r.Bytes(r.Range(1, 40))
		return cl
	}
	check := func(cl *call, when string) bool {
		nb := 8 * len(cl.msg)
		if mac {
			var want uint32
			switch alg {
			case 1:
				want = refcrypto.EIA1(cl.key, cl.count, cl.bearer, cl.dir, cl.msg, nb)
			case 2:
				want = refcrypto.EIA2(cl.key, cl.count, cl.bearer, cl.dir, cl.msg)
			case 3:
				want = refcrypto.EIA3(cl.key, cl.count, cl.bearer, cl.dir, cl.msg, nb)
			}
			m, err := security.NASMacCalculate(uint8(alg), cl.key, cl.count, uint8(cl.bearer), uint8(cl.dir), cloneB(cl.msg))
			if err != nil || len(m) != 4 || uint32(m[0])<<24|uint32(m[1])<<16|uint32(m[2])<<8|uint32(m[3]) != want {
				c.Fail(k, fmt.Sprintf("many-keys-mac-mismatch:alg%d", alg), fmt.Sprintf("%s (%d distinct keys used in this process in between): MAC %x (err %v), 128-EIA%d gives %08x; key %x", when, n, m, err, alg, want, cl.key))
				return false
			}
			return true
		}
		var want []byte
		switch alg {
		case 1:
			want = refcrypto.EEA1(cl.key, cl.count, cl.bearer, cl.dir, cl.msg, nb)
		case 2:
			want = refcrypto.EEA2(cl.key, cl.count, cl.bearer, cl.dir, cl.msg)
		case 3:
			want = refcrypto.EEA3(cl.key, cl.count, cl.bearer, cl.dir, cl.msg, nb)
		}
		buf := cloneB(cl.msg)
		if err := security.NASEncrypt(uint8(alg), cl.key, cl.count, uint8(cl.bearer), uint8(cl.dir), buf); err != nil || !bytes.Equal(buf, want) {
			c.Fail(k, fmt.Sprintf("many-keys-ciphertext-mismatch:alg%d", alg), fmt.Sprintf("%s (%d distinct keys used in this process in between): ciphertext %s (err %v), 128-EEA%d gives %s; key %x", when, n, hx(buf), err, alg, hx(want), cl.key))
			return false
		}
		return true
	}
	first := mk(0)
	if !check(&first, "first call under key A") {
		return
	}
	var kept []call
	for i := 1; i <= n; i++ {
		cl := mk(i)
		if !check(&cl, fmt.Sprintf("call under key number %d", i)) {
			return
		}
		if i%97 == 0 {
			kept = append(kept, cl)
		}
		if i&0xff == 0 {
			c.J.Tick()
		}
	}
	if !check(&first, "key A again") {
		return
	}
	for i := range kept {
		if !check(&kept[i], "an earlier key again") {
			return
		}
	}
	c.Eval(int64(n + 2 + len(kept)))
	c.Count("many_keys_histories", 1)
}

func c06ManyKeys(c *core.Ctx, k *core.Case) { cryptoManyKeys(c, k, false) }
func c07ManyKeys(c *core.Ctx, k *core.Case) { cryptoManyKeys(c, k, true) }

func cryptoManyKeysUnit() core.Unit {
	return core.Unit{Name: "many-keys", Weight: 60, Run: func(c *core.Ctx) {
		for alg := 1; alg <= 3; alg++ {
			for _, n := range []int{300, 1100, c.Pick(3000, 70000)} {
				k := &core.Case{Oracle: "many-keys", Target: "security", I: []int64{int64(alg), int64(c.R.Uint64() >> 1), int64(n)}}
				c.Do(k)
				c.NonTrivial(k.Hash())
			}
		}
	}}
}

// oracle "cold-concurrent": S=[kinds] I=[seed, workers, items] — the property's own operations
// (the item kinds of the C19 workload) entered by all workers at once in a process in which
// the library has not been used yet (the unit is Fresh; so is a replay). Every worker runs
// ALL items, each in its own order; afterwards the items are recomputed sequentially and
// every worker's digest of every item must equal the sequential one. Lazily built package
// state (tables filled on first use, caches) is then built under contention.
func coldConcurrent(c *core.Ctx, k *core.Case) {
	sp := mustSpec(c)
	if sp == nil {
		return
	}
	r := prng.New(uint64(k.I[0]))
	g, n := int(k.I[1]), int(k.I[2])
	sh := &c19Shared{sp: sp, gmm: dispatchable(sp)}
	for _, kd := range k.S {
		if strings.HasPrefix(kd, "shared-e") || strings.HasPrefix(kd, "shared-g") {
			sh = c19BuildShared(sp, uint64(k.I[0])) // decoded messages that all workers only read
			break
		}
	}
	for i := range sh.keys {
		copy(sh.keys[i][:], r.Bytes(16))
	}
	items := make([]c19Item, n)
	for i := range items {
		items[i] = c19Item{kind: k.S[i%len(k.S)], seed: r.Uint64(), region: -1}
	}
	res := make([][]uint64, g)
	perms := make([][]int, g)
	for w := range res {
		res[w] = make([]uint64, n)
		perms[w] = r.Perm(n)
	}
	msgs := concurrentProbe(g, n, func(w, i int) string {
		j := perms[w][i]
		res[w][j] = c19Run(sh, items[j])
		return ""
	})
	c.Eval(int64(g * n))
	c.Count("cold_concurrent_calls", int64(g*n))
	if len(msgs) > 0 {
		c.Fail(k, "cold-concurrent-"+msgs[0][:min3(len(msgs[0]), 100)], msgs[0])
		return
	}
	for j := range items {
		want := c19Run(sh, items[j])
		for w := 0; w < g; w++ {
			if res[w][j] != want {
				c.Fail(k, "cold-concurrent-result-differs:"+items[j].kind, fmt.Sprintf("item %d (kind %s, seed %d): worker %d of %d computed digest %#x when all workers entered the library at once in a fresh process; the sequential result is %#x", j, items[j].kind, items[j].seed, w, g, res[w][j], want))
				return
			}
		}
	}
}

// coldUnit is the Fresh unit that runs the cold-concurrent oracle for the given kinds.
func coldUnit(target string, kinds ...string) core.Unit {
	return coldUnitN(target, 0, 8, kinds...)
}

// coldUnits: several cold starts per property — a window that exists once per process
// (lazily built package state) is sampled once per process: three processes in the quick
// tier (8, 64 and 128 goroutines), eight in the thorough tier.
func coldUnits(tier string, target string, kinds ...string) []core.Unit {
	workers := []int{8, 64, 128}
	if tier == "thorough" {
		workers = []int{8, 64, 128, 128, 64, 32, 128, 16}
	}
	var us []core.Unit
	for i, w := range workers {
		us = append(us, coldUnitN(target, i, w, kinds...))
	}
	return us
}

// coldUnitN: idx distinguishes several such units of one property (each is a process of
// its own, i.e. one more cold start); workers is the number of goroutines released at once.
func coldUnitN(target string, idx, workers int, kinds ...string) core.Unit {
	name := "cold-concurrent"
	if idx > 0 {
		name = fmt.Sprintf("cold-concurrent-%d", idx)
	}
	return core.Unit{Name: name, Weight: 30, Fresh: true, Run: func(c *core.Ctx) {
		k := &core.Case{Oracle: "cold-concurrent", Target: target, S: kinds, I: []int64{int64(c.R.Uint64() >> 1), int64(workers), int64(c.Pick(200, 2000))}}
		c.Do(k)
		c.NonTrivial(k.Hash())
	}}
}

// ---- cold entry points -------------------------------------------------------
//
// Lazily built package state (a table filled on first use, a map created on demand) has a
// window that exists once per process AND once per function. The cold-concurrent oracle
// above enters the library through composite items, so the first calls of a particular
// function are spread over microseconds. Here every entry point is a single library call;
// the workers are released from a spinning barrier once per entry point, and their first
// action is that call — each entry point is still cold when its turn comes.

type coldEntry struct {
	group string
	name  string
	fn    func(r *prng.Rand) uint64
}

func coldEntryTable(sp *refcodec.Spec) []coldEntry {
	var es []coldEntry
	add := func(group, name string, fn func(r *prng.Rand) uint64) { es = append(es, coldEntry{group, name, fn}) }
	rndSnssai := func(r *prng.Rand) []byte {
		return []byte{4, r.Byte(), r.Byte(), r.Byte(), r.Byte()}
	}
	add("lists", "SnssaiToModels", func(r *prng.Rand) uint64 {
		b := rndSnssai(r)
		e := nasType.NewSNSSAI(0x22)
		e.SetLen(b[0])
		copy(e.Octet[:], b[1:])
		m := nasConvert.SnssaiToModels(e)
		return hs(m.Sd) ^ uint64(m.Sst)
	})
	add("lists", "RequestedNssaiToModels", func(r *prng.Rand) uint64 {
		b := append(rndSnssai(r), rndSnssai(r)...)
		e := nasType.NewRequestedNSSAI(0x2f)
		e.SetLen(uint8(len(b)))
		e.SetSNSSAIValue(b)
		ms, err := nasConvert.RequestedNssaiToModels(e)
		d := hs(fmt.Sprint(err))
		for _, m := range ms {
			if m.ServingSnssai != nil {
				d = d*31 + hs(m.ServingSnssai.Sd) + uint64(m.ServingSnssai.Sst)
			}
		}
		return d
	})
	add("lists", "SnssaiToNas", func(r *prng.Rand) uint64 {
		return h64(nasConvert.SnssaiToNas(models.Snssai{Sst: int32(r.Byte()), Sd: hex.EncodeToString(r.Bytes(3))}))
	})
	add("lists", "TaiListToNas", func(r *prng.Rand) uint64 {
		tl, _ := c13RandTais(r, r.Range(1, 6), 1+r.Intn(2))
		return h64(nasConvert.TaiListToNas(tl))
	})
	add("lists", "LadnToNas", func(r *prng.Rand) uint64 {
		tl, _ := c13RandTais(r, 2, 1)
		return h64(nasConvert.LadnToNas("internet", tl))
	})
	add("misc", "ModelsToSessionAMBR", func(r *prng.Rand) uint64 {
		u := ambrUnits[r.Intn(len(ambrUnits))]
		a := nasConvert.ModelsToSessionAMBR(&models.Ambr{Uplink: fmt.Sprintf("%d %s", r.Intn(65536), u), Downlink: fmt.Sprintf("%d %s", r.Intn(65536), ambrUnits[r.Intn(len(ambrUnits))])})
		return h64(a.Octet[:])
	})
	add("misc", "GPRSTimer3ToNas", func(r *prng.Rand) uint64 { return uint64(nasConvert.GPRSTimer3ToNas(r.Intn(1116000))) })
	add("misc", "GPRSTimer2ToNas", func(r *prng.Rand) uint64 { return uint64(nasConvert.GPRSTimer2ToNas(2 * r.Intn(60))) })
	add("misc", "EncodeLocalTimeZoneToNas", func(r *prng.Rand) uint64 {
		return uint64(nasConvert.EncodeLocalTimeZoneToNas(fmtZone((r.Intn(159) - 79) * 900)).Octet)
	})
	add("misc", "TimeStamp", func(r *prng.Rand) uint64 {
		t := time.Unix(946684800+2*int64(r.Intn(1500000000)), 0).In(c17Loc(r.Intn(len(c17Locations))))
		ts := nasConvert.EncodeUniversalTimeAndLocalTimeZoneToNas(t)
		return h64(ts.Octet[:]) ^ uint64(nasConvert.DecodeUniversalTimeAndLocalTimeZone(ts).Unix())<<3 ^ hs(nasConvert.GetTimeZone(t))
	})
	add("misc", "NetworkName", func(r *prng.Rand) uint64 {
		return h64(nasConvert.FullNetworkNameToNas(string(gsm7Plain[:r.Intn(40)])).Buffer)
	})
	add("misc", "PSI", func(r *prng.Rand) uint64 { return h64(nasConvert.PSIToBuf(nasConvert.PSIToBooleanArray(r.Bytes(2)))) })
	add("ident", "PlmnIDToString", func(r *prng.Rand) uint64 {
		w := refconv.PlmnWire(digits(r, 3), digits(r, 2+r.Intn(2)))
		return hs(nasConvert.PlmnIDToString(w[:]))
	})
	add("ident", "PlmnIDToNas", func(r *prng.Rand) uint64 {
		return h64(nasConvert.PlmnIDToNas(models.PlmnId{Mcc: digits(r, 3), Mnc: digits(r, 2+r.Intn(2))}))
	})
	add("ident", "GutiToString", func(r *prng.Rand) uint64 {
		_, s, err := nasConvert.GutiToStringWithError(refconv.GutiWire(digits(r, 3), digits(r, 2+r.Intn(2)), r.Uint32()&0xffffff, r.Uint32()))
		return hs(s) ^ hs(fmt.Sprint(err))
	})
	add("ident", "GutiToNas", func(r *prng.Rand) uint64 {
		g, err := nasConvert.GutiToNasWithError(refconv.GutiText(digits(r, 3), digits(r, 2+r.Intn(2)), r.Uint32()&0xffffff, r.Uint32()))
		return h64(g.Octet[:]) ^ hs(fmt.Sprint(err))
	})
	add("ident", "SuciToString", func(r *prng.Rand) uint64 {
		s, p, err := nasConvert.SuciToStringWithError(refconv.SuciWire(digits(r, 3), digits(r, 2), digits(r, 2), 0, 1, digits(r, 10), nil))
		return hs(s) ^ hs(p)<<1 ^ hs(fmt.Sprint(err))
	})
	add("ident", "PeiToString", func(r *prng.Rand) uint64 {
		s, err := nasConvert.PeiToStringWithError(refconv.PeiWire(digits(r, 15), false))
		return hs(s) ^ hs(fmt.Sprint(err))
	})
	add("ident", "AmfId", func(r *prng.Rand) uint64 {
		v := r.Uint32() & 0xffffff
		a, b, cc := refconv.AmfIDSplit(v)
		x, y, z, err := nasConvert.AmfIdToNasWithError(nasConvert.AmfIdToModels(a, b, cc))
		return uint64(x)<<24 ^ uint64(y)<<8 ^ uint64(z) ^ hs(fmt.Sprint(err))
	})
	add("ident", "MobileIdentityGetters", func(r *prng.Rand) uint64 {
		e := nasType.NewMobileIdentity5GS(0)
		w := refconv.GutiWire(digits(r, 3), digits(r, 2+r.Intn(2)), r.Uint32()&0xffffff, r.Uint32())
		e.SetLen(uint16(len(w)))
		e.SetMobileIdentity5GSContents(w)
		return hs(e.GetPlmnID()) ^ hs(e.Get5GGUTI())<<1 ^ hs(e.GetAmfSetID())<<2 ^ hs(e.Get5GTMSI())<<3
	})
	for alg := uint8(0); alg <= 3; alg++ {
		alg := alg
		add("mac", fmt.Sprintf("NASMacCalculate-%d", alg), func(r *prng.Rand) uint64 {
			m, err := security.NASMacCalculate(alg, key16(r.Bytes(16)), r.Uint32(), uint8(r.Intn(32)), uint8(r.Intn(2)), r.Bytes(r.Range(1, 40)))
			return h64(m) ^ hs(fmt.Sprint(err))
		})
		add("cipher", fmt.Sprintf("NASEncrypt-%d", alg), func(r *prng.Rand) uint64 {
			b := r.Bytes(r.Range(0, 40))
			err := security.NASEncrypt(alg, key16(r.Bytes(16)), r.Uint32(), uint8(r.Intn(32)), uint8(r.Intn(2)), b)
			return h64(b) ^ hs(fmt.Sprint(err))
		})
	}
	add("qos", "QoSRulesUnmarshal", func(r *prng.Rand) uint64 {
		var v nasType.QoSRules
		err := v.UnmarshalBinary(refconv.SerializeRules(genRules(r, 1+r.Intn(3), r.Intn(18))))
		b, _ := v.MarshalBinary()
		return h64(b) ^ hs(fmt.Sprint(err))
	})
	add("qos", "QoSFlowDescsUnmarshal", func(r *prng.Rand) uint64 {
		var v nasType.QoSFlowDescs
		err := v.UnmarshalBinary(refconv.SerializeDescs(genDescs(r, 1+r.Intn(3))))
		b, _ := v.MarshalBinary()
		return h64(b) ^ hs(fmt.Sprint(err))
	})
	add("pco", "PCOUnMarshal", func(r *prng.Rand) uint64 {
		p := nasConvert.NewProtocolConfigurationOptions()
		err := p.UnMarshal(pcoContents(r, r.Intn(8)))
		return h64(p.Marshal()) ^ hs(fmt.Sprint(err))
	})
	add("uepolicy", "UEPolicyListUnmarshal", func(r *prng.Rand) uint64 {
		var v uePolicyContainer.UEPolicySectionManagementListContent
		err := v.UnmarshalBinary(refSubLists(genSubs(r, 1+r.Intn(3))))
		b, _ := v.MarshalBinary()
		return h64(b) ^ hs(fmt.Sprint(err))
	})
	add("count", "CountAndAllocator", func(r *prng.Rand) uint64 {
		var cnt security.Count
		cnt.Set(uint16(r.Uint32()), r.Byte())
		cnt.AddOne()
		g := uePolicyContainer.NewGenerator(1, 9)
		id, _ := g.Allocate()
		return uint64(cnt.Get())<<8 ^ uint64(id)
	})
	if sp != nil {
		for _, def := range dispatchable(sp) {
			def := def
			add("codec", "decode-"+def.Name, func(r *prng.Rand) uint64 {
				b := refcodec.RandomPlan(def, r, 1+r.Intn(5), r.Intn(5)).Bytes()
				m := nas.NewMessage()
				if err := m.PlainNasDecode(&b); err != nil {
					return hs(err.Error())
				}
				out, err := m.PlainNasEncode()
				return h64(out) ^ hs(fmt.Sprint(err))
			})
		}
	}
	return es
}

// oracle "cold-entries": S=[groups] I=[seed, workers, callsPerEntry]
func coldEntries(c *core.Ctx, k *core.Case) {
	sp, _ := codecSpec()
	want := map[string]bool{}
	for _, g := range k.S {
		want[g] = true
	}
	g, per := int(k.I[1]), int(k.I[2])
	if os.Getenv("VERIF_RACE_SIDE") == "1" {
		// under the race detector an unsynchronised first use is reported however few the
		// workers are; 128 spinning goroutines on instrumented code only burn time
		if g > 16 {
			g = 16
		}
		per = 2
	}
	base := prng.New(uint64(k.I[0]))
	for ei, e := range coldEntryTable(sp) {
		if !want[e.group] {
			continue
		}
		c.J.Tick()
		seeds := make([][]uint64, g)
		res := make([][]uint64, g)
		for w := range seeds {
			seeds[w] = make([]uint64, per)
			res[w] = make([]uint64, per)
			for i := range seeds[w] {
				seeds[w][i] = base.Uint64()
			}
		}
		fn := e.fn
		msgs := concurrentProbe(g, per, func(w, i int) string {
			res[w][i] = fn(prng.New(seeds[w][i]))
			return ""
		})
		c.Eval(int64(g * per))
		if len(msgs) > 0 {
			c.Fail(k, "cold-entry-"+msgs[0][:min3(len(msgs[0]), 100)], fmt.Sprintf("entry point %s: %s", e.name, msgs[0]))
			continue
		}
		bad := 0
		for w := 0; w < g && bad == 0; w++ {
			for i := 0; i < per; i++ {
				if ref := fn(prng.New(seeds[w][i])); ref != res[w][i] {
					bad++
					c.Fail(k, "cold-entry-result-differs:"+e.name, fmt.Sprintf("entry point %s (number %d of the table): call %d of worker %d of %d, made while all workers entered this function for the first time in the process, gave digest %#x; the same call made alone afterwards gives %#x", e.name, ei, i, w, g, res[w][i], ref))
					break
				}
			}
		}
		c.Cover("cold_entry", e.name)
	}
}

// coldEntryUnits: Fresh units (a process each) that run the cold-entries oracle.
func coldEntryUnits(tier, target string, groups ...string) []core.Unit {
	workers := []int{32, 128}
	if tier == "thorough" {
		workers = []int{32, 128, 64, 128, 16, 128}
	}
	var us []core.Unit
	for i, w := range workers {
		i, w := i, w
		us = append(us, core.Unit{Name: fmt.Sprintf("cold-entries-%d", i), Weight: 30, Fresh: true, Run: func(c *core.Ctx) {
			k := &core.Case{Oracle: "cold-entries", Target: target, S: groups, I: []int64{int64(c.R.Uint64() >> 1), int64(w), 6}}
			c.Do(k)
			c.NonTrivial(k.Hash())
		}})
	}
	return us
}

// oracle "concurrent-neighbours": I=[alg, seed, pairs, iters, mac] — pairs of goroutines own
// ADJACENT windows of one array: A hands its window (length not a multiple of 4, the rest of
// the array as spare capacity) to NASEncrypt / NASMacCalculate over and over, B only writes
// and re-reads its own octets, which start right behind A's window. The library has no
// business in B's octets: B must always read back what it wrote, and under the race detector
// any access of the library to them is reported.
func cryptoNeighbours(c *core.Ctx, k *core.Case) {
	alg, pairs, iters, mac := uint8(k.I[0]), int(k.I[2]), raceScale(int(k.I[3])), k.I[4] == 1
	r := prng.New(uint64(k.I[1]))
	type pair struct {
		arr  []byte
		n    int
		key  [16]byte
		lost int64
	}
	ps := make([]*pair, pairs)
	for i := range ps {
		p := &pair{n: 4*r.Range(1, 12) + 1 + r.Intn(3)}
		p.arr = make([]byte, p.n+8)
		copy(p.key[:], r.Bytes(16))
		ps[i] = p
	}
	msgs := concurrentProbe(2*pairs, iters, func(w, i int) string {
		p := ps[w/2]
		if w%2 == 0 {
			win := p.arr[:p.n] // capacity runs over the neighbour's octets
			if mac {
				_, _ = security.NASMacCalculate(alg, p.key, uint32(i), 3, 1, win)
			} else {
				_ = security.NASEncrypt(alg, p.key, uint32(i), 3, 1, win)
			}
			return ""
		}
		own := p.arr[p.n : p.n+4]
		v := byte(i)
		own[0], own[1], own[2], own[3] = v, v+1, v+2, v+3
		runtime.Gosched()
		if own[0] != v || own[1] != v+1 || own[2] != v+2 || own[3] != v+3 {
			return fmt.Sprintf("the goroutine that owns the %d octets behind a %d-octet payload wrote %02x %02x %02x %02x there and read back %02x %02x %02x %02x while its neighbour's payload went through algorithm %d", 4, p.n, v, v+1, v+2, v+3, own[0], own[1], own[2], own[3], alg)
		}
		return ""
	})
	c.Eval(int64(2 * pairs * iters))
	c.Count("neighbour_calls", int64(pairs*iters))
	if len(msgs) > 0 {
		what := "NASEncrypt"
		if mac {
			what = "NASMacCalculate"
		}
		c.Fail(k, fmt.Sprintf("writes-into-neighbour:%s:alg%d", what, alg), msgs[0])
	}
}

func cryptoNeighbourUnit() core.Unit {
	return core.Unit{Name: "concurrent-neighbours", Weight: 40, Run: func(c *core.Ctx) {
		for alg := int64(0); alg <= 3; alg++ {
			for mac := int64(0); mac < 2; mac++ {
				k := &core.Case{Oracle: "concurrent-neighbours", Target: "security", I: []int64{alg, int64(c.R.Uint64() >> 1), 8, int64(c.Pick(6000, 100000)), mac}}
				c.Do(k)
				c.NonTrivial(k.Hash())
			}
		}
	}}
}
