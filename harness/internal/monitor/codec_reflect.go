package monitor

import (
	"bytes"
	"fmt"
	"reflect"
	"sync"
	"verifharness/internal/prng"

	nas "github.com/free5gc/nas"

	"verifharness/internal/core"
	"verifharness/internal/refcodec"
	"verifharness/internal/reg"
)

// Reflection views of nas.Message / nasMessage.* / nasType.* values, shared by
// the codec monitors C01–C05 and C10.

var (
	specOnce sync.Once
	specData *refcodec.Spec
	specErr  error
)

func codecSpec() (*refcodec.Spec, error) {
	specOnce.Do(func() { specData, specErr = refcodec.Load(verifDir()) })
	return specData, specErr
}

func mustSpec(c *core.Ctx) *refcodec.Spec {
	s, err := codecSpec()
	if err != nil {
		c.Inconclusive("spec/messages.json: " + err.Error())
		return nil
	}
	return s
}

// newMsgObj returns a fresh *nasMessage.<name>.
func newMsgObj(name string) interface{} {
	f := reg.MsgTypes[name]
	if f == nil {
		return nil
	}
	return f()
}

type decodeFn = func(*[]byte) error
type encodeFn = func(*bytes.Buffer) error

func msgDecoder(obj interface{}, name string) decodeFn {
	m := reflect.ValueOf(obj).MethodByName("Decode" + name)
	if !m.IsValid() {
		return nil
	}
	f, _ := m.Interface().(func(*[]byte) error)
	return f
}

func msgEncoder(obj interface{}, name string) encodeFn {
	m := reflect.ValueOf(obj).MethodByName("Encode" + name)
	if !m.IsValid() {
		return nil
	}
	f, _ := m.Interface().(func(*bytes.Buffer) error)
	return f
}

// slotElem returns the element value (struct, addressable) of a slot inside a
// message object, and whether it is present.
func slotElem(msg reflect.Value, sl *refcodec.Slot) (reflect.Value, bool, error) {
	f := msg.FieldByName(sl.Name)
	if !f.IsValid() {
		return f, false, fmt.Errorf("message struct has no field %s", sl.Name)
	}
	if sl.Mandatory {
		if f.Kind() != reflect.Struct {
			return f, false, fmt.Errorf("mandatory slot %s is not an embedded struct (kind %s)", sl.Name, f.Kind())
		}
		return f, true, nil
	}
	if f.Kind() != reflect.Ptr {
		return f, false, fmt.Errorf("optional slot %s is not a pointer (kind %s)", sl.Name, f.Kind())
	}
	if f.IsNil() {
		return f, false, nil
	}
	return f.Elem(), true, nil
}

// elemFields reads Iei / Len / data of an element value.
type elemVals struct {
	hasIei, hasLen bool
	iei            uint8
	ln             int
	store          string // octet | array | buffer | empty
	data           []byte // full array / buffer / single octet
	bufNil         bool
}

func readElem(e reflect.Value) elemVals {
	var v elemVals
	if f := e.FieldByName("Iei"); f.IsValid() {
		v.hasIei, v.iei = true, uint8(f.Uint())
	}
	if f := e.FieldByName("Len"); f.IsValid() {
		v.hasLen, v.ln = true, int(f.Uint())
	}
	if f := e.FieldByName("Buffer"); f.IsValid() && f.Kind() == reflect.Slice {
		v.store = "buffer"
		v.bufNil = f.IsNil()
		v.data = f.Bytes()
		return v
	}
	if f := e.FieldByName("Octet"); f.IsValid() {
		if f.Kind() == reflect.Array {
			v.store = "array"
			v.data = make([]byte, f.Len())
			for i := range v.data {
				v.data[i] = byte(f.Index(i).Uint())
			}
		} else {
			v.store = "octet"
			v.data = []byte{byte(f.Uint())}
		}
		return v
	}
	v.store = "empty"
	return v
}

// cmpSlot compares what the library decoded for a slot with the reference field.
func cmpSlot(sl *refcodec.Slot, v *elemVals, f *refcodec.Field) string {
	if v.store != sl.Store {
		return fmt.Sprintf("element stores its value as %s, table says %s", v.store, sl.Store)
	}
	if !sl.Mandatory && v.hasIei && v.iei != f.T {
		return fmt.Sprintf("Iei=%#02x, identifier octet on the wire %#02x", v.iei, f.T)
	}
	if sl.LenSize() > 0 {
		if !v.hasLen {
			return "element has no Len field"
		}
		if v.ln != f.Len {
			return fmt.Sprintf("Len=%d, wire length %d", v.ln, f.Len)
		}
	}
	switch sl.Store {
	case "octet":
		if len(f.Val) != 1 || v.data[0] != f.Val[0] {
			return fmt.Sprintf("Octet=%#02x, wire value %x", v.data[0], f.Val)
		}
	case "array":
		n := len(f.Val)
		if n > len(v.data) {
			return fmt.Sprintf("wire value of %d octets does not fit array of %d", n, len(v.data))
		}
		if !bytes.Equal(v.data[:n], f.Val) {
			return fmt.Sprintf("Octet[:%d]=%x, wire value %x", n, v.data[:n], f.Val)
		}
		for _, x := range v.data[n:] {
			if x != 0 {
				return fmt.Sprintf("array octets beyond the value are not zero: %x", v.data)
			}
		}
	case "buffer":
		if !bytes.Equal(v.data, f.Val) {
			return fmt.Sprintf("Buffer=%s, wire value %s", hx(v.data), hx(f.Val))
		}
	}
	return ""
}

// cmpDecoded compares a decoded message object with the reference result.
func cmpDecoded(def *refcodec.Msg, obj interface{}, ref *refcodec.Result) (slot string, msg string) {
	mv := reflect.ValueOf(obj).Elem()
	for si := range def.Slots {
		sl := &def.Slots[si]
		e, present, err := slotElem(mv, sl)
		if err != nil {
			return sl.Name, err.Error()
		}
		f := &ref.Fields[si]
		if present != f.Present {
			return sl.Name, fmt.Sprintf("present=%v, reference decoder says %v", present, f.Present)
		}
		if !present || f.Skip {
			continue
		}
		v := readElem(e)
		if d := cmpSlot(sl, &v, f); d != "" {
			return sl.Name, d
		}
	}
	return "", ""
}

// setElem writes a reference field into an element in decoder normal form.
func setElem(e reflect.Value, sl *refcodec.Slot, f *refcodec.Field) {
	if x := e.FieldByName("Iei"); x.IsValid() && !sl.Mandatory {
		x.SetUint(uint64(f.T))
	}
	if x := e.FieldByName("Len"); x.IsValid() && sl.LenSize() > 0 {
		x.SetUint(uint64(f.Len))
	}
	if x := e.FieldByName("Buffer"); x.IsValid() && x.Kind() == reflect.Slice {
		b := make([]byte, len(f.Val))
		copy(b, f.Val)
		x.SetBytes(b)
		return
	}
	if x := e.FieldByName("Octet"); x.IsValid() {
		if x.Kind() == reflect.Array {
			for i := 0; i < x.Len() && i < len(f.Val); i++ {
				x.Index(i).SetUint(uint64(f.Val[i]))
			}
		} else if len(f.Val) > 0 {
			x.SetUint(uint64(f.Val[0]))
		}
	}
}

// buildMsg constructs *nasMessage.<Name> in decoder normal form from fields.
func buildMsg(def *refcodec.Msg, fields []refcodec.Field) (interface{}, error) {
	obj := newMsgObj(def.Name)
	if obj == nil {
		return nil, fmt.Errorf("message type %s not in the tree", def.Name)
	}
	mv := reflect.ValueOf(obj).Elem()
	for si := range def.Slots {
		sl := &def.Slots[si]
		f := &fields[si]
		fv := mv.FieldByName(sl.Name)
		if !fv.IsValid() {
			return nil, fmt.Errorf("message struct %s has no field %s", def.Name, sl.Name)
		}
		if sl.Mandatory {
			setElem(fv, sl, f)
			continue
		}
		if !f.Present {
			continue
		}
		if fv.Kind() != reflect.Ptr {
			return nil, fmt.Errorf("optional slot %s.%s is not a pointer", def.Name, sl.Name)
		}
		ne := reflect.New(fv.Type().Elem())
		setElem(ne.Elem(), sl, f)
		fv.Set(ne)
	}
	return obj, nil
}

// wrapMsg puts a *nasMessage.<Name> into a nas.Message with the header view set.
func wrapMsg(def *refcodec.Msg, obj interface{}, hdr []byte) (*nas.Message, error) {
	m := nas.NewMessage()
	var fam reflect.Value
	if def.Family == "GSM" {
		m.GsmMessage = nas.NewGsmMessage()
		copy(m.GsmMessage.GsmHeader.Octet[:], hdr)
		fam = reflect.ValueOf(m.GsmMessage).Elem()
	} else {
		m.GmmMessage = nas.NewGmmMessage()
		copy(m.GmmMessage.GmmHeader.Octet[:], hdr)
		fam = reflect.ValueOf(m.GmmMessage).Elem()
	}
	f := fam.FieldByName(def.Name)
	if !f.IsValid() || f.Kind() != reflect.Ptr {
		return nil, fmt.Errorf("nas family struct has no pointer field %s", def.Name)
	}
	f.Set(reflect.ValueOf(obj))
	return m, nil
}

// bodyPointers lists the names of the non-nil message pointers inside a nas.Message
// and returns the header view octets.
func bodyPointers(m *nas.Message) (names []string, hdr []byte, obj interface{}) {
	scan := func(v reflect.Value) {
		for i := 0; i < v.NumField(); i++ {
			f := v.Field(i)
			if f.Kind() == reflect.Ptr && !f.IsNil() {
				names = append(names, v.Type().Field(i).Name)
				obj = f.Interface()
			}
		}
	}
	if m.GmmMessage != nil {
		scan(reflect.ValueOf(m.GmmMessage).Elem())
		hdr = append(hdr, m.GmmMessage.GmmHeader.Octet[:]...)
	}
	if m.GsmMessage != nil {
		scan(reflect.ValueOf(m.GsmMessage).Elem())
		hdr = append(hdr, m.GsmMessage.GsmHeader.Octet[:]...)
	}
	return
}

// fieldsFromPlan turns a well-formed plan into reference fields (last duplicate wins).
func fieldsFromPlan(p *refcodec.Plan) []refcodec.Field {
	fs := make([]refcodec.Field, len(p.Def.Slots))
	put := func(e *refcodec.Elem) {
		sl := &p.Def.Slots[e.Slot]
		f := refcodec.Field{Present: true, T: e.T, Len: e.Decl, Val: e.Val}
		if sl.LenSize() == 0 {
			f.Len = len(e.Val)
		}
		if sl.Mandatory {
			f.T = 0
		}
		fs[e.Slot] = f
	}
	for i := range p.Mand {
		put(&p.Mand[i])
	}
	for i := range p.Opt {
		put(&p.Opt[i])
	}
	return fs
}

// walkBytes visits every []byte reachable from v (slices of uint8), for the
// aliasing checks of C10.
func walkBytes(v reflect.Value, fn func(reflect.Value)) {
	switch v.Kind() {
	case reflect.Ptr, reflect.Interface:
		if !v.IsNil() {
			walkBytes(v.Elem(), fn)
		}
	case reflect.Struct:
		for i := 0; i < v.NumField(); i++ {
			walkBytes(v.Field(i), fn)
		}
	case reflect.Slice:
		if v.Type().Elem().Kind() == reflect.Uint8 {
			fn(v)
			return
		}
		for i := 0; i < v.Len(); i++ {
			walkBytes(v.Index(i), fn)
		}
	case reflect.Array:
		if v.Type().Elem().Kind() == reflect.Uint8 {
			return
		}
		for i := 0; i < v.Len(); i++ {
			walkBytes(v.Index(i), fn)
		}
	}
}

// rehouse moves every octet string reachable from v into one array, each followed by
// eight guard octets, so that every string has spare capacity that runs over its
// guard and the strings behind it — what a message looks like whose fields are windows
// of a caller's buffers. The returned function names the first guard that changed.
func rehouse(v reflect.Value) func() string {
	var fields []reflect.Value
	total := 0
	walkBytes(v, func(b reflect.Value) {
		if b.CanSet() && !b.IsNil() {
			fields = append(fields, b)
			total += b.Len() + 8
		}
	})
	arena := make([]byte, total)
	for i := range arena {
		arena[i] = 0xa5
	}
	var guards []int
	off := 0
	for _, f := range fields {
		n := copy(arena[off:], f.Bytes())
		f.SetBytes(arena[off : off+n])
		guards = append(guards, off+n)
		off += n + 8
	}
	return func() string {
		for gi, g := range guards {
			for j := g; j < g+8; j++ {
				if arena[j] != 0xa5 {
					return fmt.Sprintf("octet %d behind the %d-octet string number %d of the message (its spare capacity, the caller's memory) changed from a5 to %02x", j-g, fields[gi].Len(), gi+1, arena[j])
				}
			}
		}
		return ""
	}
}

// deepCopy clones a value built of structs, pointers, arrays and byte slices.
func deepCopy(v reflect.Value) reflect.Value {
	switch v.Kind() {
	case reflect.Ptr:
		if v.IsNil() {
			return reflect.Zero(v.Type())
		}
		n := reflect.New(v.Type().Elem())
		n.Elem().Set(deepCopy(v.Elem()))
		return n
	case reflect.Struct:
		n := reflect.New(v.Type()).Elem()
		for i := 0; i < v.NumField(); i++ {
			if n.Field(i).CanSet() {
				n.Field(i).Set(deepCopy(v.Field(i)))
			}
		}
		return n
	case reflect.Slice:
		if v.IsNil() {
			return reflect.Zero(v.Type())
		}
		n := reflect.MakeSlice(v.Type(), v.Len(), v.Len())
		for i := 0; i < v.Len(); i++ {
			n.Index(i).Set(deepCopy(v.Index(i)))
		}
		return n
	case reflect.Array:
		n := reflect.New(v.Type()).Elem()
		for i := 0; i < v.Len(); i++ {
			n.Index(i).Set(deepCopy(v.Index(i)))
		}
		return n
	}
	return v
}

// fingerprint hashes everything reachable from v (following pointers and
// interfaces, reading unexported fields too). Two fingerprints of the same
// value taken at different times differ iff something reachable changed.
func fingerprint(v reflect.Value) uint64 {
	h := uint64(14695981039346656037)
	fpWalk(v, &h, 0)
	return h
}

func fpMix(h *uint64, x uint64) {
	for i := 0; i < 8; i++ {
		*h ^= x & 0xff
		*h *= 1099511628211
		x >>= 8
	}
}

func fpWalk(v reflect.Value, h *uint64, depth int) {
	if depth > 40 || !v.IsValid() {
		return
	}
	switch v.Kind() {
	case reflect.Ptr:
		if v.IsNil() {
			fpMix(h, 0x6e696c)
			return
		}
		fpMix(h, 0x707472)
		fpWalk(v.Elem(), h, depth+1)
	case reflect.Interface:
		if v.IsNil() {
			fpMix(h, 0x6e696c)
			return
		}
		fpMix(h, core.HashStr(0, v.Elem().Type().String()))
		fpWalk(v.Elem(), h, depth+1)
	case reflect.Struct:
		for i := 0; i < v.NumField(); i++ {
			fpWalk(v.Field(i), h, depth+1)
		}
	case reflect.Slice:
		if v.IsNil() {
			fpMix(h, 0x6e696c)
			return
		}
		fpMix(h, uint64(v.Len())|1<<40)
		if v.Type().Elem().Kind() == reflect.Uint8 {
			fpMix(h, core.HashBytes(0, v.Bytes()))
			return
		}
		for i := 0; i < v.Len(); i++ {
			fpWalk(v.Index(i), h, depth+1)
		}
	case reflect.Array:
		for i := 0; i < v.Len(); i++ {
			fpWalk(v.Index(i), h, depth+1)
		}
	case reflect.String:
		fpMix(h, core.HashStr(0, v.String()))
	case reflect.Bool:
		if v.Bool() {
			fpMix(h, 1)
		} else {
			fpMix(h, 2)
		}
	case reflect.Int, reflect.Int8, reflect.Int16, reflect.Int32, reflect.Int64:
		fpMix(h, uint64(v.Int()))
	case reflect.Uint, reflect.Uint8, reflect.Uint16, reflect.Uint32, reflect.Uint64, reflect.Uintptr:
		fpMix(h, v.Uint())
	case reflect.Map:
		// order-independent: sum of the entry hashes
		var sum uint64
		it := v.MapRange()
		for it.Next() {
			e := uint64(14695981039346656037)
			fpWalk(it.Key(), &e, depth+1)
			fpWalk(it.Value(), &e, depth+1)
			sum += e
		}
		fpMix(h, sum)
	}
}

// scribbleAll overwrites every settable scalar reachable from v (integers
// complemented, booleans flipped, byte slices complemented) without replacing
// any pointer or slice header: whatever else shares that memory sees it.
func scribbleAll(v reflect.Value, depth int) {
	if depth > 40 || !v.IsValid() {
		return
	}
	switch v.Kind() {
	case reflect.Ptr, reflect.Interface:
		if !v.IsNil() {
			scribbleAll(v.Elem(), depth+1)
		}
	case reflect.Struct:
		for i := 0; i < v.NumField(); i++ {
			scribbleAll(v.Field(i), depth+1)
		}
	case reflect.Slice, reflect.Array:
		for i := 0; i < v.Len(); i++ {
			scribbleAll(v.Index(i), depth+1)
		}
	case reflect.Bool:
		if v.CanSet() {
			v.SetBool(!v.Bool())
		}
	case reflect.Int, reflect.Int8, reflect.Int16, reflect.Int32, reflect.Int64:
		if v.CanSet() {
			v.SetInt(^v.Int())
		}
	case reflect.Uint, reflect.Uint8, reflect.Uint16, reflect.Uint32, reflect.Uint64:
		if v.CanSet() {
			v.SetUint(^v.Uint() & (1<<uint(v.Type().Bits()) - 1))
		}
	}
}

// detachedProbe watches a value that a decoder handed out: take() keeps a
// shallow copy of *recv (what a caller that passes the result on keeps) and its
// fingerprint; changed() reports whether anything reachable from that copy was
// altered since.
type detachedProbe struct {
	copyV reflect.Value
	fp    uint64
}

func takeDetached(recv interface{}) *detachedProbe {
	rv := reflect.ValueOf(recv).Elem()
	cp := reflect.New(rv.Type()).Elem()
	cp.Set(rv)
	return &detachedProbe{copyV: cp, fp: fingerprint(cp)}
}

func (d *detachedProbe) changed() bool { return fingerprint(d.copyV) != d.fp }

// ownedTwice checks "a returned slice is the caller's": f is called, the result
// is copied, the returned slice itself is overwritten (what a caller may do with
// memory it was handed), and f is called again with the same arguments. It
// returns the first result (a private copy) and, if the second result differs
// from it, a description. A function that hands out shared or cached memory
// returns the overwritten octets the second time.
func ownedTwice(f func() []byte) (first []byte, diff string) {
	r1 := f()
	first = cloneB(r1)
	for i := range r1 {
		r1[i] ^= 0xa5
	}
	mine := cloneB(r1)
	r2 := f()
	if !bytes.Equal(r2, first) {
		return first, fmt.Sprintf("first call returned %s; after the caller overwrote that slice, the same call returned %s", hx(first), hx(r2))
	}
	if !bytes.Equal(r1, mine) && (len(r1) == 0 || len(r2) == 0 || &r1[0] != &r2[0]) {
		return first, fmt.Sprintf("the slice the first call returned, overwritten by its caller with %s, reads %s after the second call: the function wrote into memory it had handed out", hx(mine), hx(r1))
	}
	if len(r1) > 0 && len(r2) > 0 && &r1[0] == &r2[0] {
		return first, fmt.Sprintf("two calls returned the same memory (%d octets)", len(r1))
	}
	return first, ""
}

// marshalEverywhere walks a value and, for every addressable node that has a
// MarshalBinary() ([]byte, error) method (lists, sublists, instructions, parts,
// rules, filters, components ...), checks that the returned slice is the
// caller's (ownedTwice) and holds it across later library calls (Ctx.Hold).
// It returns the number of nodes visited.
func marshalEverywhere(c *core.Ctx, k *core.Case, label string, v reflect.Value, depth int) int {
	if depth > 12 || !v.IsValid() {
		return 0
	}
	n := 0
	if v.CanAddr() && v.Kind() != reflect.Ptr && v.Kind() != reflect.Interface {
		if m := v.Addr().MethodByName("MarshalBinary"); m.IsValid() {
			if f, ok := m.Interface().(func() ([]byte, error)); ok {
				name := label + ":" + v.Type().String()
				if _, owned := ownedTwice(func() []byte { b, _ := f(); return b }); owned != "" {
					c.Fail(k, "result-not-owned:"+v.Type().String()+".MarshalBinary", owned)
				}
				if b, err := f(); err == nil {
					c.Hold(k, name+".MarshalBinary", b)
				}
				n++
			}
		}
	}
	switch v.Kind() {
	case reflect.Ptr, reflect.Interface:
		if !v.IsNil() {
			n += marshalEverywhere(c, k, label, v.Elem(), depth+1)
		}
	case reflect.Struct:
		for i := 0; i < v.NumField(); i++ {
			if v.Type().Field(i).PkgPath == "" {
				n += marshalEverywhere(c, k, label, v.Field(i), depth+1)
			}
		}
	case reflect.Slice:
		if v.Type().Elem().Kind() == reflect.Uint8 {
			return n
		}
		for i := 0; i < v.Len() && i < 8; i++ {
			n += marshalEverywhere(c, k, label, v.Index(i), depth+1)
		}
	}
	return n
}

// appendProbe checks "every slice of a decoded value owns its memory up to its
// capacity": it appends up to eight octets to every byte slice reachable from root
// that has spare capacity (the result is discarded, which is what a caller's
// x = append(x, ...) does to the memory behind x) and reports whether anything
// reachable from root changed. A decoder that cuts its results out of one array
// with two-index slices fails: appending to one element rewrites its neighbour.
func appendProbe(root reflect.Value) (changed bool, spare int) {
	before := fingerprint(root)
	walkBytes(root, func(v reflect.Value) {
		if n := v.Cap() - v.Len(); n > 0 {
			spare++
			if n > 8 {
				n = 8
			}
			_ = append(v.Bytes(), []byte{0xee, 0xee, 0xee, 0xee, 0xee, 0xee, 0xee, 0xee}[:n]...)
		}
	})
	return fingerprint(root) != before, spare
}

// appendProbeLists is appendProbe for the lists inside a decoded value: every slice that
// is not a byte string and has spare capacity gets one element appended (a copy of its
// first element, or a zero value), the result is discarded, and nothing reachable from
// root may have changed. A parser that hands out windows of one shared array as the
// lists of neighbouring entries fails: appending to one rewrites the next.
func appendProbeLists(root reflect.Value) (changed bool, spare int) {
	before := fingerprint(root)
	var walk func(v reflect.Value, depth int)
	walk = func(v reflect.Value, depth int) {
		if depth > 12 || !v.IsValid() {
			return
		}
		switch v.Kind() {
		case reflect.Ptr, reflect.Interface:
			if !v.IsNil() {
				walk(v.Elem(), depth+1)
			}
		case reflect.Struct:
			for i := 0; i < v.NumField(); i++ {
				walk(v.Field(i), depth+1)
			}
		case reflect.Array:
			for i := 0; i < v.Len(); i++ {
				walk(v.Index(i), depth+1)
			}
		case reflect.Slice:
			if v.Type().Elem().Kind() == reflect.Uint8 {
				return
			}
			if v.Cap() > v.Len() {
				spare++
				el := reflect.Zero(v.Type().Elem())
				if v.Len() > 0 {
					el = v.Index(0)
				}
				_ = reflect.Append(v, el)
			}
			for i := 0; i < v.Len(); i++ {
				walk(v.Index(i), depth+1)
			}
		}
	}
	walk(root, 0)
	return fingerprint(root) != before, spare
}

func probeLists(root reflect.Value) bool {
	ch, _ := appendProbeLists(root)
	return ch
}

// fillUnmodelled gives every exported field of *ptr that the reference side does not
// use (all but the named ones) and that is still zero a non-zero value: numbers 1..40,
// short strings, true. A converter is a function of the members its specification names;
// what an application keeps in the other members of the same structure is its own.
func fillUnmodelled(ptr interface{}, r *prng.Rand, modelled ...string) int {
	v := reflect.ValueOf(ptr).Elem()
	n := 0
	for i := 0; i < v.NumField(); i++ {
		f := v.Field(i)
		name := v.Type().Field(i).Name
		skip := !f.CanSet() || !f.IsZero()
		for _, m := range modelled {
			if m == name {
				skip = true
			}
		}
		if skip {
			continue
		}
		switch f.Kind() {
		case reflect.Int, reflect.Int8, reflect.Int16, reflect.Int32, reflect.Int64:
			f.SetInt(int64(r.Range(1, 40)))
		case reflect.Uint, reflect.Uint8, reflect.Uint16, reflect.Uint32, reflect.Uint64:
			f.SetUint(uint64(r.Range(1, 40)))
		case reflect.String:
			f.SetString([]string{"1", "a", "area-7", "0001"}[r.Intn(4)])
		case reflect.Bool:
			f.SetBool(true)
		default:
			continue
		}
		n++
	}
	return n
}

// thenScribble hands decode a private copy of b and overwrites that copy as soon as decode
// has returned: the octets were the caller's receive buffer, which is reused for the next
// message. A decoder that keeps a window of its input now holds a5 a5 a5 ...
func thenScribble(decode func([]byte) error, b []byte) error {
	in := cloneB(b)
	err := decode(in)
	for i := range in {
		in[i] = 0xa5
	}
	return err
}

// capacityIndependent checks "what a parser makes of n octets depends on those n
// octets only": parse gets the input once in a slice of exactly its length and
// once as the prefix of a larger array whose spare capacity holds plausible
// octets (the input itself once more, then zeros); the two digests must agree.
func capacityIndependent(in []byte, parse func([]byte) uint64) (ok bool) {
	exact := make([]byte, len(in))
	copy(exact, in)
	big := make([]byte, 2*len(in)+16)
	copy(big, in)
	copy(big[len(in):], in)
	return parse(exact) == parse(big[:len(in):len(big)])
}

// digestOf folds an error flag and a fingerprint into one value.
func digestOf(err error, v interface{}) uint64 {
	d := fingerprint(reflect.ValueOf(v))
	if err != nil {
		return 0x0e550e55 // results after an error are not judged
	}
	return d
}

// flipArrays flips bit 0 of the last octet of every settable uint8 array (the fixed-size
// contents of elements) reachable from v without replacing any pointer; n counts the edits.
func flipArrays(v reflect.Value, n *int) {
	switch v.Kind() {
	case reflect.Ptr, reflect.Interface:
		if !v.IsNil() {
			flipArrays(v.Elem(), n)
		}
	case reflect.Struct:
		for i := 0; i < v.NumField(); i++ {
			flipArrays(v.Field(i), n)
		}
	case reflect.Slice:
		if v.Type().Elem().Kind() == reflect.Uint8 {
			return
		}
		for i := 0; i < v.Len(); i++ {
			flipArrays(v.Index(i), n)
		}
	case reflect.Array:
		if v.Type().Elem().Kind() == reflect.Uint8 {
			if l := v.Len(); l > 0 && v.Index(l-1).CanSet() {
				v.Index(l - 1).SetUint(v.Index(l-1).Uint() ^ 0x01)
				*n++
			}
			return
		}
		for i := 0; i < v.Len(); i++ {
			flipArrays(v.Index(i), n)
		}
	}
}
