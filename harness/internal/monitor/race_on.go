//go:build race

package monitor

const raceEnabled = true
