package monitor

import (
	"sync"

	"verifharness/internal/core"
	"verifharness/internal/prng"
	"verifharness/internal/refcodec"
	"verifharness/internal/reg"
)

// Domain-shaped workload shared by the message-level properties.
//
// Uniformly random element contents reach code that looks at the *meaning* of
// an element (an inner NAS message in a container, an EAP packet, a PPP packet
// in a configuration option, a spec-defined special value) with probability
// 2^-16..2^-48. The corpus below reaches it by construction:
//
//   - a dictionary of octet sequences: special values of TS 24.501 / 24.008 /
//     RFC 1661 / RFC 3748 typed here, plus every integer / byte-array / hex
//     string literal and every "a==x && b==y" comparison chain mined by vgen
//     from the sources of the tree under test (reg.DictBytes);
//   - PDUs whose container slots hold every prefix of every message type's
//     own encoding, EAP packets of every code with consistent and inconsistent
//     length fields, configuration options with PPP-shaped contents, and the
//     dictionary planted at the start of every length-bearing slot.

var staticDict = [][]byte{
	{0xff, 0xff, 0xfe}, {0x00, 0x00, 0x00}, {0xff, 0xff, 0xff}, {0xff, 0xfe}, {0x00, 0x00}, {0xff, 0xff}, // TAC / LAC "deleted", SD "no SD"
	{0xff, 0xff, 0xff, 0xff}, {0x00, 0x00, 0x00, 0x00}, {0xff, 0xff, 0xff, 0xfe},
	{0x7e, 0x00}, {0x2e, 0x00}, {0x7e, 0x01}, {0x7e, 0x02}, {0x7e, 0x03}, {0x7e, 0x04},
	{0xc0, 0x21}, {0xc0, 0x23}, {0xc2, 0x23}, {0x80, 0x21}, {0x00, 0x0d}, {0x00, 0x03}, {0x00, 0x10}, {0x00, 0x0c},
	{0x01, 0x00, 0x00, 0x04}, {0x02, 0x00, 0x00, 0x04}, {0x03, 0x00, 0x00, 0x04}, {0x04, 0x00, 0x00, 0x04}, // EAP request/response/success/failure, length 4
	{0x03, 0x01, 0x00, 0x04}, {0x04, 0x01, 0x00, 0x04},
	{0x00, 0xf1, 0x10}, {0x02, 0xf8, 0x39}, {0x21, 0x63, 0x54}, // PLMNs
	{0xf1, 0xff, 0xff}, {0xf2}, {0xf4}, {0xf3}, {0xf5},
}

var (
	dictOnce sync.Once
	dictAll  [][]byte
	dictByW  map[int][][]byte
)

// dictSeqs returns the static dictionary plus the literals mined from the tree.
func dictSeqs() [][]byte {
	dictOnce.Do(func() {
		seen := map[string]bool{}
		dictByW = map[int][][]byte{}
		for _, src := range [][][]byte{staticDict, reg.DictBytes} {
			for _, s := range src {
				if len(s) == 0 || seen[string(s)] {
					continue
				}
				seen[string(s)] = true
				dictAll = append(dictAll, s)
				dictByW[len(s)] = append(dictByW[len(s)], s)
			}
		}
	})
	return dictAll
}

// dictOfWidth returns the dictionary entries that are exactly w octets wide.
func dictOfWidth(w int) [][]byte {
	dictSeqs()
	return dictByW[w]
}

// dictPlant overwrites part of b with dictionary entries: one at offset 0 with
// probability 1/2, up to two more anywhere.
func dictPlant(r *prng.Rand, b []byte) {
	d := dictSeqs()
	if len(b) == 0 || len(d) == 0 {
		return
	}
	for i := r.Range(1, 3); i > 0; i-- {
		s := d[r.Intn(len(d))]
		off := 0
		if i > 1 || r.Bool() {
			off = r.Intn(len(b))
		}
		copy(b[off:], s)
	}
}

type domainPDU struct {
	Def   *refcodec.Msg
	B     []byte
	Kind  string
	Canon bool // canonical by construction (known elements once, in table order, legal lengths)
}

// domainUnits makes one unit per message definition that feeds the corpus to fn.
func domainUnits(sp *refcodec.Spec, msgs []*refcodec.Msg, tier string, weight int, fn func(c *core.Ctx, d *domainPDU, i int)) []core.Unit {
	var us []core.Unit
	for _, def := range msgs {
		def := def
		us = append(us, core.Unit{Name: "domain-" + def.Name, Weight: weight, Run: func(c *core.Ctx) {
			ds := domainPDUs(sp, []*refcodec.Msg{def}, c.R, tier == "thorough")
			for i := range ds {
				fn(c, &ds[i], i)
				c.Cover("domain_kind", ds[i].Kind)
			}
			c.Count("domain_pdus", int64(len(ds)))
		}})
	}
	return us
}

func isContainerSlot(t string) bool {
	switch t {
	case "NASMessageContainer", "PayloadContainer", "EPSNASMessageContainer", "SMPDUDNRequestContainer":
		return true
	}
	return false
}

// withSlot renders def with slot si carrying val (declared length = len(val))
// and otherwise minimal mandatory contents; ctx 1 adds every other optional element.
func withSlot(def *refcodec.Msg, r *prng.Rand, si int, val []byte, ctx int) ([]byte, bool) {
	pl := refcodec.NewPlan(def, r, 3)
	sl := &def.Slots[si]
	if sl.Mandatory {
		pl.Mand[si].Decl, pl.Mand[si].Val = len(val), val
		if ctx == 1 {
			for _, sj := range def.OptSlots() {
				pl.Opt = append(pl.Opt, refcodec.LegalOpt(def, sj, r, 3))
			}
		}
	} else {
		probe := refcodec.OptElem(def, si, len(val), val, r)
		if ctx == 0 {
			pl.Opt = append(pl.Opt, probe)
		} else {
			for _, sj := range def.OptSlots() {
				if sj == si {
					pl.Opt = append(pl.Opt, probe)
				} else {
					pl.Opt = append(pl.Opt, refcodec.LegalOpt(def, sj, r, 3))
				}
			}
		}
	}
	return pl.Bytes(), pl.Canonical()
}

// eapPacket builds an EAP packet of n octets (n >= 4) whose Length field is lf.
func eapPacket(r *prng.Rand, code byte, n, lf int) []byte {
	b := r.Bytes(n)
	b[0], b[1], b[2], b[3] = code, r.Byte(), byte(lf>>8), byte(lf)
	if n > 4 && r.Bool() {
		b[4] = []byte{1, 2, 3, 4, 23, 50, 13, 254}[r.Intn(8)] // EAP method types
	}
	if r.Chance(1, 3) {
		for i := lf; i >= 4 && i < n; i++ {
			b[i] = 0 // zero padding behind the packet's own length
		}
	}
	return b
}

// eapAttrPacket builds an EAP packet of an attribute-carrying method (EAP-AKA 23,
// EAP-AKA' 50, EAP-SIM 18): code, identifier, length, method, subtype, 2 reserved
// octets, then attributes (type, length in units of 4 octets, value). variant picks
// the shape of the attribute list: 0 well formed, 1 one attribute of length 0,
// 2 last attribute runs past the packet, 3 one octet of attribute header at the
// end, 4 only attributes of the maximal length, 5 zero-length attribute first.
func eapAttrPacket(r *prng.Rand, code, method byte, variant int) []byte {
	b := []byte{code, r.Byte(), 0, 0, method, byte(1 + r.Intn(14)), 0, 0}
	attr := func(units int) {
		b = append(b, byte(1+r.Intn(23)), byte(units))
		if units > 0 {
			b = append(b, r.Bytes(4*units-2)...)
		}
	}
	switch variant % 6 {
	case 0:
		for n := r.Range(1, 4); n > 0; n-- {
			attr(r.Range(1, 5))
		}
	case 1:
		attr(r.Range(1, 3))
		attr(0)
		b = append(b, r.Bytes(2+4*r.Intn(3))...)
	case 2:
		attr(r.Range(1, 3))
		b = append(b, byte(1+r.Intn(23)), byte(r.Range(3, 60)), 0, 0)
	case 3:
		attr(r.Range(1, 3))
		b = append(b, byte(1+r.Intn(23)))
	case 4:
		attr(63)
	case 5:
		attr(0)
		b = append(b, 0, 0)
		attr(r.Range(1, 3))
	}
	b[2], b[3] = byte(len(b)>>8), byte(len(b))
	return b
}

// multiPayload builds payload container contents of type "multiple payloads". variant:
// 0-1 consistent; 2 the last optional IE of an entry crosses the entry end but stays inside
// the container; 3 an optional IE runs past the container; 4 an entry length runs past the
// container; 5 no entries; 6 entry count larger than the entries present; 7 an entry too
// short for its header; 8 IE count larger than the IEs present; 9 zero-length IEs.
func multiPayload(r *prng.Rand, variant int) []byte {
	entry := func(nIE int, ieLens []int, payload int, declIE int) []byte {
		body := []byte{byte(declIE)<<4 | byte(1+r.Intn(5))}
		for i := 0; i < nIE; i++ {
			body = append(body, []byte{0x12, 0x24, 0x59, 0x37}[r.Intn(4)], byte(ieLens[i]))
			n := ieLens[i]
			if n > 40 {
				n = r.Intn(3)
			}
			body = append(body, r.Bytes(n)...)
		}
		body = append(body, r.Bytes(payload)...)
		return append([]byte{byte(len(body) >> 8), byte(len(body))}, body...)
	}
	switch variant % 10 {
	case 0:
		return append([]byte{1}, entry(1, []int{1}, r.Range(1, 8), 1)...)
	case 1:
		out := []byte{2}
		out = append(out, entry(2, []int{1, 2}, r.Range(1, 8), 2)...)
		return append(out, entry(0, nil, r.Range(1, 8), 0)...)
	case 2:
		// entry 1: one IE whose declared length reaches into entry 2
		e1 := []byte{0x00, 0x04, 0x12, 0x12, 0x03, 0x05}
		return append(append([]byte{2}, e1...), entry(0, nil, 3, 0)...)
	case 3:
		return append([]byte{1}, 0x00, 0x04, 0x11, 0x12, 0xf0, 0x05)
	case 4:
		return append([]byte{1}, 0x7f, 0xff, 0x01, 0xaa)
	case 5:
		return []byte{0}
	case 6:
		return append([]byte{9}, entry(1, []int{1}, 2, 1)...)
	case 7:
		return []byte{1, 0x00, 0x00}
	case 8:
		return append([]byte{1}, entry(1, []int{1}, 2, 7)...)
	default:
		return append([]byte{1}, entry(3, []int{0, 0, 0}, 0, 3)...)
	}
}

// pppUnit builds one configuration protocol unit (id, len, contents) whose
// contents are a PPP packet (code, identifier, length, data) of pl octets,
// followed by pad octets of zero or non-zero padding.
func pppUnit(r *prng.Rand, id uint16, pl, pad int, zero bool) []byte {
	body := r.Bytes(pl + pad)
	if pl >= 4 {
		body[0], body[1], body[2], body[3] = byte(1+r.Intn(4)), r.Byte(), byte(pl>>8), byte(pl)
	}
	for i := pl; i < pl+pad; i++ {
		if zero {
			body[i] = 0
		} else {
			body[i] = 1 + byte(r.Intn(255))
		}
	}
	return append([]byte{byte(id >> 8), byte(id), byte(len(body))}, body...)
}

var pcoIDs = []uint16{0xc021, 0xc023, 0xc223, 0x8021, 0x0001, 0x0003, 0x000d, 0x0010, 0x000c, 0x0002, 0x0011, 0xff00, 0x0023}

// pcoContents builds extended protocol configuration options contents.
func pcoContents(r *prng.Rand, variant int) []byte {
	out := []byte{0x80}
	for n := r.Range(1, 4); n > 0; n-- {
		id := pcoIDs[r.Intn(len(pcoIDs))]
		switch (variant + n) % 4 {
		case 0:
			out = append(out, pppUnit(r, id, r.Range(4, 12), r.Range(1, 6), true)...)
		case 1:
			out = append(out, pppUnit(r, id, r.Range(4, 12), 0, true)...)
		case 2:
			out = append(out, pppUnit(r, id, r.Range(4, 12), r.Range(1, 6), false)...)
		case 3:
			l := r.Intn(20)
			out = append(out, byte(id>>8), byte(id), byte(l))
			out = append(out, r.Bytes(l)...)
		}
	}
	return out
}

// domainPDUs enumerates the corpus for the message definitions in msgs. The
// list is a pure function of (spec, PRNG stream, tier).
func domainPDUs(sp *refcodec.Spec, msgs []*refcodec.Msg, r *prng.Rand, thorough bool) []domainPDU {
	var out []domainPDU
	add := func(def *refcodec.Msg, kind string, b []byte, canon bool) {
		out = append(out, domainPDU{def, b, kind, canon})
	}
	all := dispatchable(sp)
	dict := dictSeqs()
	for _, def := range msgs {
		// several elements of one message carrying dictionary values at once: a value
		// that is only special together with another element of the same message
		nMulti := 40
		if thorough {
			nMulti = 400
		}
		if len(def.OptSlots())+def.NMand()-def.HeaderLen() < 2 {
			nMulti = 0
		}
		for i := 0; i < nMulti && len(dict) > 0; i++ {
			pl := refcodec.NewPlan(def, r, 3)
			fill := func(sl *refcodec.Slot) (int, []byte) {
				n := sl.Max
				if sl.LenSize() > 0 {
					n = refcodec.InRangeLen(r, sl)
					if n > 64 {
						n = sl.Min
					}
				}
				val := r.Pattern(r.Intn(5), n)
				if r.Chance(2, 3) {
					s := dict[r.Intn(len(dict))]
					if w := dictOfWidth(n); len(w) > 0 && r.Bool() {
						s = w[r.Intn(len(w))]
					}
					if len(s) <= n {
						off := 0
						if r.Chance(1, 4) {
							off = r.Intn(n - len(s) + 1)
						}
						copy(val[off:], s)
					}
				}
				return n, val
			}
			for si := def.HeaderLen(); si < def.NMand(); si++ {
				if sl := &def.Slots[si]; sl.LenSize() > 0 || sl.Max >= 2 {
					n, val := fill(sl)
					pl.Mand[si].Decl, pl.Mand[si].Val = n, val
				}
			}
			for _, si := range def.OptSlots() {
				if i%3 == 0 && r.Chance(1, 3) {
					continue
				}
				sl := &def.Slots[si]
				n, val := fill(sl)
				pl.Opt = append(pl.Opt, refcodec.OptElem(def, si, n, val, r))
			}
			add(def, "dictionary-multi", pl.Bytes(), pl.Canonical())
		}
		for si := range def.Slots {
			sl := &def.Slots[si]
			if si < def.HeaderLen() {
				continue
			}
			switch {
			case isContainerSlot(sl.Name) && sl.LenSize() > 0:
				// every prefix of every message type's own rendering, the outer
				// message's own type first
				for ii := -1; ii < len(all); ii++ {
					inner := def
					if ii >= 0 {
						inner = all[ii]
						if !thorough && inner != def && r.Intn(3) != 0 {
							continue
						}
					}
					var ib []byte
					if r.Bool() {
						ib = refcodec.MinimalBody(inner, r)
					} else {
						ib = refcodec.RandomPlan(inner, r, r.Intn(9), r.Intn(6)).Bytes()
					}
					if len(ib) > 0 && len(def.Slots) > 0 {
						ib[0] = def.EPD()
						if inner.Family != def.Family || r.Chance(1, 4) {
							ib[0] = inner.EPD()
						}
					}
					lim := len(ib)
					if lim > 24 {
						lim = 24
					}
					for p := 0; p <= lim; p++ {
						if p >= sl.Min || p == 0 {
							b, cn := withSlot(def, r, si, cloneB(ib[:p]), p%2)
							add(def, "nested-prefix", b, cn)
						}
					}
					if len(ib) > lim && len(ib) <= sl.TypeMax() {
						b, cn := withSlot(def, r, si, ib, 0)
						add(def, "nested-whole", b, cn)
					}
					// the inner message behind one to three other octets (a container type, a
					// length, a padding octet), so that it starts at another offset of the PDU
					if len(ib)+3 <= sl.TypeMax() {
						for nl := 1; nl <= 3; nl++ {
							if ii >= 0 && !thorough && (ii+nl)%2 == 0 {
								continue
							}
							lead := r.Bytes(nl)
							b, cn := withSlot(def, r, si, append(lead, ib...), 0)
							add(def, "nested-offset", b, cn)
						}
					}
					// a consistent transport: the payload container type says "N1 SM information"
					// and the inner 5GSM message carries a PDU session identity 1..15
					if inner.Family == "GSM" && len(ib) >= 4 {
						ib2 := cloneB(ib)
						ib2[0], ib2[1] = 0x2e, byte(1+r.Intn(15))
						for variant := 0; variant < 2; variant++ {
							pl := refcodec.NewPlan(def, r, 3)
							for j := range pl.Mand {
								if def.Slots[pl.Mand[j].Slot].Name == "SpareHalfOctetAndPayloadContainerType" && len(pl.Mand[j].Val) == 1 {
									pl.Mand[j].Val[0] = pl.Mand[j].Val[0]&0xf0 | 0x01
								}
							}
							if sl.Mandatory {
								pl.Mand[si].Decl, pl.Mand[si].Val = len(ib2), ib2
							} else {
								pl.Opt = append(pl.Opt, refcodec.OptElem(def, si, len(ib2), ib2, r))
							}
							if variant == 1 { // with every other optional element (incl. the routing ones)
								for _, sj := range def.OptSlots() {
									if sj != si {
										pl.Opt = append(pl.Opt, refcodec.LegalOpt(def, sj, r, 3))
									}
								}
								sortOpts(pl)
							}
							if ib2 != nil && len(ib2) <= sl.TypeMax() {
								add(def, "nested-n1-sm", pl.Bytes(), pl.Canonical())
							}
						}
					}
				}
			case false:
			}
			// this element LAST and one or two octets short, every other optional element in
			// front of it: the decoder meets the end of the input inside the last value
			if !sl.Mandatory && sl.Format != "TV1" {
				pl := refcodec.NewPlan(def, r, 3)
				for _, sj := range def.OptSlots() {
					if sj != si {
						e := refcodec.LegalOpt(def, sj, r, 3)
						if len(e.Val) > 40 {
							n := def.Slots[sj].Min
							if len(def.Slots[sj].Allowed) > 0 {
								n = def.Slots[sj].Allowed[0]
							}
							e = refcodec.OptElem(def, sj, n, r.Bytes(n), r)
						}
						pl.Opt = append(pl.Opt, e)
					}
				}
				n := refcodec.InRangeLen(r, sl)
				if n > 40 {
					n = sl.Min
				}
				if n < 2 && sl.Max >= 2 && sl.LenOK(2) {
					n = 2
				}
				pl.Opt = append(pl.Opt, refcodec.OptElem(def, si, n, r.Bytes(n), r))
				b := pl.Bytes()
				for cut := 1; cut <= 2 && cut < len(b); cut++ {
					add(def, "last-element-short", cloneB(b[:len(b)-cut]), false)
				}
			}
			switch {
			case sl.Name == "PayloadContainer":
				// payload container type "multiple payloads" (TS 24.501 9.11.3.39): number of
				// entries, then per entry its length, (number of optional IEs | type), the
				// optional IEs (type, length, value) and the payload
				for variant := 0; variant < 10; variant++ {
					pl := refcodec.NewPlan(def, r, 3)
					for j := range pl.Mand {
						if def.Slots[pl.Mand[j].Slot].Name == "SpareHalfOctetAndPayloadContainerType" && len(pl.Mand[j].Val) == 1 {
							pl.Mand[j].Val[0] = pl.Mand[j].Val[0]&0xf0 | 0x0f
						}
					}
					mp := multiPayload(r, variant)
					if sl.Mandatory {
						pl.Mand[si].Decl, pl.Mand[si].Val = len(mp), mp
					} else {
						pl.Opt = append(pl.Opt, refcodec.OptElem(def, si, len(mp), mp, r))
					}
					add(def, "multi-payload", pl.Bytes(), pl.Canonical())
				}
			case sl.Name == "EAPMessage":
				for code := 0; code <= 7; code++ {
					for _, n := range []int{4, 5, 6, 8, 20, 260} {
						for _, lf := range []int{n, 4, n - 1, n + 1, 0, 5, 0xffff} {
							b, cn := withSlot(def, r, si, eapPacket(r, byte(code), n, lf), (code+n)%2)
							add(def, "eap", b, cn)
						}
					}
				}
				for code := byte(1); code <= 2; code++ {
					for _, method := range []byte{23, 50, 18} {
						for variant := 0; variant < 6; variant++ {
							b, cn := withSlot(def, r, si, eapAttrPacket(r, code, method, variant), variant%2)
							add(def, "eap-attributes", b, cn)
						}
					}
				}
			case sl.Name == "ExtendedProtocolConfigurationOptions":
				for _, id := range pcoIDs {
					for l := 0; l <= 5; l++ {
						if !thorough && (int(id)+l+si)%3 != 0 {
							continue
						}
						pc := pcoContents(r, l)
						pc = append(pc, byte(id>>8), byte(id), byte(l))
						pc = append(pc, r.Bytes(l)...)
						if r.Chance(1, 4) {
							pc[0] = []byte{0x80, 0x00, 0x81, 0x87}[r.Intn(4)]
						}
						b, cn := withSlot(def, r, si, pc, l%2)
						add(def, "pco-short-last-unit", b, cn)
					}
				}
				for v := 0; v < 48; v++ {
					b, cn := withSlot(def, r, si, pcoContents(r, v), v%2)
					add(def, "pco-ppp", b, cn)
				}
			}
			// the dictionary planted at the start of the slot's value
			if sl.Format == "TV1" || (sl.LenSize() == 0 && sl.Max < 2) {
				continue
			}
			for _, s := range dict {
				if !thorough && r.Intn(4) != 0 {
					continue
				}
				n := len(s)
				if sl.LenSize() == 0 {
					n = sl.Max
				} else if !sl.LenOK(n) {
					n = refcodec.InRangeLen(r, sl)
					if n > 64 {
						n = sl.Min
					}
				}
				if n < len(s) {
					continue
				}
				val := r.Pattern(r.Intn(5), n)
				off := 0
				if n > len(s) && r.Chance(1, 3) {
					off = r.Intn(n - len(s) + 1)
				}
				copy(val[off:], s)
				b, cn := withSlot(def, r, si, val, 0)
				add(def, "dictionary", b, cn)
			}
		}
	}
	return out
}

// bigPDUs renders def with one 16-bit-length slot filled so that the slot length
// or the whole PDU size walks across 2^16: slot lengths 65535-w..65535 (alone and
// among all other optional elements, whose octets then push the remaining-octet
// counts across 65536), and total sizes 65533..65542. Arithmetic done in a
// 16-bit type anywhere on the path wraps inside these windows.
func bigPDUs(def *refcodec.Msg, r *prng.Rand, thorough bool) []domainPDU {
	var out []domainPDU
	w := 16
	if thorough {
		w = 48
	}
	for si := range def.Slots {
		sl := &def.Slots[si]
		if si < def.HeaderLen() || sl.LenSize() != 2 || sl.Max != 65535 {
			continue
		}
		for L := 65535 - w; L <= 65535; L++ {
			for ctx := 0; ctx < 2; ctx++ {
				if ctx == 1 && len(def.OptSlots()) < 2 {
					continue
				}
				b, cn := withSlot(def, r, si, r.Pattern(L%5, L), ctx)
				out = append(out, domainPDU{def, b, "slot-length-near-65535", cn})
			}
		}
		base, _ := withSlot(def, r, si, nil, 0)
		for N := 65533; N <= 65542; N++ {
			L := N - len(base)
			if L < sl.Min || L > sl.Max {
				continue
			}
			b, cn := withSlot(def, r, si, r.Pattern(N%5, L), 0)
			if len(b) == N {
				out = append(out, domainPDU{def, b, "pdu-size-near-65536", cn})
			}
		}
	}
	return out
}

// bigUnits makes one unit per message definition that has a 16-bit-length slot.
func bigUnits(msgs []*refcodec.Msg, tier string, weight int, fn func(c *core.Ctx, d *domainPDU, i int)) []core.Unit {
	var us []core.Unit
	for _, def := range msgs {
		def := def
		has := false
		for si := range def.Slots {
			if si >= def.HeaderLen() && def.Slots[si].LenSize() == 2 && def.Slots[si].Max == 65535 {
				has = true
			}
		}
		if !has {
			continue
		}
		us = append(us, core.Unit{Name: "big-" + def.Name, Weight: weight, Run: func(c *core.Ctx) {
			ds := bigPDUs(def, c.R, tier == "thorough")
			for i := range ds {
				fn(c, &ds[i], i)
				c.Cover("domain_kind", ds[i].Kind)
				if i&7 == 0 {
					c.J.Tick()
				}
			}
			c.Count("big_pdus", int64(len(ds)))
		}})
	}
	return us
}

// sortOpts puts the optional elements of a plan into table order (stable).
func sortOpts(pl *refcodec.Plan) {
	for i := 1; i < len(pl.Opt); i++ {
		for j := i; j > 0 && pl.Opt[j].Slot < pl.Opt[j-1].Slot; j-- {
			pl.Opt[j], pl.Opt[j-1] = pl.Opt[j-1], pl.Opt[j]
		}
	}
}
