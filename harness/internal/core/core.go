// Package core is the monitoring runtime shared by all property monitors:
// case representation, the crash-surviving journal, per-shard context with
// evidence counters, violation records and the property registry.
package core

import (
	"encoding/binary"
	"encoding/hex"
	"encoding/json"
	"fmt"
	"os"
	"runtime"
	"runtime/debug"
	"sort"
	"strings"
	"syscall"
	"time"

	"verifharness/internal/prng"
)

// Case is one judged execution (or one deterministic batch of executions).
// It is the unit of journaling and of replay.
type Case struct {
	Oracle string   `json:"oracle"`
	Target string   `json:"target"`
	B      [][]byte `json:"-"`
	I      []int64  `json:"i,omitempty"`
	S      []string `json:"s,omitempty"`
}

type caseJSON struct {
	Oracle string   `json:"oracle"`
	Target string   `json:"target"`
	B      []string `json:"b_hex,omitempty"`
	I      []int64  `json:"i,omitempty"`
	S      []string `json:"s,omitempty"`
}

func (k Case) MarshalJSON() ([]byte, error) {
	j := caseJSON{Oracle: k.Oracle, Target: k.Target, I: k.I, S: k.S}
	for _, b := range k.B {
		j.B = append(j.B, hex.EncodeToString(b))
	}
	return json.Marshal(j)
}

func (k *Case) UnmarshalJSON(d []byte) error {
	var j caseJSON
	if err := json.Unmarshal(d, &j); err != nil {
		return err
	}
	k.Oracle, k.Target, k.I, k.S = j.Oracle, j.Target, j.I, j.S
	k.B = nil
	for _, h := range j.B {
		b, err := hex.DecodeString(h)
		if err != nil {
			return err
		}
		k.B = append(k.B, b)
	}
	return nil
}

// Brief renders a case for samples/evidence, truncating long byte strings.
func (k *Case) Brief() map[string]interface{} {
	m := map[string]interface{}{"oracle": k.Oracle, "target": k.Target}
	if len(k.B) > 0 {
		var bs []string
		for _, b := range k.B {
			if len(b) > 48 {
				bs = append(bs, fmt.Sprintf("%s…(%d octets)", hex.EncodeToString(b[:48]), len(b)))
			} else {
				bs = append(bs, hex.EncodeToString(b))
			}
		}
		m["b_hex"] = bs
	}
	if len(k.I) > 0 {
		m["i"] = k.I
	}
	if len(k.S) > 0 {
		m["s"] = k.S
	}
	return m
}

// ---- binary encoding of a case for the journal -----------------------------

func (k *Case) encode(dst []byte) int {
	n := 0
	putS := func(s string) bool {
		if n+4+len(s) > len(dst) {
			return false
		}
		binary.LittleEndian.PutUint32(dst[n:], uint32(len(s)))
		n += 4
		n += copy(dst[n:], s)
		return true
	}
	putB := func(s []byte) bool {
		if n+4+len(s) > len(dst) {
			return false
		}
		binary.LittleEndian.PutUint32(dst[n:], uint32(len(s)))
		n += 4
		n += copy(dst[n:], s)
		return true
	}
	put32 := func(v int) bool {
		if n+4 > len(dst) {
			return false
		}
		binary.LittleEndian.PutUint32(dst[n:], uint32(v))
		n += 4
		return true
	}
	if !putS(k.Oracle) || !putS(k.Target) || !put32(len(k.B)) {
		return 0
	}
	for _, b := range k.B {
		if !putB(b) {
			return 0
		}
	}
	if !put32(len(k.I)) {
		return 0
	}
	for _, v := range k.I {
		if n+8 > len(dst) {
			return 0
		}
		binary.LittleEndian.PutUint64(dst[n:], uint64(v))
		n += 8
	}
	if !put32(len(k.S)) {
		return 0
	}
	for _, s := range k.S {
		if !putS(s) {
			return 0
		}
	}
	return n
}

func decodeCase(src []byte) (k *Case, ok bool) {
	defer func() {
		if recover() != nil {
			k, ok = nil, false
		}
	}()
	n := 0
	get32 := func() int {
		v := int(binary.LittleEndian.Uint32(src[n:]))
		n += 4
		return v
	}
	getB := func() []byte {
		l := get32()
		b := append([]byte(nil), src[n:n+l]...)
		n += l
		return b
	}
	k = &Case{}
	k.Oracle = string(getB())
	k.Target = string(getB())
	nb := get32()
	for i := 0; i < nb; i++ {
		k.B = append(k.B, getB())
	}
	ni := get32()
	for i := 0; i < ni; i++ {
		k.I = append(k.I, int64(binary.LittleEndian.Uint64(src[n:])))
		n += 8
	}
	ns := get32()
	for i := 0; i < ns; i++ {
		k.S = append(k.S, string(getB()))
	}
	return k, true
}

// ---- journal ---------------------------------------------------------------

const journalSize = 1 << 20 // header + one case

// Journal is a MAP_SHARED file: a store into it survives the death of the
// process (stack exhaustion, OOM kill, runtime throw) without a system call.
type Journal struct {
	mem []byte
}

func OpenJournal(path string) (*Journal, error) {
	f, err := os.OpenFile(path, os.O_RDWR|os.O_CREATE, 0o644)
	if err != nil {
		return nil, err
	}
	defer f.Close()
	if err := f.Truncate(journalSize); err != nil {
		return nil, err
	}
	mem, err := syscall.Mmap(int(f.Fd()), 0, journalSize, syscall.PROT_READ|syscall.PROT_WRITE, syscall.MAP_SHARED)
	if err != nil {
		return nil, err
	}
	return &Journal{mem: mem}, nil
}

// layout: [0:8] seq  [8:16] tick  [16:20] len  [20:24] unit-name len  [24:152] unit name  [152:] case
func (j *Journal) Write(k *Case) {
	if j == nil {
		return
	}
	n := k.encode(j.mem[152:])
	binary.LittleEndian.PutUint32(j.mem[16:], uint32(n))
	seq := binary.LittleEndian.Uint64(j.mem[0:])
	binary.LittleEndian.PutUint64(j.mem[0:], seq+1)
}

func (j *Journal) SetUnit(name string) {
	if j == nil {
		return
	}
	if len(name) > 128 {
		name = name[:128]
	}
	binary.LittleEndian.PutUint32(j.mem[20:], uint32(len(name)))
	copy(j.mem[24:152], name)
	binary.LittleEndian.PutUint32(j.mem[16:], 0)
	j.Tick()
}

func (j *Journal) Tick() {
	if j == nil {
		return
	}
	t := binary.LittleEndian.Uint64(j.mem[8:])
	binary.LittleEndian.PutUint64(j.mem[8:], t+1)
}

// ReadJournal is used by the driver after (or while) a shard runs.
func ReadJournal(path string) (progress uint64, unit string, k *Case) {
	d, err := os.ReadFile(path)
	if err != nil || len(d) < 152 {
		return 0, "", nil
	}
	progress = binary.LittleEndian.Uint64(d[0:]) + binary.LittleEndian.Uint64(d[8:])
	ul := int(binary.LittleEndian.Uint32(d[20:]))
	if ul <= 128 {
		unit = string(d[24 : 24+ul])
	}
	n := int(binary.LittleEndian.Uint32(d[16:]))
	if n > 0 && 152+n <= len(d) {
		if c, ok := decodeCase(d[152 : 152+n]); ok {
			k = c
		}
	}
	return
}

// ---- violations ------------------------------------------------------------

type Violation struct {
	Property  string `json:"property"`
	Oracle    string `json:"oracle"`
	Target    string `json:"target"`
	Signature string `json:"signature"`
	Detail    string `json:"detail"`
	Unit      string `json:"unit,omitempty"`
	Seed      uint64 `json:"seed"`
	Case      *Case  `json:"case"`
	Arch      string `json:"arch,omitempty"` // set when the run was not on the default platform (e.g. "386")
}

func (v *Violation) Key() string { return v.Oracle + "|" + v.Target + "|" + v.Signature }

// ---- shard report ----------------------------------------------------------

type Report struct {
	Property   string                      `json:"property"`
	Shard      int                         `json:"shard"`
	Units      int                         `json:"units"`
	Evals      int64                       `json:"evals"`
	NonTrivial int64                       `json:"nontrivial_events"`
	HashCapHit bool                        `json:"hash_cap_hit"`
	Coverage   map[string]map[string]int64 `json:"coverage"`
	Counters   map[string]int64            `json:"counters"`
	Samples    []json.RawMessage           `json:"samples"`
	Violations []*Violation                `json:"violations"`
	Notes      []string                    `json:"notes,omitempty"`
	Inconcl    []string                    `json:"inconclusive,omitempty"`
	Done       bool                        `json:"done"`
}

// ---- context ---------------------------------------------------------------

const hashCap = 1 << 20

type Ctx struct {
	Prop    *Property
	Tier    string
	Seed    uint64
	Shard   int
	NShards int
	Replay  bool

	R    *prng.Rand
	unit string
	J    *Journal

	rep     *Report
	hashes  map[uint64]struct{}
	vioSeen map[string]int
	sampleN int64
	held    []heldResult
	curCase *Case
	Scratch map[string]interface{} // per-shard caches owned by monitors

	// interleaved re-execution (see Do)
	recent []*Case
	doSeq  int
	wrapB  *Case // set while an earlier case is re-run after wrapB
	wrapA  *Case
	wrapV  *Case // set while a case is re-run with the library's logging at another level
	wrapL  int   // that level
	Reruns int64
}

func NewCtx(p *Property, tier string, seed uint64, shard, n int, j *Journal) *Ctx {
	return &Ctx{
		Prop: p, Tier: tier, Seed: seed, Shard: shard, NShards: n, J: j,
		R: prng.New(seed),
		rep: &Report{Property: p.ID, Shard: shard,
			Coverage: map[string]map[string]int64{}, Counters: map[string]int64{}},
		hashes:  map[uint64]struct{}{},
		vioSeen: map[string]int{},
		Scratch: map[string]interface{}{},
	}
}

func (c *Ctx) Thorough() bool { return c.Tier == "thorough" }

// Pick chooses between the quick and thorough value of a bound.
func (c *Ctx) Pick(quick, thorough int) int {
	if c.Thorough() {
		return thorough
	}
	return quick
}

func (c *Ctx) Report() *Report { return c.rep }

func (c *Ctx) Eval(n int64) { c.rep.Evals += n }

func (c *Ctx) Count(name string, n int64) { c.rep.Counters[name] += n }

func (c *Ctx) Cover(dim, key string) {
	m := c.rep.Coverage[dim]
	if m == nil {
		m = map[string]int64{}
		c.rep.Coverage[dim] = m
	}
	m[key]++
}

func (c *Ctx) CoverN(dim, key string, n int64) {
	m := c.rep.Coverage[dim]
	if m == nil {
		m = map[string]int64{}
		c.rep.Coverage[dim] = m
	}
	m[key] += n
}

// NonTrivial records the hash of a distinct non-trivial case.
func (c *Ctx) NonTrivial(h uint64) {
	c.rep.NonTrivial++
	if len(c.hashes) >= hashCap {
		c.rep.HashCapHit = true
		return
	}
	c.hashes[h] = struct{}{}
}

// Hash helpers (FNV-1a).
func HashBytes(h uint64, b []byte) uint64 {
	if h == 0 {
		h = 0xcbf29ce484222325
	}
	for _, x := range b {
		h ^= uint64(x)
		h *= 0x100000001b3
	}
	return h
}

func HashU64(h uint64, v uint64) uint64 {
	if h == 0 {
		h = 0xcbf29ce484222325
	}
	for i := 0; i < 8; i++ {
		h ^= v & 0xff
		h *= 0x100000001b3
		v >>= 8
	}
	return h
}

func HashStr(h uint64, s string) uint64 {
	if h == 0 {
		h = 0xcbf29ce484222325
	}
	for i := 0; i < len(s); i++ {
		h ^= uint64(s[i])
		h *= 0x100000001b3
	}
	return h
}

func (k *Case) Hash() uint64 {
	h := HashStr(0, k.Oracle)
	h = HashStr(h, k.Target)
	for _, b := range k.B {
		h = HashU64(h, uint64(len(b)))
		h = HashBytes(h, b)
	}
	for _, v := range k.I {
		h = HashU64(h, uint64(v))
	}
	for _, s := range k.S {
		h = HashStr(h, s)
		h = HashU64(h, 0xff)
	}
	return h
}

// Sample keeps the first few and then a thinning random selection of cases.
func (c *Ctx) Sample(vv interface{}) {
	c.sampleN++
	n0 := c.sampleN
	keep := len(c.rep.Samples) < 3 || (n0&(n0-1) == 0 && (bitsLen(uint64(n0))%2 == 1) && len(c.rep.Samples) < 12)
	if !keep {
		return
	}
	v, err := json.Marshal(vv)
	if err != nil {
		return
	}
	if len(c.rep.Samples) < 3 {
		c.rep.Samples = append(c.rep.Samples, v)
		return
	}
	// deterministic thinning: keep when sampleN is a power of 4 (bounded growth)
	n := c.sampleN
	if n&(n-1) == 0 && (bitsLen(uint64(n))%2 == 1) && len(c.rep.Samples) < 12 {
		c.rep.Samples = append(c.rep.Samples, v)
	}
}

func bitsLen(x uint64) int {
	n := 0
	for x != 0 {
		n++
		x >>= 1
	}
	return n
}

func (c *Ctx) Note(s string) { c.rep.Notes = append(c.rep.Notes, s) }

func (c *Ctx) Inconclusive(s string) { c.rep.Inconcl = append(c.rep.Inconcl, s) }

// Fail records a violation. Only the first witness per (oracle,target,signature)
// is kept; later ones are counted.
func (c *Ctx) Fail(k *Case, signature, detail string) {
	if c.wrapV != nil {
		jk, _ := json.Marshal(c.wrapV)
		k = &Case{Oracle: WithTrace, Target: c.wrapV.Target, S: []string{string(jk)}, I: []int64{int64(c.wrapL)}}
		signature = "with-trace-logging:" + signature
		detail = fmt.Sprintf("the case (%s on %s) passed with the library's default log level; re-run with the logger at level %d (logrus numbering: 0 panic .. 4 info, 5 debug, 6 trace) it reports: %s", c.wrapV.Oracle, c.wrapV.Target, c.wrapL, detail)
	} else if c.wrapA != nil {
		// a case that passed when it ran first complains when re-run after another one
		jb, _ := json.Marshal(c.wrapB)
		ja, _ := json.Marshal(c.wrapA)
		k = &Case{Oracle: AfterOther, Target: c.wrapA.Target, S: []string{string(jb), string(ja)}}
		signature = "after-other-call:" + signature
		detail = fmt.Sprintf("case A (%s on %s) passed when it ran first; re-run after case B (%s on %s) it reports: %s", c.wrapA.Oracle, c.wrapA.Target, c.wrapB.Oracle, c.wrapB.Target, detail)
	}
	v := &Violation{Property: c.Prop.ID, Oracle: k.Oracle, Target: k.Target,
		Signature: signature, Detail: detail, Unit: c.unit, Seed: c.Seed}
	key := v.Key()
	c.vioSeen[key]++
	c.rep.Counters["violating_cases"]++
	if c.vioSeen[key] > 1 {
		return
	}
	cp := *k
	cp.B = nil
	for _, b := range k.B {
		cp.B = append(cp.B, append([]byte(nil), b...))
	}
	cp.I = append([]int64(nil), k.I...)
	cp.S = append([]string(nil), k.S...)
	v.Case = &cp
	if len(detail) > 2000 {
		v.Detail = detail[:2000] + "…"
	}
	c.rep.Violations = append(c.rep.Violations, v)
}

// RepoFrame extracts the innermost stack frame that lies in the library under
// test from a debug.Stack() dump; it names the panic site in signatures.
func RepoFrame(stack []byte) string {
	lines := strings.Split(string(stack), "\n")
	for i := 0; i+1 < len(lines); i++ {
		l := lines[i]
		if strings.HasPrefix(l, "github.com/free5gc/nas") {
			fn := l
			if p := strings.LastIndex(fn, "("); p > 0 {
				fn = fn[:p]
			}
			fn = strings.TrimPrefix(fn, "github.com/free5gc/nas")
			fn = strings.TrimPrefix(fn, "/")
			return fn
		}
	}
	return "?"
}

// PanicClass reduces a panic value to a stable class (numbers stripped).
func PanicClass(r interface{}) string {
	s := fmt.Sprint(r)
	var b strings.Builder
	prevDigit := false
	for _, ch := range s {
		if ch >= '0' && ch <= '9' {
			if !prevDigit {
				b.WriteByte('N')
			}
			prevDigit = true
			continue
		}
		prevDigit = false
		b.WriteRune(ch)
	}
	out := b.String()
	if len(out) > 120 {
		out = out[:120]
	}
	return out
}

// Do journals the case and runs its oracle under recover(). A panic escaping
// the oracle is a violation attributed to the first library frame.
// AfterOther names the built-in composite oracle: S = [JSON of case B, JSON of case A].
const AfterOther = "after-other"

// WithTrace names the built-in oracle that re-runs a case (S = [JSON of the case])
// with the library under test configured for its most verbose logging.
const WithTrace = "with-trace-logging"

// VerboseHook runs fn with the library's logger at its most verbose level and
// restores the level afterwards. Set by the monitor package (core knows nothing
// of the library).
var VerboseHook func(level int, fn func())

// RacePost parses the race detector's logs of a run (set by the monitor package). It is
// used by C19 as its Post hook and by the race side run of every other property.
var RacePost func(*PostInfo) ([]*Violation, []string)

// verboseLevels is the rotation of log levels used by the re-runs: mostly the two verbose
// ones, now and then a quieter one than the default (code guarded by "level >= debug" but
// prepared under "level >= trace", or the converse, runs at exactly one of them).
var verboseLevels = []int{6, 5, 6, 5, 6, 2, 5, 3, 6, 0}

func withTrace(c *Ctx, k *Case) {
	var a Case
	if len(k.S) != 1 || json.Unmarshal([]byte(k.S[0]), &a) != nil || VerboseHook == nil {
		c.Inconclusive("malformed with-trace-logging case")
		return
	}
	lvl := 6
	if len(k.I) > 0 {
		lvl = int(k.I[0])
	}
	c.wrapV, c.wrapL = &a, lvl
	VerboseHook(lvl, func() { c.runOne(&a) })
	c.wrapV = nil
}

func caseSize(k *Case) int {
	n := 8 * len(k.I)
	for _, b := range k.B {
		n += len(b)
	}
	for _, s := range k.S {
		n += len(s)
	}
	return n
}

func copyCase(k *Case) *Case {
	cp := *k
	cp.B = nil
	for _, b := range k.B {
		cp.B = append(cp.B, append([]byte(nil), b...))
	}
	cp.I = append([]int64(nil), k.I...)
	cp.S = append([]string(nil), k.S...)
	return &cp
}

func (c *Ctx) interleaved(oracle string) bool {
	for _, o := range c.Prop.Interleave {
		if o == oracle {
			return true
		}
	}
	return false
}

// afterOther replays a composite case: B, then A under the wrapper.
func afterOther(c *Ctx, k *Case) {
	if len(k.S) != 2 {
		c.Inconclusive("malformed after-other case")
		return
	}
	var b, a Case
	if json.Unmarshal([]byte(k.S[0]), &b) != nil || json.Unmarshal([]byte(k.S[1]), &a) != nil {
		c.Inconclusive("malformed after-other case")
		return
	}
	// B then A — the state A's own first run left behind was long gone when the pair
	// was found; if that does not reproduce it, A, B, A
	n := len(c.rep.Violations)
	c.runOne(&b)
	c.rep.Violations = c.rep.Violations[:n] // B by itself is not what is judged here
	c.wrapB, c.wrapA = &b, &a
	c.runOne(&a)
	c.wrapB, c.wrapA = nil, nil
	if len(c.rep.Violations) > n {
		return
	}
	c.runOne(&a)
	c.runOne(&b)
	c.rep.Violations = c.rep.Violations[:n]
	c.wrapB, c.wrapA = &b, &a
	c.runOne(&a)
	c.wrapB, c.wrapA = nil, nil
}

// Do journals and runs one case. For oracles listed in Property.Interleave it
// also does *interleaved re-execution*: every fourth such case B is followed by
// a re-run of an earlier case A (one of the last eight that passed). A is a
// deterministic function of its case, so it must pass again; if it complains
// now, something B left behind in the library changed A's outcome (a memo keyed
// by part of the input, a recycled buffer, a counter). The violation carries the
// pair (B, A) as its replayable case.
func (c *Ctx) Do(k *Case) {
	before := c.rep.Counters["violating_cases"]
	nInc := len(c.rep.Inconcl)
	c.runOne(k)
	if c.Replay || c.wrapA != nil || c.wrapV != nil || !c.interleaved(k.Oracle) || caseSize(k) > 4096 {
		return
	}
	passed := c.rep.Counters["violating_cases"] == before && len(c.rep.Inconcl) == nInc
	c.doSeq++
	if passed && c.doSeq%8 == 3 && VerboseHook != nil {
		// configuration must not change outcomes: the same case with Trace-level logging
		c.wrapV, c.wrapL = k, verboseLevels[(c.doSeq/8)%len(verboseLevels)]
		VerboseHook(c.wrapL, func() { c.runOne(k) })
		c.wrapV = nil
		c.rep.Counters["trace_level_reruns"]++
	}
	if c.doSeq%4 == 0 && len(c.recent) > 0 {
		a := c.recent[(c.doSeq/4)%len(c.recent)]
		c.wrapB, c.wrapA = k, a
		c.runOne(a)
		c.wrapB, c.wrapA = nil, nil
		c.Reruns++
		c.rep.Counters["interleaved_reruns"]++
	}
	if passed {
		c.recent = append(c.recent, copyCase(k))
		if len(c.recent) > 8 {
			c.recent = c.recent[1:]
		}
	}
}

func (c *Ctx) runOne(k *Case) {
	c.J.Write(k)
	c.curCase = k
	f := c.Prop.Oracles[k.Oracle]
	if k.Oracle == AfterOther {
		f = afterOther
	}
	if k.Oracle == WithTrace {
		f = withTrace
	}
	if f == nil {
		panic("unknown oracle " + k.Oracle)
	}
	defer func() {
		if r := recover(); r != nil {
			st := debug.Stack()
			frame := RepoFrame(st)
			if frame == "?" {
				// a panic with no library frame is a harness defect
				c.Inconclusive(fmt.Sprintf("harness panic in oracle %s: %v\n%s", k.Oracle, r, st))
				return
			}
			c.Fail(k, "panic:"+PanicClass(r)+"@"+frame, fmt.Sprintf("panic: %v\n%s", r, trimStack(st)))
		}
	}()
	f(c, k)
}

// Guard runs f and converts a panic in library code into a violation of the
// current case; it returns false if f panicked. Oracles use it when they want
// to go on after a panic in one of several calls.
func (c *Ctx) Guard(k *Case, what string, f func()) (ok bool) {
	defer func() {
		if r := recover(); r != nil {
			st := debug.Stack()
			frame := RepoFrame(st)
			if frame == "?" {
				c.Inconclusive(fmt.Sprintf("harness panic in %s/%s: %v\n%s", k.Oracle, what, r, st))
			} else {
				c.Fail(k, "panic:"+PanicClass(r)+"@"+frame, fmt.Sprintf("%s: panic: %v\n%s", what, r, trimStack(st)))
			}
			ok = false
		}
	}()
	f()
	return true
}

func trimStack(st []byte) string {
	lines := strings.Split(string(st), "\n")
	if len(lines) > 40 {
		lines = lines[:40]
	}
	return strings.Join(lines, "\n")
}

// ---- held results ----------------------------------------------------------

type heldResult struct {
	label string
	data  []byte
	snap  []byte
	k     *Case
}

// Hold remembers a byte slice RETURNED by the library (not a copy) together with
// a snapshot. Every later Hold first verifies that all slices still held are
// unchanged: a function that hands out memory it reuses later (pooled or
// package-level buffers) corrupts an earlier result when it is called again.
// The ring keeps the last 6 results.
func (c *Ctx) Hold(k *Case, label string, data []byte) {
	for _, h := range c.held {
		if !bytesEqual(h.data, h.snap) {
			c.Fail(h.k, "earlier-result-changed:"+h.label, fmt.Sprintf("the bytes returned by %s changed after a later library call (%s): %x -> %x", h.label, label, clip(h.snap), clip(h.data)))
			copy(h.snap, h.data)
		}
	}
	if len(data) == 0 {
		return
	}
	kc := *k
	c.held = append(c.held, heldResult{label: label, data: data, snap: append([]byte(nil), data...), k: &kc})
	if len(c.held) > 6 {
		c.held = c.held[1:]
	}
}

func clip(b []byte) []byte {
	if len(b) > 48 {
		return b[:48]
	}
	return b
}

func bytesEqual(a, b []byte) bool {
	if len(a) != len(b) {
		return false
	}
	for i := range a {
		if a[i] != b[i] {
			return false
		}
	}
	return true
}

// ---- units and properties --------------------------------------------------

type Unit struct {
	Name   string
	Weight int  // relative cost, for balancing
	Solo   bool // must run in a shard of its own process (metering)
	Fresh  bool // must run in a process of its own whose package state is cold; normal scheduling
	Run    func(c *Ctx)
}

type Property struct {
	ID          string
	Rule        string
	Assumptions []string
	Race        bool
	Units       func(tier string) []Unit
	Oracles     map[string]func(c *Ctx, k *Case)
	// Floors inspects merged coverage/counters and returns the floors not met.
	Floors func(tier string, cov map[string]map[string]int64, cnt map[string]int64) []string
	// Exhaustive names the finite sub-spaces enumerated completely.
	Exhaustive func(tier string) (bool, string)
	// StallSeconds is the no-progress deadline of stage 1 of the hang rule.
	StallSeconds int
	// Shards caps the number of shard processes (0 = one per core, at most 16).
	Shards int
	// Post runs in the driver after all shards finished (race-log parsing etc.).
	Post       func(pi *PostInfo) (vios []*Violation, inconclusive []string)
	Interleave []string // oracles whose cases take part in interleaved re-execution (cheap, self-contained per case)
}

// PostInfo is what a driver-side post-processor sees.
type PostInfo struct {
	Work     string
	Tier     string
	Seed     uint64
	Shards   int
	Coverage map[string]map[string]int64
	Counters map[string]int64
	Property string // the property the run belongs to (race side runs of properties other than C19)
}

var registry = map[string]*Property{}

func Register(p *Property) { registry[p.ID] = p }

func Lookup(id string) *Property { return registry[id] }

func AllIDs() []string {
	var ids []string
	for id := range registry {
		ids = append(ids, id)
	}
	sort.Strings(ids)
	return ids
}

// RunUnit runs one unit with its own PRNG stream.
func (c *Ctx) RunUnit(u *Unit) {
	c.unit = u.Name
	c.R = prng.New(c.Seed ^ prng.HashString(c.Prop.ID+"/"+u.Name))
	c.J.SetUnit(u.Name)
	defer func() {
		if r := recover(); r != nil {
			st := debug.Stack()
			frame := RepoFrame(st)
			k := c.curCase
			if k == nil {
				k = &Case{Oracle: "unit", Target: u.Name}
			}
			if frame == "?" {
				c.Inconclusive(fmt.Sprintf("harness panic in unit %s: %v\n%s", u.Name, r, st))
			} else {
				c.Fail(k, "panic:"+PanicClass(r)+"@"+frame, fmt.Sprintf("unit %s: panic: %v\n%s", u.Name, r, trimStack(st)))
			}
		}
	}()
	u.Run(c)
	c.rep.Units++
}

// WriteShardOutput stores the report and the sorted hash set.
func (c *Ctx) WriteShardOutput(dir string) error {
	c.rep.Done = true
	hs := make([]uint64, 0, len(c.hashes))
	for h := range c.hashes {
		hs = append(hs, h)
	}
	sort.Slice(hs, func(i, j int) bool { return hs[i] < hs[j] })
	buf := make([]byte, 8*len(hs))
	for i, h := range hs {
		binary.LittleEndian.PutUint64(buf[8*i:], h)
	}
	if err := os.WriteFile(fmt.Sprintf("%s/hashes.%d.bin", dir, c.Shard), buf, 0o644); err != nil {
		return err
	}
	d, err := json.Marshal(c.rep)
	if err != nil {
		return err
	}
	tmp := fmt.Sprintf("%s/report.%d.json.tmp", dir, c.Shard)
	if err := os.WriteFile(tmp, d, 0o644); err != nil {
		return err
	}
	return os.Rename(tmp, fmt.Sprintf("%s/report.%d.json", dir, c.Shard))
}

// ---- memory watchdog -------------------------------------------------------

const MemExitCode = 97

// StartMemWatchdog aborts the process when the Go heap grows past limit bytes.
// The journal then names the case that was running.
func StartMemWatchdog(limit uint64) {
	go func() {
		var ms runtime.MemStats
		for {
			time.Sleep(40 * time.Millisecond)
			runtime.ReadMemStats(&ms)
			if ms.Sys > limit || ms.HeapAlloc > limit {
				fmt.Fprintf(os.Stderr, "MEMORY-WATCHDOG: Sys=%d HeapAlloc=%d limit=%d\n", ms.Sys, ms.HeapAlloc, limit)
				os.Exit(MemExitCode)
			}
		}
	}()
}
