// Package reg holds the by-name registry of the library's exported types and
// constants. registry_gen.go is replaced at build time (go build -overlay) by
// the output of vgen run on the tree under test; the committed copy reflects
// the pinned tree and only serves editors and `go vet`.
package reg
