package refcrypto

import (
	"bytes"
	"encoding/hex"
	"encoding/json"
	"fmt"
	"os"
)

type katCase struct {
	Name      string   `json:"name"`
	Ck        string   `json:"Ck"`
	Ik        string   `json:"Ik"`
	CountC    uint32   `json:"CountC"`
	CountI    uint32   `json:"CountI"`
	Count     uint32   `json:"Count"`
	Bearer    uint32   `json:"Bearer"`
	Direction uint32   `json:"Direction"`
	Length    int      `json:"Length"`
	Ibs       string   `json:"Ibs"`
	Obs       string   `json:"Obs"`
	Msg       string   `json:"Msg"`
	MacI      uint32   `json:"MacI"`
	Mac       jsonAny  `json:"Mac"`
	K         jsonAny  `json:"k"`
	IV        jsonAny  `json:"iv"`
	Z         []uint32 `json:"z"`
	N         int      `json:"length"`
}

type jsonAny struct{ raw json.RawMessage }

func (j *jsonAny) UnmarshalJSON(d []byte) error { j.raw = append([]byte(nil), d...); return nil }

func key16(h string) (k [16]byte) {
	b, _ := hex.DecodeString(h)
	copy(k[:], b)
	return
}

func sameBits(a, b []byte, nbits int) bool {
	nb := (nbits + 7) / 8
	if len(a) < nb || len(b) < nb {
		return false
	}
	for i := 0; i < nb; i++ {
		x, y := a[i], b[i]
		if i == nb-1 && nbits%8 != 0 {
			m := byte(0xff << (8 - uint(nbits%8)))
			x, y = x&m, y&m
		}
		if x != y {
			return false
		}
	}
	return true
}

// SelfTest validates the reference models against the published test sets in
// spec/kat and a few structural facts. It returns the number of vectors run.
func SelfTest(verifDir string) (int, error) {
	tabOnce.Do(buildTables)
	// structural: the four S-boxes are bijections; well-known corner entries
	for name, t := range map[string]*[256]byte{"SR": &sR, "SQ": &sQ, "ZUC-S0": &zucS0, "ZUC-S1": &zucS1} {
		var seen [256]bool
		for _, v := range t {
			if seen[v] {
				return 0, fmt.Errorf("reference table %s is not a bijection", name)
			}
			seen[v] = true
		}
	}
	if sR[0] != 0x63 || sR[1] != 0x7c || sR[0x53] != 0xed || sQ[0] != 0x25 {
		return 0, fmt.Errorf("derived S-box corner entries are wrong")
	}
	// NIST SP 800-38B AES-128 CMAC examples
	nk := key16("2b7e151628aed2a6abf7158809cf4f3c")
	nm, _ := hex.DecodeString("6bc1bee22e409f96e93d7e117393172aae2d8a571e03ac9c9eb76fac45af8e5130c81c46a35ce411e5fbc1191a0a52eff69f2445df4f9b17ad2b417be66c3710")
	for _, tc := range []struct {
		n   int
		tag string
	}{{0, "bb1d6929e95937287fa37d129b756746"}, {16, "070a16b46b4d4144f79bdd9dd04a287c"}, {40, "dfa66747de9ae63030ca32611497c827"}, {64, "51f0bebf7e3b9d92fc49741779363cfe"}} {
		t := CMAC(nk, nm[:tc.n])
		if hex.EncodeToString(t[:]) != tc.tag {
			return 0, fmt.Errorf("reference CMAC fails SP 800-38B example len %d: %x", tc.n, t)
		}
	}
	d, err := os.ReadFile(verifDir + "/spec/kat/security_kat.json")
	if err != nil {
		return 0, err
	}
	var all map[string][]katCase
	if err := json.Unmarshal(d, &all); err != nil {
		return 0, err
	}
	n := 4
	for _, tc := range all["TestSnow3g"] {
		var k, iv [4]uint32
		var ks, ivs []uint32
		_ = json.Unmarshal(tc.K.raw, &ks)
		_ = json.Unmarshal(tc.IV.raw, &ivs)
		copy(k[:], ks)
		copy(iv[:], ivs)
		// the test file lists k and iv in the order k0..k3 / IV0..IV3
		z := Snow3G(k, iv, len(tc.Z))
		for i := range z {
			if z[i] != tc.Z[i] {
				return n, fmt.Errorf("reference SNOW 3G fails %s", tc.Name)
			}
		}
		n++
	}
	for _, tc := range all["TestZuc"] {
		var ks, ivs string
		_ = json.Unmarshal(tc.K.raw, &ks)
		_ = json.Unmarshal(tc.IV.raw, &ivs)
		kb, _ := hex.DecodeString(ks)
		ib, _ := hex.DecodeString(ivs)
		z := ZUC(kb, ib, len(tc.Z))
		for i := range z {
			if z[i] != tc.Z[i] {
				return n, fmt.Errorf("reference ZUC fails %s: %08x", tc.Name, z)
			}
		}
		n++
	}
	for _, tc := range all["TestNEA1"] {
		in, _ := hex.DecodeString(tc.Ibs)
		want, _ := hex.DecodeString(tc.Obs)
		if got := EEA1(key16(tc.Ck), tc.CountC, tc.Bearer, tc.Direction, in, tc.Length); !sameBits(got, want, tc.Length) {
			return n, fmt.Errorf("reference EEA1 fails %s", tc.Name)
		}
		n++
	}
	for _, tc := range all["TestNEA2"] {
		in, _ := hex.DecodeString(tc.Ibs)
		want, _ := hex.DecodeString(tc.Obs)
		got := EEA2(key16(tc.Ck), tc.CountC, tc.Bearer, tc.Direction, in)
		nb := tc.Length
		if nb == 0 || nb > 8*len(in) {
			nb = 8 * len(in)
		}
		if !sameBits(got, want, nb) {
			return n, fmt.Errorf("reference EEA2 fails %s", tc.Name)
		}
		n++
	}
	for _, tc := range all["TestNEA3"] {
		in, _ := hex.DecodeString(tc.Ibs)
		want, _ := hex.DecodeString(tc.Obs)
		if got := EEA3(key16(tc.Ck), tc.Count, tc.Bearer, tc.Direction, in, tc.Length); !sameBits(got, want, tc.Length) {
			return n, fmt.Errorf("reference EEA3 fails %s", tc.Name)
		}
		n++
	}
	for _, tc := range all["TestNIA1"] {
		m, _ := hex.DecodeString(tc.Msg)
		if got := EIA1(key16(tc.Ik), tc.CountI, tc.Bearer, tc.Direction, m, tc.Length); got != tc.MacI {
			return n, fmt.Errorf("reference EIA1 fails %s: %08x want %08x", tc.Name, got, tc.MacI)
		}
		n++
	}
	for _, tc := range all["TestNIA2"] {
		m, _ := hex.DecodeString(tc.Msg)
		if tc.Length%8 == 0 && tc.Length > 0 && tc.Length/8 <= len(m) {
			m = m[:tc.Length/8]
		}
		if got := EIA2(key16(tc.Ik), tc.CountI, tc.Bearer, tc.Direction, m); got != tc.MacI {
			return n, fmt.Errorf("reference EIA2 fails %s: %08x want %08x", tc.Name, got, tc.MacI)
		}
		n++
	}
	for _, tc := range all["TestNIA3"] {
		m, _ := hex.DecodeString(tc.Msg)
		var ms string
		_ = json.Unmarshal(tc.Mac.raw, &ms)
		mb, _ := hex.DecodeString(ms)
		if len(mb) != 4 {
			return n, fmt.Errorf("bad EIA3 KAT %s", tc.Name)
		}
		want := uint32(mb[0])<<24 | uint32(mb[1])<<16 | uint32(mb[2])<<8 | uint32(mb[3])
		if got := EIA3(key16(tc.Ik), tc.Count, tc.Bearer, tc.Direction, m, tc.Length); got != want {
			return n, fmt.Errorf("reference EIA3 fails %s: %08x want %08x", tc.Name, got, want)
		}
		n++
	}
	_ = bytes.Equal
	return n, nil
}
