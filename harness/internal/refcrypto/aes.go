package refcrypto

import "crypto/aes"

// The AES block primitive comes from the Go standard library (trusted base);
// the CTR and CMAC mode logic is written out here from NIST SP 800-38A / 38B.

// EEA2: counter block T1 = COUNT || BEARER || DIRECTION || 0^26 || 0^64,
// incremented as a 128-bit big-endian integer.
func EEA2(key [16]byte, count uint32, bearer, direction uint32, in []byte) []byte {
	blk, err := aes.NewCipher(key[:])
	if err != nil {
		panic(err)
	}
	var ctr, ks [16]byte
	ctr[0], ctr[1], ctr[2], ctr[3] = byte(count>>24), byte(count>>16), byte(count>>8), byte(count)
	ctr[4] = byte(bearer<<3 | direction<<2)
	out := make([]byte, len(in))
	for off := 0; off < len(in); off += 16 {
		blk.Encrypt(ks[:], ctr[:])
		for j := 0; j < 16 && off+j < len(in); j++ {
			out[off+j] = in[off+j] ^ ks[j]
		}
		for j := 15; j >= 0; j-- {
			ctr[j]++
			if ctr[j] != 0 {
				break
			}
		}
	}
	return out
}

func dbl(b *[16]byte) {
	carry := b[0] >> 7
	for i := 0; i < 15; i++ {
		b[i] = b[i]<<1 | b[i+1]>>7
	}
	b[15] <<= 1
	if carry != 0 {
		b[15] ^= 0x87
	}
}

// CMAC is AES-128-CMAC (SP 800-38B) over msg, full 16-octet tag.
func CMAC(key [16]byte, msg []byte) [16]byte {
	blk, err := aes.NewCipher(key[:])
	if err != nil {
		panic(err)
	}
	var k1, k2, zero [16]byte
	blk.Encrypt(k1[:], zero[:])
	dbl(&k1)
	k2 = k1
	dbl(&k2)
	n := (len(msg) + 15) / 16
	complete := n > 0 && len(msg)%16 == 0
	if n == 0 {
		n = 1
	}
	var x [16]byte
	for i := 0; i < n-1; i++ {
		for j := 0; j < 16; j++ {
			x[j] ^= msg[16*i+j]
		}
		blk.Encrypt(x[:], x[:])
	}
	var last [16]byte
	rest := msg[16*(n-1):]
	copy(last[:], rest)
	if complete {
		for j := range last {
			last[j] ^= k1[j]
		}
	} else {
		last[len(rest)] = 0x80
		for j := range last {
			last[j] ^= k2[j]
		}
	}
	for j := 0; j < 16; j++ {
		x[j] ^= last[j]
	}
	blk.Encrypt(x[:], x[:])
	return x
}

// EIA2: CMAC over COUNT || BEARER || DIRECTION || 0^26 || MESSAGE, first 32 bits.
func EIA2(key [16]byte, count uint32, bearer, direction uint32, msg []byte) uint32 {
	m := make([]byte, 8+len(msg))
	m[0], m[1], m[2], m[3] = byte(count>>24), byte(count>>16), byte(count>>8), byte(count)
	m[4] = byte(bearer<<3 | direction<<2)
	copy(m[8:], msg)
	t := CMAC(key, m)
	return uint32(t[0])<<24 | uint32(t[1])<<16 | uint32(t[2])<<8 | uint32(t[3])
}
