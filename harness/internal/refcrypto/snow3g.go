// Package refcrypto holds reference models of the 3GPP confidentiality and
// integrity algorithms, written from the specifications (ETSI/SAGE SNOW 3G and
// UEA2/UIA2 documents, ZUC and 128-EEA3/EIA3 documents, NIST SP 800-38A/B).
// It imports nothing from the library under test. Tables are derived
// algebraically where a closed form exists.
package refcrypto

import "sync"

// ---- GF(2^8) helpers --------------------------------------------------------

func mulx8(v, c byte) byte {
	if v&0x80 != 0 {
		return (v << 1) ^ c
	}
	return v << 1
}

func mulxPow8(v byte, i int, c byte) byte {
	for ; i > 0; i-- {
		v = mulx8(v, c)
	}
	return v
}

// gfMul multiplies in GF(2^8) modulo the polynomial 0x100|poly.
func gfMul(a, b, poly byte) byte {
	var r byte
	for b != 0 {
		if b&1 != 0 {
			r ^= a
		}
		a = mulx8(a, poly)
		b >>= 1
	}
	return r
}

func gfPow(a byte, e int, poly byte) byte {
	r := byte(1)
	for ; e > 0; e >>= 1 {
		if e&1 != 0 {
			r = gfMul(r, a, poly)
		}
		a = gfMul(a, a, poly)
	}
	return r
}

var (
	tabOnce sync.Once
	sR      [256]byte // Rijndael S-box
	sQ      [256]byte // SNOW 3G S_Q
	mulA    [256]uint32
	divA    [256]uint32
)

func buildTables() {
	// Rijndael S-box: multiplicative inverse in GF(2^8)/x^8+x^4+x^3+x+1, then the affine map.
	for x := 0; x < 256; x++ {
		inv := byte(0)
		if x != 0 {
			inv = gfPow(byte(x), 254, 0x1b)
		}
		s := inv
		r := inv
		for i := 0; i < 4; i++ {
			r = r<<1 | r>>7
			s ^= r
		}
		sR[x] = s ^ 0x63
	}
	// S_Q: Dickson polynomial g49 over GF(2^8)/x^8+x^6+x^5+x^3+1, xor 0x25
	// g49(x) = x + x^9 + x^13 + x^15 + x^33 + x^41 + x^45 + x^47 + x^49
	for x := 0; x < 256; x++ {
		var s byte
		for _, e := range []int{1, 9, 13, 15, 33, 41, 45, 47, 49} {
			s ^= gfPow(byte(x), e, 0x69)
		}
		sQ[x] = s ^ 0x25
	}
	for c := 0; c < 256; c++ {
		b := byte(c)
		mulA[c] = uint32(mulxPow8(b, 23, 0xa9))<<24 | uint32(mulxPow8(b, 245, 0xa9))<<16 | uint32(mulxPow8(b, 48, 0xa9))<<8 | uint32(mulxPow8(b, 239, 0xa9))
		divA[c] = uint32(mulxPow8(b, 16, 0xa9))<<24 | uint32(mulxPow8(b, 39, 0xa9))<<16 | uint32(mulxPow8(b, 6, 0xa9))<<8 | uint32(mulxPow8(b, 64, 0xa9))
	}
}

func sboxMix(w uint32, box *[256]byte, c byte) uint32 {
	w0, w1, w2, w3 := box[byte(w>>24)], box[byte(w>>16)], box[byte(w>>8)], box[byte(w)]
	r0 := mulx8(w0, c) ^ w1 ^ w2 ^ mulx8(w3, c) ^ w3
	r1 := mulx8(w0, c) ^ w0 ^ mulx8(w1, c) ^ w2 ^ w3
	r2 := w0 ^ mulx8(w1, c) ^ w1 ^ mulx8(w2, c) ^ w3
	r3 := w0 ^ w1 ^ mulx8(w2, c) ^ w2 ^ mulx8(w3, c)
	return uint32(r0)<<24 | uint32(r1)<<16 | uint32(r2)<<8 | uint32(r3)
}

type snow struct {
	s          [16]uint32
	r1, r2, r3 uint32
}

func (z *snow) clockFSM() uint32 {
	f := (z.s[15] + z.r1) ^ z.r2
	r := z.r2 + (z.r3 ^ z.s[5])
	z.r3 = sboxMix(z.r2, &sQ, 0x69)
	z.r2 = sboxMix(z.r1, &sR, 0x1b)
	z.r1 = r
	return f
}

func (z *snow) clockLFSR(f uint32) {
	v := (z.s[0] << 8) ^ mulA[z.s[0]>>24] ^ z.s[2] ^ (z.s[11] >> 8) ^ divA[z.s[11]&0xff] ^ f
	copy(z.s[:15], z.s[1:])
	z.s[15] = v
}

// Snow3G returns n keystream words for key words k0..k3 and IV words IV0..IV3
// (numbering of the SNOW 3G specification).
func Snow3G(k, iv [4]uint32, n int) []uint32 {
	tabOnce.Do(buildTables)
	var z snow
	ones := uint32(0xffffffff)
	z.s[15] = k[3] ^ iv[0]
	z.s[14] = k[2]
	z.s[13] = k[1]
	z.s[12] = k[0] ^ iv[1]
	z.s[11] = k[3] ^ ones
	z.s[10] = k[2] ^ ones ^ iv[2]
	z.s[9] = k[1] ^ ones ^ iv[3]
	z.s[8] = k[0] ^ ones
	z.s[7] = k[3]
	z.s[6] = k[2]
	z.s[5] = k[1]
	z.s[4] = k[0]
	z.s[3] = k[3] ^ ones
	z.s[2] = k[2] ^ ones
	z.s[1] = k[1] ^ ones
	z.s[0] = k[0] ^ ones
	for i := 0; i < 32; i++ {
		f := z.clockFSM()
		z.clockLFSR(f)
	}
	z.clockFSM()
	z.clockLFSR(0)
	ks := make([]uint32, n)
	for i := 0; i < n; i++ {
		f := z.clockFSM()
		ks[i] = f ^ z.s[0]
		z.clockLFSR(0)
	}
	return ks
}

func keyWords(key [16]byte) [4]uint32 {
	var k [4]uint32
	// K3 = key[0..3], K2 = key[4..7], K1 = key[8..11], K0 = key[12..15]
	for i := 0; i < 4; i++ {
		o := 4 * (3 - i)
		k[i] = uint32(key[o])<<24 | uint32(key[o+1])<<16 | uint32(key[o+2])<<8 | uint32(key[o+3])
	}
	return k
}

// xorBits returns the first nbits bits of in xor the keystream words, as
// ceil(nbits/8) octets; bits of the last octet beyond nbits are zero.
func xorBits(in []byte, ks []uint32, nbits int) []byte {
	nb := (nbits + 7) / 8
	out := make([]byte, nb)
	for i := 0; i < nb; i++ {
		out[i] = in[i] ^ byte(ks[i/4]>>(8*(3-uint(i%4))))
	}
	if r := nbits % 8; r != 0 {
		out[nb-1] &= 0xff << (8 - uint(r))
	}
	return out
}

// EEA1 is UEA2 f8 / 128-EEA1: the first nbits bits of in, ciphered.
func EEA1(key [16]byte, count uint32, bearer, direction uint32, in []byte, nbits int) []byte {
	bd := bearer<<27 | direction<<26
	iv := [4]uint32{bd, count, bd, count} // IV0, IV1, IV2, IV3
	ks := Snow3G(keyWords(key), iv, (nbits+31)/32)
	return xorBits(in, ks, nbits)
}

func mul64x(v, c uint64) uint64 {
	if v&(1<<63) != 0 {
		return v<<1 ^ c
	}
	return v << 1
}

func mul64(v, p, c uint64) uint64 {
	var r uint64
	for i := 0; i < 64; i++ {
		if p>>uint(i)&1 != 0 {
			r ^= v
		}
		v = mul64x(v, c)
	}
	return r
}

// EIA1 is UIA2 f9 / 128-EIA1 over the first nbits bits of msg.
func EIA1(key [16]byte, count uint32, bearer, direction uint32, msg []byte, nbits int) uint32 {
	fresh := bearer << 27
	iv := [4]uint32{fresh ^ direction<<15, count ^ direction<<31, fresh, count}
	z := Snow3G(keyWords(key), iv, 5)
	p := uint64(z[0])<<32 | uint64(z[1])
	q := uint64(z[2])<<32 | uint64(z[3])
	// message blocks M_0..M_{D-2}, zero padded, bits beyond nbits cleared
	nblk := (nbits + 63) / 64
	var eval uint64
	for b := 0; b < nblk; b++ {
		var m uint64
		for j := 0; j < 8; j++ {
			idx := 8*b + j
			var x byte
			if idx*8 < nbits {
				x = msg[idx]
				if rem := nbits - idx*8; rem < 8 {
					x &= 0xff << (8 - uint(rem))
				}
			}
			m = m<<8 | uint64(x)
		}
		eval = mul64(eval^m, p, 0x1b)
	}
	eval ^= uint64(nbits)
	eval = mul64(eval, q, 0x1b)
	return uint32(eval>>32) ^ z[4]
}
