package refcrypto

import "testing"

func TestSelf(t *testing.T) {
	n, err := SelfTest("/verif")
	t.Log("vectors", n)
	if err != nil {
		t.Fatal(err)
	}
}
