// vgen scans the repository under test with go/parser and emits the registry
// the worker needs to reach every exported IE type, message type and
// identifier constant by name. It does not link the library.
package main

import (
	"encoding/hex"
	"fmt"
	"go/ast"
	"go/parser"
	"go/token"
	"os"
	"path/filepath"
	"sort"
	"strconv"
	"strings"
)

func parseDir(dir string) []*ast.File {
	fset := token.NewFileSet()
	ents, err := os.ReadDir(dir)
	if err != nil {
		fmt.Fprintln(os.Stderr, "vgen:", err)
		os.Exit(2)
	}
	var out []*ast.File
	for _, e := range ents {
		n := e.Name()
		if e.IsDir() || !strings.HasSuffix(n, ".go") || strings.HasSuffix(n, "_test.go") {
			continue
		}
		f, err := parser.ParseFile(fset, filepath.Join(dir, n), nil, 0)
		if err != nil {
			fmt.Fprintln(os.Stderr, "vgen:", err)
			os.Exit(2)
		}
		out = append(out, f)
	}
	return out
}

func structTypes(files []*ast.File) []string {
	var names []string
	for _, f := range files {
		for _, d := range f.Decls {
			gd, ok := d.(*ast.GenDecl)
			if !ok || gd.Tok != token.TYPE {
				continue
			}
			for _, s := range gd.Specs {
				ts := s.(*ast.TypeSpec)
				if _, ok := ts.Type.(*ast.StructType); ok && ts.Name.IsExported() && ts.TypeParams == nil {
					names = append(names, ts.Name.Name)
				}
			}
		}
	}
	sort.Strings(names)
	return names
}

func constNames(files []*ast.File, pred func(string) bool) []string {
	var names []string
	for _, f := range files {
		for _, d := range f.Decls {
			gd, ok := d.(*ast.GenDecl)
			if !ok || gd.Tok != token.CONST {
				continue
			}
			for _, s := range gd.Specs {
				vs := s.(*ast.ValueSpec)
				for _, n := range vs.Names {
					if n.IsExported() && pred(n.Name) {
						names = append(names, n.Name)
					}
				}
			}
		}
	}
	sort.Strings(names)
	return names
}

// mineLiterals collects integer literals and short byte-array composite literals
// from the non-test sources of the tree under test. They feed the generators as
// a fuzzing dictionary: special values the code compares against (spec-defined
// "deleted TAI" codes, protocol identifiers, magic octets) are then hit by
// construction instead of with probability 2^-24.
func mineLiterals(repo string, dirs []string) (ints []uint64, seqs [][]byte, strs []string) {
	seenI := map[uint64]bool{}
	seenS := map[string]bool{}
	seenT := map[string]bool{}
	addSeq := func(b []byte) {
		if len(b) >= 2 && len(b) <= 16 && !seenS[string(b)] && len(seqs) < 3000 {
			seenS[string(b)] = true
			seqs = append(seqs, append([]byte(nil), b...))
		}
	}
	lit := func(e ast.Expr) (uint64, bool) {
		for {
			p, ok := e.(*ast.ParenExpr)
			if !ok {
				break
			}
			e = p.X
		}
		if c, ok := e.(*ast.CallExpr); ok && len(c.Args) == 1 { // uint8(0xff)
			e = c.Args[0]
		}
		bl, ok := e.(*ast.BasicLit)
		if !ok || bl.Kind != token.INT {
			return 0, false
		}
		v, err := strconv.ParseUint(strings.ReplaceAll(bl.Value, "_", ""), 0, 64)
		return v, err == nil
	}
	// the literals an "a == x && b == y && ..." chain compares against, in source order
	var chain func(e ast.Expr, out *[]byte)
	chain = func(e ast.Expr, out *[]byte) {
		be, ok := e.(*ast.BinaryExpr)
		if !ok {
			if p, ok := e.(*ast.ParenExpr); ok {
				chain(p.X, out)
			}
			return
		}
		switch be.Op {
		case token.LAND, token.LOR:
			chain(be.X, out)
			chain(be.Y, out)
		case token.EQL, token.NEQ:
			if v, ok := lit(be.Y); ok && v <= 255 {
				*out = append(*out, byte(v))
			} else if v, ok := lit(be.X); ok && v <= 255 {
				*out = append(*out, byte(v))
			}
		}
	}
	for _, d := range dirs {
		for _, f := range parseDir(filepath.Join(repo, d)) {
			ast.Inspect(f, func(n ast.Node) bool {
				switch x := n.(type) {
				case *ast.BasicLit:
					if x.Kind == token.INT {
						if v, err := strconv.ParseUint(strings.ReplaceAll(x.Value, "_", ""), 0, 64); err == nil && !seenI[v] && len(ints) < 4000 {
							seenI[v] = true
							ints = append(ints, v)
							if v > 255 && v < 1<<32 { // multi-octet constants, big-endian, in each width that holds them
								for w := 2; w <= 4; w++ {
									if v < 1<<(8*uint(w)) {
										b := make([]byte, w)
										for i := 0; i < w; i++ {
											b[w-1-i] = byte(v >> (8 * uint(i)))
										}
										addSeq(b)
									}
								}
							}
						}
					}
					if x.Kind == token.STRING {
						if s, err := strconv.Unquote(x.Value); err == nil && len(s) >= 1 && len(s) <= 40 && !seenT[s] && len(strs) < 3000 {
							seenT[s] = true
							strs = append(strs, s)
							if len(s)%2 == 0 {
								if b, err := hex.DecodeString(s); err == nil {
									addSeq(b)
								}
							}
						}
					}
				case *ast.BinaryExpr:
					if x.Op == token.LAND || x.Op == token.LOR {
						var b []byte
						chain(x, &b)
						addSeq(b)
					}
				case *ast.CompositeLit:
					if len(x.Elts) < 2 || len(x.Elts) > 16 {
						return true
					}
					var b []byte
					for _, e := range x.Elts {
						v, ok := lit(e)
						if !ok || v > 255 {
							return true
						}
						b = append(b, byte(v))
					}
					addSeq(b)
				}
				return true
			})
		}
	}
	sort.Slice(ints, func(i, j int) bool { return ints[i] < ints[j] })
	sort.Slice(seqs, func(i, j int) bool { return string(seqs[i]) < string(seqs[j]) })
	sort.Strings(strs)
	return
}

// mineFileInts collects, per source file, the distinct integer literals above 9 that
// occur in it (files with more than 48 of them are tables, not decisions, and skipped).
func mineFileInts(repo string, dirs []string) map[string][]uint64 {
	out := map[string][]uint64{}
	for _, d := range dirs {
		ents, err := os.ReadDir(filepath.Join(repo, d))
		if err != nil {
			continue
		}
		for _, e := range ents {
			n := e.Name()
			if e.IsDir() || !strings.HasSuffix(n, ".go") || strings.HasSuffix(n, "_test.go") {
				continue
			}
			f, err := parser.ParseFile(token.NewFileSet(), filepath.Join(repo, d, n), nil, 0)
			if err != nil {
				continue
			}
			seen := map[uint64]bool{}
			var vs []uint64
			ast.Inspect(f, func(nd ast.Node) bool {
				if bl, ok := nd.(*ast.BasicLit); ok && bl.Kind == token.INT {
					if v, err := strconv.ParseUint(strings.ReplaceAll(bl.Value, "_", ""), 0, 64); err == nil && v > 9 && !seen[v] {
						seen[v] = true
						vs = append(vs, v)
					}
				}
				return true
			})
			if len(vs) > 0 && len(vs) <= 48 {
				sort.Slice(vs, func(i, j int) bool { return vs[i] < vs[j] })
				out[filepath.ToSlash(filepath.Join(d, n))] = vs
			}
		}
	}
	return out
}

// mineGroups collects, per function, the short string literals that occur in it: the
// tokens a hand-written parser of structured text looks for (separators, labels, suffixes)
// live together in one function, and inputs built from permutations of exactly those
// tokens reach the branches behind them.
func mineGroups(repo string, dirs []string) [][]string {
	var out [][]string
	seen := map[string]bool{}
	for _, d := range dirs {
		for _, f := range parseDir(filepath.Join(repo, d)) {
			for _, decl := range f.Decls {
				fd, ok := decl.(*ast.FuncDecl)
				if !ok || fd.Body == nil {
					continue
				}
				var toks []string
				have := map[string]bool{}
				ast.Inspect(fd.Body, func(n ast.Node) bool {
					if c, ok := n.(*ast.CallExpr); ok {
						// skip the arguments of logging / error formatting calls
						if se, ok := c.Fun.(*ast.SelectorExpr); ok {
							switch se.Sel.Name {
							case "Errorf", "Errorln", "Warnf", "Warnln", "Warningln", "Infof", "Infoln", "Debugf", "Debugln", "Tracef", "Traceln", "Sprintf", "New", "Printf", "Println":
								return false
							}
						}
					}
					if bl, ok := n.(*ast.BasicLit); ok && (bl.Kind == token.STRING || bl.Kind == token.CHAR) {
						s, err := strconv.Unquote(bl.Value)
						if bl.Kind == token.CHAR && err == nil && (len(s) != 1 || s[0] < 0x20 || s[0] > 0x7e || (s[0] >= '0' && s[0] <= '9') || (s[0] >= 'a' && s[0] <= 'f')) {
							err = strconv.ErrSyntax // digit and hex-letter characters are arithmetic, not separators
						}
						if err == nil && len(s) >= 1 && len(s) <= 24 && !strings.Contains(s, "%") && !have[s] {
							have[s] = true
							toks = append(toks, s)
						}
					}
					return true
				})
				if len(toks) >= 2 && len(toks) <= 8 {
					key := strings.Join(toks, "\x00")
					if !seen[key] && len(out) < 400 {
						seen[key] = true
						out = append(out, toks)
					}
				}
			}
		}
	}
	sort.Slice(out, func(i, j int) bool { return strings.Join(out[i], "\x00") < strings.Join(out[j], "\x00") })
	return out
}

func main() {
	if len(os.Args) < 2 {
		fmt.Fprintln(os.Stderr, "usage: vgen <repo>")
		os.Exit(2)
	}
	repo := os.Args[1]
	ie := structTypes(parseDir(filepath.Join(repo, "nasType")))
	msgFiles := parseDir(filepath.Join(repo, "nasMessage"))
	msg := structTypes(msgFiles)
	ieiConsts := constNames(msgFiles, func(n string) bool { return strings.HasSuffix(n, "Type") })
	top := parseDir(repo)
	mtConsts := constNames(top, func(n string) bool { return strings.HasPrefix(n, "MsgType") })

	var b strings.Builder
	b.WriteString("// Code generated by vgen from the tree under test. DO NOT EDIT.\n\npackage reg\n\n")
	b.WriteString("import (\n\tnas \"github.com/free5gc/nas\"\n\t\"github.com/free5gc/nas/nasMessage\"\n\t\"github.com/free5gc/nas/nasType\"\n)\n\n")
	b.WriteString("var IETypes = map[string]func() interface{}{\n")
	for _, n := range ie {
		fmt.Fprintf(&b, "\t%q: func() interface{} { return &nasType.%s{} },\n", n, n)
	}
	b.WriteString("}\n\nvar MsgTypes = map[string]func() interface{}{\n")
	for _, n := range msg {
		fmt.Fprintf(&b, "\t%q: func() interface{} { return &nasMessage.%s{} },\n", n, n)
	}
	b.WriteString("}\n\nvar IEIConsts = map[string]uint8{\n")
	for _, n := range ieiConsts {
		fmt.Fprintf(&b, "\t%q: uint8(nasMessage.%s),\n", n, n)
	}
	b.WriteString("}\n\nvar MsgTypeConsts = map[string]uint8{\n")
	for _, n := range mtConsts {
		fmt.Fprintf(&b, "\t%q: uint8(nas.%s),\n", n, n)
	}
	b.WriteString("}\n")
	ints, seqs, strs := mineLiterals(repo, []string{".", "nasType", "nasMessage", "nasConvert", "security", "uePolicyContainer"})
	b.WriteString("\n// literals mined from the sources of the tree under test (fuzzing dictionary)\nvar DictInts = []uint64{")
	for i, v := range ints {
		if i%12 == 0 {
			b.WriteString("\n\t")
		}
		fmt.Fprintf(&b, "%d, ", v)
	}
	b.WriteString("\n}\n\nvar DictBytes = [][]byte{\n")
	for _, s := range seqs {
		b.WriteString("\t{")
		for i, x := range s {
			if i > 0 {
				b.WriteString(", ")
			}
			fmt.Fprintf(&b, "%#02x", x)
		}
		b.WriteString("},\n")
	}
	b.WriteString("}\n\n// string literals grouped by the function they occur in (2..8 distinct ones per function)\nvar DictGroups = [][]string{\n")
	for _, g := range mineGroups(repo, []string{".", "nasType", "nasMessage", "nasConvert", "security", "uePolicyContainer"}) {
		b.WriteString("\t{")
		for i, s := range g {
			if i > 0 {
				b.WriteString(", ")
			}
			fmt.Fprintf(&b, "%q", s)
		}
		b.WriteString("},\n")
	}
	b.WriteString("}\n\n// integer literals above 9 per source file\nvar DictFileInts = map[string][]uint64{\n")
	fi := mineFileInts(repo, []string{".", "nasType", "nasConvert", "security", "uePolicyContainer"})
	var fnames []string
	for n := range fi {
		if strings.HasPrefix(n, "nasType/NAS_") {
			continue // generated accessors: masks and shifts only
		}
		fnames = append(fnames, n)
	}
	sort.Strings(fnames)
	for _, n := range fnames {
		fmt.Fprintf(&b, "\t%q: {", n)
		for i, v := range fi[n] {
			if i > 0 {
				b.WriteString(", ")
			}
			fmt.Fprintf(&b, "%d", v)
		}
		b.WriteString("},\n")
	}
	b.WriteString("}\n\nvar DictStrings = []string{\n")
	for _, s := range strs {
		fmt.Fprintf(&b, "\t%q,\n", s)
	}
	b.WriteString("}\n")
	fmt.Print(b.String())
}
