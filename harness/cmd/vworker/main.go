// vworker is the only program that links the library under test. It has three
// modes: driver (orchestrates shard children, merges, writes evidence), shard
// (runs the units assigned to one shard) and replay (re-executes one case).
package main

import (
	"encoding/binary"
	"encoding/json"
	"fmt"
	"os"
	"os/exec"
	"path/filepath"
	"runtime"
	"sort"
	"strconv"
	"strings"
	"sync"
	"syscall"
	"time"

	"verifharness/internal/core"
	_ "verifharness/internal/monitor"
)

const memLimit = 3 << 30

func main() {
	if len(os.Args) < 2 {
		usage()
	}
	switch os.Args[1] {
	case "driver":
		os.Exit(driver(os.Args[2:]))
	case "shard":
		os.Exit(shard(os.Args[2:]))
	case "replay":
		os.Exit(replay(os.Args[2:]))
	case "list":
		for _, id := range core.AllIDs() {
			fmt.Println(id)
		}
	default:
		usage()
	}
}

func usage() {
	fmt.Fprintln(os.Stderr, "usage: vworker driver <prop> <tier> <workdir> <verifdir> | shard … | replay <prop> <file>")
	os.Exit(2)
}

func seedFromEnv() uint64 {
	s := os.Getenv("VERIF_SEED")
	if s == "" {
		return 1
	}
	if v, err := strconv.ParseUint(s, 10, 64); err == nil {
		return v
	}
	if v, err := strconv.ParseInt(s, 10, 64); err == nil {
		return uint64(v)
	}
	return core.HashStr(0, s)
}

// selectUnits restricts a unit list to the names that start with one of the comma-separated
// prefixes in VERIF_UNIT_PREFIXES (race side run: the concurrent and cold-start units only).
func selectUnits(units []core.Unit) []core.Unit {
	pf := os.Getenv("VERIF_UNIT_PREFIXES")
	if pf == "" {
		return units
	}
	var out []core.Unit
	for _, u := range units {
		for _, p := range strings.Split(pf, ",") {
			if p != "" && strings.HasPrefix(u.Name, p) {
				out = append(out, u)
				break
			}
		}
	}
	return out
}

// partition assigns units to shards: every Solo unit alone, the rest by
// longest-processing-time-first over n shards. Deterministic.
func partition(units []core.Unit, n int) [][]int {
	var solo, rest []int
	for i, u := range units {
		if u.Solo || u.Fresh {
			solo = append(solo, i)
		} else {
			rest = append(rest, i)
		}
	}
	sort.SliceStable(rest, func(a, b int) bool { return units[rest[a]].Weight > units[rest[b]].Weight })
	if n > len(rest) {
		n = len(rest)
	}
	var out [][]int
	if n > 0 {
		loads := make([]int, n)
		out = make([][]int, n)
		for _, i := range rest {
			m := 0
			for s := 1; s < n; s++ {
				if loads[s] < loads[m] {
					m = s
				}
			}
			w := units[i].Weight
			if w <= 0 {
				w = 1
			}
			loads[m] += w
			out[m] = append(out[m], i)
		}
	}
	for _, i := range solo {
		out = append(out, []int{i})
	}
	return out
}

var shardCap int

func nShards() int {
	n := runtime.NumCPU()
	if shardCap > 0 && n > shardCap {
		n = shardCap
	}
	if s := os.Getenv("VERIF_SHARDS"); s != "" {
		if v, err := strconv.Atoi(s); err == nil && v > 0 {
			n = v
		}
	}
	if n > 16 {
		n = 16
	}
	return n
}

// ---- shard -----------------------------------------------------------------

func shard(args []string) int {
	if len(args) < 6 {
		usage()
	}
	p := core.Lookup(args[0])
	if p == nil {
		fmt.Fprintln(os.Stderr, "unknown property", args[0])
		return 2
	}
	shardCap = p.Shards
	tier := args[1]
	seed, _ := strconv.ParseUint(args[2], 10, 64)
	work := args[3]
	idx, _ := strconv.Atoi(args[4])
	n, _ := strconv.Atoi(args[5])
	units := selectUnits(p.Units(tier))
	parts := partition(units, n)
	if idx >= len(parts) {
		return 0
	}
	j, err := core.OpenJournal(filepath.Join(work, fmt.Sprintf("journal.%d", idx)))
	if err != nil {
		fmt.Fprintln(os.Stderr, "journal:", err)
		return 2
	}
	solo := len(parts[idx]) == 1 && units[parts[idx][0]].Solo
	if !solo {
		core.StartMemWatchdog(memLimit)
	}
	c := core.NewCtx(p, tier, seed, idx, len(parts), j)
	for _, ui := range parts[idx] {
		c.RunUnit(&units[ui])
	}
	if err := c.WriteShardOutput(work); err != nil {
		fmt.Fprintln(os.Stderr, "report:", err)
		return 2
	}
	return 0
}

// ---- replay ----------------------------------------------------------------

func replay(args []string) int {
	if len(args) < 2 {
		usage()
	}
	p := core.Lookup(args[0])
	if p == nil {
		fmt.Fprintln(os.Stderr, "unknown property", args[0])
		return 2
	}
	d, err := os.ReadFile(args[1])
	if err != nil {
		fmt.Fprintln(os.Stderr, err)
		return 2
	}
	var v core.Violation
	if err := json.Unmarshal(d, &v); err != nil || v.Case == nil {
		fmt.Fprintln(os.Stderr, "bad replay file:", err)
		return 2
	}
	if s := os.Getenv("VERIF_CPU_LIMIT"); s != "" {
		if n, err := strconv.Atoi(s); err == nil && n > 0 {
			_ = syscall.Setrlimit(syscall.RLIMIT_CPU, &syscall.Rlimit{Cur: uint64(n), Max: uint64(n + 5)})
		}
	}
	core.StartMemWatchdog(memLimit)
	tier := os.Getenv("VERIF_TIER")
	if tier == "" {
		tier = "quick"
	}
	c := core.NewCtx(p, tier, v.Seed, 0, 1, nil)
	c.Replay = true
	if p.Oracles[v.Case.Oracle] == nil && v.Case.Oracle != core.AfterOther && v.Case.Oracle != core.WithTrace {
		fmt.Fprintf(os.Stderr, "replay: no oracle %q in %s\n", v.Case.Oracle, p.ID)
		return 2
	}
	tries := 1
	if p.Race && v.Oracle == "race-detector" {
		tries = 10 // a schedule cannot be replayed: re-run the workload and see whether the race report recurs
	}
	if strings.HasPrefix(v.Case.Oracle, "concurrent") || strings.HasSuffix(v.Case.Oracle, "-concurrent") {
		tries = 10 // schedule-dependent: repeat until the oracle complains again
	}
	for i := 0; i < tries; i++ {
		c.Do(v.Case)
		if len(c.Report().Violations) > 0 {
			break
		}
	}
	r := c.Report()
	if p.Post != nil {
		pv, _ := p.Post(&core.PostInfo{Work: os.Getenv("VERIF_WORK"), Tier: tier, Seed: v.Seed, Coverage: map[string]map[string]int64{}, Counters: map[string]int64{}})
		for _, x := range pv {
			if v.Oracle != "race-detector" || x.Signature == v.Signature {
				r.Violations = append(r.Violations, x)
			} else {
				fmt.Printf("replay: a different race was reported: %s\n", x.Signature)
			}
		}
	}
	for _, s := range r.Inconcl {
		fmt.Println("INCONCLUSIVE:", s)
	}
	if len(r.Violations) == 0 {
		fmt.Printf("replay: no violation reproduced (evals=%d)\n", r.Evals)
		return 0
	}
	for _, nv := range r.Violations {
		fmt.Printf("replay: REPRODUCED property=%s oracle=%s target=%s signature=%s\n%s\n", p.ID, nv.Oracle, nv.Target, nv.Signature, nv.Detail)
	}
	return 1
}

// ---- driver ----------------------------------------------------------------

type child struct {
	idx      int
	cmd      *exec.Cmd
	done     chan error
	log      string
	journal  string
	lastProg uint64
	lastMove time.Time
	exited   bool
	err      error
	stalled  bool
}

type known struct {
	Status    string `json:"status"`
	Property  string `json:"property"`
	Oracle    string `json:"oracle"`
	Target    string `json:"target"`
	Signature string `json:"signature"`
	What      string `json:"what"`
	Commit    string `json:"commit,omitempty"`
}

func loadKnown(verif string) []known {
	var f struct {
		Findings []known `json:"findings"`
	}
	d, err := os.ReadFile(filepath.Join(verif, "KNOWN_FINDINGS.json"))
	if err != nil {
		return nil
	}
	if err := json.Unmarshal(d, &f); err != nil {
		fmt.Fprintln(os.Stderr, "KNOWN_FINDINGS.json:", err)
		return nil
	}
	return f.Findings
}

func driver(args []string) int {
	if len(args) < 4 {
		usage()
	}
	start := time.Now()
	p := core.Lookup(args[0])
	if p == nil {
		fmt.Fprintln(os.Stderr, "unknown property", args[0])
		return 2
	}
	shardCap = p.Shards
	tier, work, verif := args[1], args[2], args[3]
	if tier != "quick" && tier != "thorough" {
		fmt.Fprintln(os.Stderr, "tier must be quick or thorough")
		return 2
	}
	seed := seedFromEnv()
	self, _ := os.Executable()
	units := selectUnits(p.Units(tier))
	parts := partition(units, nShards())
	stall := p.StallSeconds
	if stall == 0 {
		stall = 180
	}
	if tier == "thorough" {
		stall *= 2
	}

	// Phase 1: all ordinary and Solo shards at once. Phase 2: the Fresh shards, one at a time
	// on the then idle machine — their workloads want all processors for one cold start each.
	var kids []*child
	spawn := func(i int) (*child, error) {
		ch := &child{idx: i, done: make(chan error, 1),
			log:     filepath.Join(work, fmt.Sprintf("shard.%d.log", i)),
			journal: filepath.Join(work, fmt.Sprintf("journal.%d", i))}
		lf, err := os.Create(ch.log)
		if err != nil {
			return nil, err
		}
		cmd := exec.Command(self, "shard", p.ID, tier, strconv.FormatUint(seed, 10), work, strconv.Itoa(i), strconv.Itoa(nShards()))
		cmd.Stdout, cmd.Stderr = lf, lf
		cmd.Env = append(os.Environ(), "VERIF_WORK="+work)
		if p.Race || os.Getenv("VERIF_RACE_SIDE") == "1" {
			cmd.Env = append(cmd.Env, "GORACE=halt_on_error=0 log_path="+filepath.Join(work, fmt.Sprintf("race.%d", i)))
		}
		if len(parts[i]) == 1 && units[parts[i][0]].Solo {
			cmd.Env = append(cmd.Env, "GOMAXPROCS=1")
		}
		if err := cmd.Start(); err != nil {
			lf.Close()
			return nil, err
		}
		lf.Close()
		ch.cmd = cmd
		ch.lastMove = time.Now()
		go func(ch *child) { ch.done <- ch.cmd.Wait() }(ch)
		return ch, nil
	}
	// watch: stage 1 of the hang rule is "no journal progress for `stall` seconds".
	watch := func(batch []*child) {
		running := len(batch)
		for running > 0 {
			time.Sleep(50 * time.Millisecond)
			for _, ch := range batch {
				if ch.exited {
					continue
				}
				select {
				case err := <-ch.done:
					ch.exited, ch.err = true, err
					running--
					continue
				default:
				}
				prog, _, _ := core.ReadJournal(ch.journal)
				if prog != ch.lastProg {
					ch.lastProg, ch.lastMove = prog, time.Now()
				} else if time.Since(ch.lastMove) > time.Duration(stall)*time.Second {
					ch.stalled = true
					_ = ch.cmd.Process.Signal(syscall.SIGQUIT)
					time.Sleep(2 * time.Second)
					_ = ch.cmd.Process.Kill()
					ch.lastMove = time.Now()
				}
			}
		}
	}
	isFresh := func(i int) bool { return len(parts[i]) == 1 && units[parts[i][0]].Fresh }
	var first []*child
	for i := range parts {
		if isFresh(i) {
			continue
		}
		ch, err := spawn(i)
		if err != nil {
			fmt.Fprintln(os.Stderr, err)
			return 2
		}
		first = append(first, ch)
	}
	watch(first)
	kids = append(kids, first...)
	// Under the race detector an unsynchronised first use is reported whether or not the
	// accesses overlap in time, so the cold processes need not have the machine to
	// themselves: eight at a time.
	batch := 1
	if os.Getenv("VERIF_RACE_SIDE") == "1" {
		batch = 8
	}
	var cur []*child
	flush := func() {
		if len(cur) > 0 {
			watch(cur)
			kids = append(kids, cur...)
			cur = nil
		}
	}
	for i := range parts {
		if !isFresh(i) {
			continue
		}
		ch, err := spawn(i)
		if err != nil {
			fmt.Fprintln(os.Stderr, err)
			return 2
		}
		if cur = append(cur, ch); len(cur) >= batch {
			flush()
		}
	}
	flush()

	// merge
	m := &merged{cov: map[string]map[string]int64{}, cnt: map[string]int64{}}
	var inconcl []string
	var vios []*core.Violation
	// stage 2 for every shard that died: regenerate its journalled case and confirm it alone
	// (a process per case; the confirmations of several dead shards run side by side)
	type confirmed struct {
		v    *core.Violation
		note string
	}
	dead := map[int]*confirmed{}
	var cwg sync.WaitGroup
	var cmu sync.Mutex
	for _, ch := range kids {
		rep := readReport(filepath.Join(work, fmt.Sprintf("report.%d.json", ch.idx)))
		if rep == nil || !rep.Done {
			ch := ch
			cwg.Add(1)
			go func() {
				defer cwg.Done()
				v, note := confirmCrash(self, p, tier, seed, work, ch)
				cmu.Lock()
				dead[ch.idx] = &confirmed{v, note}
				cmu.Unlock()
			}()
		}
	}
	cwg.Wait()
	for _, ch := range kids {
		rep := readReport(filepath.Join(work, fmt.Sprintf("report.%d.json", ch.idx)))
		if rep == nil || !rep.Done {
			if d := dead[ch.idx]; d != nil && d.v != nil {
				vios = append(vios, d.v)
			} else if d != nil {
				inconcl = append(inconcl, d.note)
			}
			continue
		}
		m.add(rep)
		vios = append(vios, rep.Violations...)
		inconcl = append(inconcl, rep.Inconcl...)
	}
	distinct := mergeHashes(work, len(kids))
	raceSide := os.Getenv("VERIF_RACE_SIDE") == "1"
	if p.Post != nil && !raceSide {
		pv, pi := p.Post(&core.PostInfo{Work: work, Tier: tier, Seed: seed, Coverage: m.cov, Counters: m.cnt, Shards: len(kids)})
		vios = append(vios, pv...)
		inconcl = append(inconcl, pi...)
	}
	if raceSide && core.RacePost != nil {
		// the concurrent and cold-start units of this property, built with -race: reports with a
		// library frame are violations of this property (its functions kept shared mutable state)
		pv, pi := core.RacePost(&core.PostInfo{Property: p.ID, Work: work, Tier: tier, Seed: seed, Coverage: m.cov, Counters: m.cnt, Shards: len(kids)})
		for _, v := range pv {
			v.Arch = "race"
		}
		vios = append(vios, pv...)
		inconcl = append(inconcl, pi...)
	}
	if p.Floors != nil && !raceSide {
		for _, f := range p.Floors(tier, m.cov, m.cnt) {
			inconcl = append(inconcl, "coverage floor not met: "+f)
		}
	}
	if m.evals == 0 {
		inconcl = append(inconcl, "no evaluations were recorded")
	}

	// dedupe violations, match against known findings, write replay files
	kn := loadKnown(verif)
	seen := map[string]bool{}
	var outV []*core.Violation
	knownHit := map[string]bool{}
	var lines []string
	outRoot := verif
	if o := os.Getenv("VERIF_OUT"); o != "" {
		outRoot = o // self-tests against mutated copies must not overwrite the real evidence
	}
	artDir := filepath.Join(outRoot, "artifacts", p.ID)
	sort.SliceStable(vios, func(a, b int) bool { return vios[a].Key() < vios[b].Key() })
	for _, v := range vios {
		if seen[v.Key()] {
			continue
		}
		seen[v.Key()] = true
		matched := false
		for _, k := range kn {
			if k.Status == "known" && k.Property == p.ID && k.Oracle == v.Oracle && k.Target == v.Target && k.Signature == v.Signature {
				matched = true
				if !knownHit[v.Key()] {
					knownHit[v.Key()] = true
					lines = append(lines, fmt.Sprintf("KNOWN-FINDING: property=%s %s [%s %s %s]", p.ID, k.What, v.Oracle, v.Target, v.Signature))
				}
			}
		}
		if matched {
			continue
		}
		outV = append(outV, v)
	}
	if len(outV) > 0 {
		_ = os.MkdirAll(artDir, 0o755)
	}
	for i, v := range outV {
		if i >= 20 {
			lines = append(lines, fmt.Sprintf("(%d further distinct violations not written out)", len(outV)-20))
			break
		}
		name := fmt.Sprintf("%s-%s-%016x.json", p.ID, tier, core.HashStr(0, v.Key()))
		if runtime.GOARCH != "amd64" {
			v.Arch = runtime.GOARCH
			name = fmt.Sprintf("%s-%s-%s-%016x.json", p.ID, tier, runtime.GOARCH, core.HashStr(0, v.Key()))
		} else if raceSide {
			v.Arch = "race"
			name = fmt.Sprintf("%s-%s-race-%016x.json", p.ID, tier, core.HashStr(0, v.Key()))
		}
		path := filepath.Join(artDir, name)
		d, _ := json.MarshalIndent(v, "", " ")
		_ = os.WriteFile(path, d, 0o644)
		lines = append(lines, fmt.Sprintf("VIOLATION property=%s replay=%s", p.ID, path))
		lines = append(lines, fmt.Sprintf("  oracle=%s target=%s signature=%s", v.Oracle, v.Target, v.Signature))
		det := v.Detail
		if len(det) > 600 {
			det = det[:600] + "…"
		}
		lines = append(lines, "  "+strings.ReplaceAll(det, "\n", "\n  "))
	}

	// evidence
	exh, exhNote := false, ""
	if p.Exhaustive != nil {
		exh, exhNote = p.Exhaustive(tier)
	}
	samples := m.samples
	if len(samples) > 16 {
		samples = samples[:16]
	}
	cov := map[string]interface{}{
		"evaluations":          m.evals,
		"distinct_nontrivial":  distinct,
		"nontrivial_events":    m.nontrivial,
		"distinct_hash_capped": m.capHit,
		"rule":                 p.Rule,
		"samples":              samples,
		"exhaustive":           exh,
		"units_run":            m.units,
		"units_planned":        len(units),
		"shards":               len(kids),
		"counters":             m.cnt,
		"dimensions":           summarize(m.cov),
	}
	if exhNote != "" {
		cov["exhaustive_scope"] = exhNote
	}
	var khits []string
	for k := range knownHit {
		khits = append(khits, k)
	}
	sort.Strings(khits)
	ev := map[string]interface{}{
		"property_id":        p.ID,
		"tier":               tier,
		"seed":               int64(seed & 0x7fffffffffffffff),
		"level":              "exploration",
		"coverage":           cov,
		"assumptions":        p.Assumptions,
		"wall_s":             time.Since(start).Seconds(),
		"violations":         len(outV),
		"known_findings_hit": khits,
		"inconclusive":       inconcl,
		"notes":              m.notes,
		"verdict":            verdict(len(outV), len(inconcl)),
	}
	side := os.Getenv("VERIF_SIDE") == "1"
	if side {
		// a run of the same check on another platform (32-bit build): its summary is handed to
		// the main run, which records it in the evidence file
		plat := runtime.GOARCH
		if raceSide {
			plat += "+race (concurrent and cold-start units only)"
		}
		sd, _ := json.Marshal(map[string]interface{}{"goarch": plat, "tier": tier, "evaluations": m.evals, "distinct_nontrivial": distinct,
			"units_run": m.units, "violations": len(outV), "inconclusive": inconcl, "verdict": verdict(len(outV), len(inconcl))})
		_ = os.WriteFile(filepath.Join(work, "side.json"), sd, 0o644)
	} else {
		var others []interface{}
		for _, sj := range strings.Split(os.Getenv("VERIF_SIDE_JSON"), ":") {
			if sj == "" {
				continue
			}
			if sd, err := os.ReadFile(sj); err == nil {
				var x interface{}
				if json.Unmarshal(sd, &x) == nil {
					others = append(others, x)
				}
			}
		}
		if len(others) > 0 {
			cov["other_platforms"] = others
		}
		_ = os.MkdirAll(filepath.Join(outRoot, "evidence"), 0o755)
		d, _ := json.MarshalIndent(ev, "", " ")
		if err := os.WriteFile(filepath.Join(outRoot, "evidence", p.ID+".json"), d, 0o644); err != nil {
			fmt.Fprintln(os.Stderr, "evidence:", err)
		}
	}

	for _, l := range lines {
		fmt.Println(l)
	}
	for _, s := range inconcl {
		if len(s) > 1500 {
			s = s[:1500] + "…"
		}
		fmt.Println("INCONCLUSIVE:", s)
	}
	if runtime.GOARCH != "amd64" {
		fmt.Printf("[GOARCH=%s] ", runtime.GOARCH)
	} else if raceSide {
		fmt.Printf("[-race, concurrent and cold-start units] ")
	}
	fmt.Printf("%s %s seed=%d: evaluations=%d distinct_nontrivial=%d units=%d/%d violations=%d known=%d wall=%.1fs verdict=%s\n",
		p.ID, tier, seed, m.evals, distinct, m.units, len(units), len(outV), len(knownHit), time.Since(start).Seconds(), verdict(len(outV), len(inconcl)))
	if len(outV) > 0 {
		return 1
	}
	if len(inconcl) > 0 {
		return 2
	}
	return 0
}

func verdict(v, i int) string {
	if v > 0 {
		return "violated"
	}
	if i > 0 {
		return "inconclusive"
	}
	return "held-on-observed"
}

type merged struct {
	evals, nontrivial int64
	units             int
	capHit            bool
	cov               map[string]map[string]int64
	cnt               map[string]int64
	samples           []json.RawMessage
	notes             []string
}

func (m *merged) add(r *core.Report) {
	m.evals += r.Evals
	m.nontrivial += r.NonTrivial
	m.units += r.Units
	m.capHit = m.capHit || r.HashCapHit
	for d, mm := range r.Coverage {
		if m.cov[d] == nil {
			m.cov[d] = map[string]int64{}
		}
		for k, v := range mm {
			m.cov[d][k] += v
		}
	}
	for k, v := range r.Counters {
		m.cnt[k] += v
	}
	// interleave samples from shards
	for i, s := range r.Samples {
		if i < 2 || len(m.samples) < 8 {
			m.samples = append(m.samples, s)
		}
	}
	m.notes = append(m.notes, r.Notes...)
}

// summarize keeps small coverage maps whole and reduces big ones to statistics.
func summarize(cov map[string]map[string]int64) map[string]interface{} {
	out := map[string]interface{}{}
	for d, m := range cov {
		if len(m) <= 64 {
			out[d] = m
			continue
		}
		var min, max, sum int64
		min = -1
		var minK string
		for k, v := range m {
			if min < 0 || v < min || (v == min && k < minK) {
				min, minK = v, k
			}
			if v > max {
				max = v
			}
			sum += v
		}
		out[d] = map[string]interface{}{"keys": len(m), "min": min, "min_key": minK, "max": max, "total": sum}
	}
	return out
}

func readReport(path string) *core.Report {
	d, err := os.ReadFile(path)
	if err != nil {
		return nil
	}
	var r core.Report
	if json.Unmarshal(d, &r) != nil {
		return nil
	}
	return &r
}

func mergeHashes(work string, n int) int64 {
	var all []uint64
	for i := 0; i < n; i++ {
		d, err := os.ReadFile(filepath.Join(work, fmt.Sprintf("hashes.%d.bin", i)))
		if err != nil {
			continue
		}
		for o := 0; o+8 <= len(d); o += 8 {
			all = append(all, binary.LittleEndian.Uint64(d[o:]))
		}
	}
	sort.Slice(all, func(i, j int) bool { return all[i] < all[j] })
	var cnt int64
	for i, h := range all {
		if i == 0 || h != all[i-1] {
			cnt++
		}
	}
	return cnt
}

// confirmCrash implements stage 2 of the fatal/hang rule: the journalled case
// is written out as a replay file and executed alone in a fresh process with a
// CPU-time budget. Only a reproduced fatal error, CPU exhaustion or memory
// blow-up is a violation; anything else is inconclusive.
func confirmCrash(self string, p *core.Property, tier string, seed uint64, work string, ch *child) (*core.Violation, string) {
	_, unit, k := core.ReadJournal(ch.journal)
	logTail := tail(ch.log, 60)
	why := fmt.Sprintf("shard %d died (err=%v, stalled=%v) in unit %q", ch.idx, ch.err, ch.stalled, unit)
	if k == nil {
		return nil, why + " with no journalled case; log tail:\n" + logTail
	}
	v := &core.Violation{Property: p.ID, Oracle: k.Oracle, Target: k.Target, Unit: unit, Seed: seed, Case: k}
	tmp := filepath.Join(work, fmt.Sprintf("crash.%d.json", ch.idx))
	d, _ := json.Marshal(v)
	_ = os.WriteFile(tmp, d, 0o644)
	// CPU budget of the confirmation replay: 20 s; six times that under the race detector,
	// where every memory access is instrumented (a heavy but finite case must not be read
	// as a hang)
	cpu := 20
	if p.Race || os.Getenv("VERIF_RACE_SIDE") == "1" {
		cpu = 120
	}
	// a crash that depends on the schedule (concurrent oracles) need not recur on
	// the first attempt: the confirmation replay is repeated up to five times
	var last string
	for attempt := 0; attempt < 5; attempt++ {
		v2, info, done := confirmOnce(self, p, tier, tmp, work, ch, v, why, cpu)
		if done {
			return v2, info
		}
		last = info
	}
	return nil, last
}

func confirmOnce(self string, p *core.Property, tier, tmp, work string, ch *child, v *core.Violation, why string, cpu int) (*core.Violation, string, bool) {
	logTail := tail(ch.log, 60)
	cmd := exec.Command(self, "replay", p.ID, tmp)
	cmd.Env = append(os.Environ(), fmt.Sprintf("VERIF_CPU_LIMIT=%d", cpu), "VERIF_TIER="+tier)
	outPath := filepath.Join(work, fmt.Sprintf("crash.%d.out", ch.idx))
	of, _ := os.Create(outPath)
	cmd.Stdout, cmd.Stderr = of, of
	if err := cmd.Start(); err != nil {
		return nil, why + ": cannot start replay: " + err.Error(), true
	}
	done := make(chan error, 1)
	go func() { done <- cmd.Wait() }()
	var err error
	timedOut := false
	select {
	case err = <-done:
	case <-time.After(replayWall):
		// no verdict from the clock: ask the runtime what every goroutine is doing, then decide
		// on what the dump shows (a goroutine parked inside the library) and on the CPU consumed
		_ = cmd.Process.Signal(syscall.SIGQUIT)
		select {
		case err = <-done:
		case <-time.After(10 * time.Second):
			_ = cmd.Process.Kill()
			err = <-done
		}
		timedOut = true
	}
	of.Close()
	out := tail(outPath, 40)
	if full, err := os.ReadFile(outPath); err == nil {
		// a runtime fatal error prints its headline first and every goroutine after it
		if i := strings.Index(string(full), "fatal error:"); i >= 0 {
			head := string(full[i:])
			if len(head) > 3000 {
				head = head[:3000] + "\n…"
			}
			out = head
		}
	}
	cpuUsed := time.Duration(0)
	if cmd.ProcessState != nil {
		cpuUsed = cmd.ProcessState.UserTime() + cmd.ProcessState.SystemTime()
	}
	code := -1
	if cmd.ProcessState != nil {
		code = cmd.ProcessState.ExitCode()
	}
	if timedOut && cpuUsed < 5*time.Second {
		// the replay sat there for two minutes without using the processor: blocked, not busy
		if full, err := os.ReadFile(outPath); err == nil {
			if frame, state := parkedInLibrary(string(full)); frame != "" {
				v.Signature = "blocked-forever:" + frame
				v.Detail = fmt.Sprintf("%s; replayed alone, the case made no progress for %s and used %.1fs of CPU; the goroutine dump shows a goroutine parked (%s) in %s\n%s", why, replayWall, cpuUsed.Seconds(), state, frame, out)
				return v, "", true
			}
		}
		return nil, fmt.Sprintf("%s; replay alone blocked for %s (cpu=%.1fs) with no goroutine parked inside the library\n%s", why, replayWall, cpuUsed.Seconds(), out), true
	}
	switch {
	case code == core.MemExitCode:
		v.Signature = "unbounded-memory"
		v.Detail = why + "; replay alone exceeded the memory cap\n" + out
		return v, "", true
	case cpuUsed >= time.Duration(cpu-1)*time.Second:
		v.Signature = "hang"
		v.Detail = fmt.Sprintf("%s; replay alone burned %.1fs CPU (budget %ds) without finishing\n%s", why, cpuUsed.Seconds(), cpu, out)
		return v, "", true
	case strings.Contains(out, "fatal error:") || strings.Contains(out, "goroutine stack exceeds"):
		v.Signature = "fatal"
		v.Detail = why + "; replay alone died with a runtime fatal error\n" + out
		return v, "", true
	case code == 1 && strings.Contains(out, "REPRODUCED"):
		// an ordinary violation that the shard had no chance to report
		v.Signature = "reproduced-after-crash"
		v.Detail = why + "\n" + out
		return v, "", true
	}
	_ = err
	return nil, fmt.Sprintf("%s; journalled case did not reproduce alone in five attempts (exit=%d cpu=%.1fs timedOut=%v)\nshard log tail:\n%s\nreplay output:\n%s", why, code, cpuUsed.Seconds(), timedOut, logTail, out), false
}

// replayWall bounds one confirmation replay. It is a watchdog, not a verdict: what is
// reported depends on the goroutine dump and the CPU time, see confirmOnce.
const replayWall = time.Minute

// parkedInLibrary scans a goroutine dump (SIGQUIT) for a goroutine that waits on a lock,
// channel or condition with a frame of the library under test on its stack, and returns
// the innermost such frame and the wait state.
func parkedInLibrary(dump string) (frame, state string) {
	for _, blk := range strings.Split(dump, "\n\n") {
		lines := strings.Split(strings.TrimSpace(blk), "\n")
		if len(lines) < 2 || !strings.HasPrefix(lines[0], "goroutine ") {
			continue
		}
		i, j := strings.Index(lines[0], "["), strings.LastIndex(lines[0], "]")
		if i < 0 || j < i {
			continue
		}
		st := lines[0][i+1 : j]
		waiting := false
		for _, w := range []string{"semacquire", "sync.Mutex.Lock", "sync.RWMutex", "chan receive", "chan send", "select", "sync.Cond.Wait", "sync.WaitGroup.Wait"} {
			if strings.HasPrefix(st, w) {
				waiting = true
			}
		}
		if !waiting {
			continue
		}
		for _, l := range lines[1:] {
			if strings.HasPrefix(l, "github.com/free5gc/nas") {
				f := l
				if k := strings.LastIndex(f, "("); k > 0 {
					f = f[:k]
				}
				return strings.TrimPrefix(f, "github.com/free5gc/nas/"), st
			}
		}
	}
	return "", ""
}

func tail(path string, n int) string {
	d, err := os.ReadFile(path)
	if err != nil {
		return ""
	}
	lines := strings.Split(string(d), "\n")
	if len(lines) > n {
		lines = lines[len(lines)-n:]
	}
	return strings.Join(lines, "\n")
}
